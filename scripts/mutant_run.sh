#!/bin/bash
# mutant_run.sh <patch.diff> <ID> [<ID> ...]      (env TIER=quick|thorough, default quick)
# Applies the patch to a PRIVATE copy of /repo's working tree (never to /repo), points a
# private copy of the harness at it, and runs the given checks there.
# Prints one line per check:  MUTANT <patch> <ID>: CAUGHT | MISSED | ERROR(rc)
set -u
PATCH=$(readlink -f "${1:?patch}"); shift
[ -f "$PATCH" ] || { echo "no such patch $PATCH"; exit 2; }
TIER="${TIER:-quick}"
ROOT=/tmp/lv-mut
mkdir -p "$ROOT"
SLOT=""
for i in 0 1 2; do
  exec {fd}>"$ROOT/slot$i.lock"
  if flock -n "$fd"; then SLOT="$ROOT/slot$i"; break; fi
  exec {fd}>&-
done
if [ -z "$SLOT" ]; then
  exec {fd}>"$ROOT/slot0.lock"; flock "$fd"; SLOT="$ROOT/slot0"
fi
mkdir -p "$SLOT/repo" "$SLOT/harness"
rsync -a --delete --exclude /target --exclude /.git /repo/ "$SLOT/repo/"
rsync -a --delete --exclude /target /verif/harness/ "$SLOT/harness/"
sed -i "s#\"/repo/#\"$SLOT/repo/#g" "$SLOT/harness/Cargo.toml"
# Files patched by the previous mutant in this slot were just restored by rsync with their
# ORIGINAL (old) mtime; cargo would consider the crate built from the patched file fresh.
# Touch them so they are rebuilt.
if [ -f "$SLOT/last_patched" ]; then
  while read -r f; do [ -f "$SLOT/repo/$f" ] && touch "$SLOT/repo/$f"; done < "$SLOT/last_patched"
fi
grep -E '^\+\+\+ ' "$PATCH" | sed -E 's#^\+\+\+ (b/)?##; s#[[:space:]].*$##' | grep -v '^/dev/null$' > "$SLOT/last_patched"
if ! (cd "$SLOT/repo" && patch -p1 --no-backup-if-mismatch -s < "$PATCH"); then
  echo "MUTANT $PATCH: ERROR(patch does not apply)"; exit 2
fi
export LV_HARNESS_DIR="$SLOT/harness" CARGO_TARGET_DIR="$SLOT/target" LV_NO_EVIDENCE=1 LV_REPLAY_DIR="$SLOT/replays"
rc_all=0
for ID in "$@"; do
  OUT=$(/verif/bin/check "$ID" "$TIER" 2>&1); rc=$?
  echo "$OUT" | grep -E "^(VIOLATION|DETAIL|KNOWN-FINDING|MACHINERY-ERROR|SUMMARY)" | head -12
  case $rc in
    1) echo "MUTANT $PATCH $ID: CAUGHT" ;;
    0) echo "MUTANT $PATCH $ID: MISSED"; rc_all=1 ;;
    *) echo "$OUT" | tail -15; echo "MUTANT $PATCH $ID: ERROR($rc)"; rc_all=2 ;;
  esac
done
exit $rc_all
