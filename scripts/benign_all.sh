#!/bin/bash
# Runs every behaviour-changing-but-property-preserving patch (benign/<ID>-x/patch.diff) through
# the quick tier of check <ID> on a private patched copy.  Expected: no violation (exit 0).
cd /verif
OUT=/tmp/benign_all.out; : > $OUT
run_one() { d=$1; id=$(basename $d | sed 's/-.*//'); r=$(/verif/scripts/mutant_run.sh $d/patch.diff $id 2>&1); v=$(echo "$r" | grep -E "^MUTANT .*: " | tail -1 | sed 's/.*: //'); k=$(echo "$r" | grep -E "^DETAIL" | head -1 | cut -c1-220); echo "$(basename $d)|$id|${v:-ERROR(no verdict)}|$k" >> $OUT; }
export -f run_one; export OUT
ls -d benign/*/ | sed 's#/$##' | xargs -P 3 -L 1 bash -c 'run_one $0'
sort $OUT
