#!/opt/veriftools/pyvenv/bin/python
"""Validate MANIFEST.json and every evidence file against the schemas."""
import json, sys, glob, jsonschema
ok = True
ms = json.load(open('/root/.vp/MANIFEST.schema.json'))
es = json.load(open('/root/.vp/EVIDENCE.schema.json'))
try:
    m = json.load(open('/verif/MANIFEST.json')); jsonschema.validate(m, ms); print('MANIFEST ok,', len(m['checks']), 'checks')
    ids = [c['property_id'] for c in m['checks']] + [n['property_id'] for n in m.get('not_applicable', [])]
    props = [json.loads(l)['id'] for l in open('/verif/properties.jsonl')]
    missing = sorted(set(props) - set(ids)); dup = sorted(i for i in set(ids) if ids.count(i) > 1)
    if missing or dup: print('MANIFEST coverage problem: missing', missing, 'dup', dup); ok = False
except Exception as e:
    print('MANIFEST invalid:', e); ok = False
for f in sorted(glob.glob('/verif/evidence/*.json')):
    try:
        jsonschema.validate(json.load(open(f)), es)
    except Exception as e:
        print(f, 'INVALID', str(e)[:300]); ok = False
print('evidence files:', len(glob.glob('/verif/evidence/*.json')))
sys.exit(0 if ok else 1)
