#!/usr/bin/env python3
"""Regenerates DESIGN.md section 9.4 (between the SEED-TABLE markers) from seeded/*/meta.json
and mutants/RESULTS.md."""
import json, glob, os, re
root='/verif'
rows=[]
for d in sorted(glob.glob(f'{root}/seeded/*/')):
    name=os.path.basename(d.rstrip('/'))
    mp=d+'meta.json'
    m=json.load(open(mp)) if os.path.exists(mp) else {}
    kind='blind' if '-blind-' in name else 'reverse of fix'
    rows.append((name, m.get('property') or name.split('-')[0], kind, m))
# verdicts from RESULTS.md (authoritative for the last full sweep)
res={}
rp=f'{root}/mutants/RESULTS.md'
if os.path.exists(rp):
    for l in open(rp):
        c=[x.strip() for x in l.split('|')]
        if len(c)>4 and c[2].startswith(('mutants/','seeded/')): res[c[2]]=(c[3],c[4])
out=[]
out.append('### 9.4 Which checks catch which changes\n')
out.append('Every patch below compiles and passes the repository\'s existing tests (checked for every blind seed; by the check authors for their mutants). Verdicts are those of the quick tier of the named check.\n')
blind=[r for r in rows if r[2]=='blind']; rev=[r for r in rows if r[2]!='blind']
def verdict(name,m):
    v=res.get(f'seeded/{name}/patch.diff')
    return (v[0] if v else m.get('check_verdict','?')), (v[1] if v else '')
out.append(f'**Blind seeds** ({len(blind)} kept; written by independent agents from the property text only):\n')
out.append('| seeded/ | check | what the change does (needs) | verdict | note |'); out.append('|---|---|---|---|---|')
nb_first_missed=0
for name,prop,kind,m in blind:
    v,key=verdict(name,m)
    hist=m.get('check_history','')
    if hist: nb_first_missed+=1
    summ=(m.get('summary') or '').replace('\n',' ').replace('|','/')
    needs=(m.get('needs') or '').replace('\n',' ').replace('|','/')
    txt=(summ[:170]+('…' if len(summ)>170 else ''))+(' — needs: '+needs[:150]+('…' if len(needs)>150 else '') if needs else '')
    note=('first missed/undecided → check strengthened: '+hist[:260].replace('|','/')+('…' if len(hist)>260 else '')) if hist else (f'key `{key}`' if key else '')
    out.append(f'| {name} | {prop} | {txt} | {v} | {note} |')
out.append('')
out.append(f'{nb_first_missed} of the {len(blind)} blind seeds were first missed (or left undecided) and led to a strengthened check; see the note column. Several later blind seeds re-derived an earlier one independently (same edit): C37 pending-scan restart, C40 unvalidated pools not evicted, C26 re-request size, C31 sort key, C07 orthogonal position, C11 signer early return, C12 ceil-div — only one copy of each is kept.\n')
out.append(f'**Reverse patches of the `fix:` commits** ({len(rev)}): each re-introduces a defect found on the pinned tree and is re-detected by its check:\n')
out.append('| seeded/ | check | verdict | first violation key |'); out.append('|---|---|---|---|')
for name,prop,kind,m in rev:
    v,key=verdict(name,m)
    out.append(f'| {name} | {prop} | {v} | {key} |')
out.append('')
# author mutants summary
by={}
for k,(v,key) in res.items():
    if k.startswith('mutants/'):
        pid=os.path.basename(k).split('-')[0]; by.setdefault(pid,[0,0,[]]); by[pid][0]+=1
        if v=='CAUGHT': by[pid][1]+=1
        else: by[pid][2].append(os.path.basename(k)+': '+v)
if by:
    tot=sum(v[0] for v in by.values()); cau=sum(v[1] for v in by.values())
    out.append(f'**Author mutants** (`mutants/`, {tot} patches; full table in `mutants/RESULTS.md`): {cau} caught. Not caught: '+'; '.join(x for v in by.values() for x in v[2])+'. The three MISSED ones are equivalent mutants (C17 partition tie keeps the partition balanced; C38 p2p-side range verification is repeated by `VerifiedExtendedHeaders::try_from`; C41 `notify_one` is equivalent with the single waiter that `close(self)` guarantees).\n')
txt='\n'.join(out)
p=f'{root}/DESIGN.md'; s=open(p).read()
a='<!-- SEED-TABLE-BEGIN -->'; b='<!-- SEED-TABLE-END -->'
if a in s: s=s[:s.index(a)+len(a)]+'\n'+txt+'\n'+s[s.index(b):]
else: s=s+f'\n{a}\n{txt}\n{b}\n'
open(p,'w').write(s)
print('blind',len(blind),'reverse',len(rev),'first-missed',nb_first_missed)
