#!/bin/bash
# Runs every registered thorough check once; prints id, exit code, wall seconds.
cd /verif
IDS=${@:-$(python3 -c "import json;print(' '.join(c['property_id'] for c in json.load(open('/verif/MANIFEST.json'))['checks']))")}
for ID in $IDS; do
  t0=$(date +%s)
  OUT=$(nice -n 5 ./bin/check $ID thorough 2>&1); rc=$?
  t1=$(date +%s)
  echo "$ID rc=$rc wall=$((t1-t0))s $(echo "$OUT" | grep -E '^(VIOLATION|MACHINERY-ERROR)' | head -2 | tr '\n' ';') $(echo "$OUT" | grep -E '^SUMMARY' | sed -E 's/classes=.*violations=/violations=/' | cut -c1-200)"
done
