#!/usr/bin/env python3
"""Regenerates /verif/MANIFEST.json from scripts/checks_meta.json + scripts/ready.txt.
A property whose check is not listed in ready.txt is put under not_applicable with the
reason recorded in checks_meta.json (or 'check not built yet')."""
import json, os, subprocess
root = '/verif'
meta = json.load(open(f'{root}/scripts/checks_meta.json'))
ready = [l.strip() for l in open(f'{root}/scripts/ready.txt') if l.strip() and not l.startswith('#')]
props = [json.loads(l) for l in open(f'{root}/properties.jsonl')]
def hook_commits():
    try:
        out = subprocess.check_output(['git', '-C', '/repo', 'log', '--format=%H %s'], text=True)
        return [l.split()[0] for l in out.splitlines() if l.split(' ', 1)[1].startswith('verif-hook')]
    except Exception:
        return []
checks, na = [], []
for p in props:
    i = p['id']; m = meta.get(i, {})
    if i in ready:
        level = m.get('level', 'model_checking')
        checks.append({
            'property_id': i,
            'quick_cmd': f'./bin/check {i} quick',
            'thorough_cmd': f'./bin/check {i} thorough',
            'evidence_file': f'/verif/evidence/{i}.json',
            'replay_cmd_template': f'./bin/check {i} --replay {{path}}',
            'engine': m.get('engine', 'E1'),
            'level_claimed': {'category': level, 'text': m.get('text', ''), 'design_ref': f'DESIGN.md §3 {i} (plan), §9.3 (as built), §9.4–9.6 (what catches what; false-alarm tests)'},
            'level_note': m.get('note', ''),
            'technique': m.get('technique', ''),
        })
    else:
        na.append({'property_id': i, 'reason': m.get('na_reason', 'check not built yet in this session; design in DESIGN.md §3, no claim is made until the check exists')})
man = {
    'version': 1,
    'setup_cmd': './bin/setup',
    'hooks': {
        'guard': '--cfg eigerco_lumina_verif',
        'enable': 'harness/.cargo/config.toml sets rustflags = ["--cfg", "eigerco_lumina_verif"]; every check is built by ./bin/check with cargo --offline from /repo path dependencies',
        'baseline_off_cmd': './bin/baseline_off',
        'source_commits': hook_commits(),
        'add_only': True,
    },
    'engines': [
        {'name': 'E1 enumerate', 'path': 'harness/core/src/engine.rs (par_cases)', 'kind_free_text': 'bounded-exhaustive input-space enumeration on the real function with independent oracle (depth-1 explicit-state search)', 'serves_properties': [c['property_id'] for c in checks if c['engine'].startswith('E1')]},
        {'name': 'E2 opseq', 'path': 'harness/core/src/engine.rs (bfs)', 'kind_free_text': 'explicit-state BFS over operation histories on the real object, dedup on canonical observation, reference model in lock-step', 'serves_properties': [c['property_id'] for c in checks if c['engine'].startswith('E2')]},
        {'name': 'E3 envdfs', 'path': 'harness/core/src/engine.rs (explore_deviations)', 'kind_free_text': 'stateless deviation-bounded DFS over environment answers for async workers on a paused current-thread tokio runtime', 'serves_properties': [c['property_id'] for c in checks if c['engine'].startswith('E3')]},
        {'name': 'E4 crash', 'path': 'harness/node/src/bin/c22.rs', 'kind_free_text': 'crash-point x lost-write-subset enumeration over a logging redb StorageBackend', 'serves_properties': [c['property_id'] for c in checks if c['engine'].startswith('E4')]},
        {'name': 'E5 interleave', 'path': 'harness/node/src/bin/c41.rs', 'kind_free_text': 'shuttle exhaustive DFS over thread interleavings at hook points', 'serves_properties': [c['property_id'] for c in checks if c['engine'].startswith('E5')]},
    ],
    'checks': checks,
    'not_applicable': na,
    'notes': 'All checks run the real lumina code; models are only oracles. See DESIGN.md. Exit 2 = machinery error (never a verdict).',
}
json.dump(man, open(f'{root}/MANIFEST.json', 'w'), indent=1)
print('checks', len(checks), 'not_applicable', len(na))
