#!/usr/bin/env python3
"""Requires every stable_pass test of /root/.vp/BASELINE.json to pass in the last nextest run."""
import json, sys, glob, os, xml.etree.ElementTree as ET
missing_out = sys.argv[sys.argv.index('--missing-out')+1] if '--missing-out' in sys.argv else None
base = json.load(open('/root/.vp/BASELINE.json'))
want = set(base['stable_pass'])
root = '/repo/' + (open('/w/out/cargo_root.txt').read().strip() if os.path.exists('/w/out/cargo_root.txt') else '.')
files = glob.glob(os.path.join(root, 'target/nextest/pb/junit.xml'))
if not files:
    print('baseline: no junit.xml produced'); sys.exit(2)
passed, failed = set(), set()
for fn in files:
    for tc in ET.parse(fn).getroot().iter('testcase'):
        tid = (tc.get('classname') or '') + '::' + (tc.get('name') or '')
        bad = tc.find('failure') is not None or tc.find('error') is not None or tc.find('flakyFailure') is not None or tc.find('rerunFailure') is not None
        (failed if bad else passed).add(tid)
passed -= failed
missing = sorted(want - passed)
print(f'baseline: {len(passed)} passed, {len(failed)} failed, stable_pass required {len(want)}, missing {len(missing)}')
for m in missing[:40]: print('  NOT PASSING:', m)
if missing_out: open(missing_out,'w').write(''.join(m+'\n' for m in missing))
sys.exit(0 if not missing else 1)
