#!/bin/bash
# verify_seed.sh <seed_out_dir> <ID> <slug> <crate> <demo-test-args...>
#   1. demo passes on unmodified HEAD   2. demo fails with patch   3. crate lib tests pass with patch
#   4. /verif check catches it (mutant_run.sh)      -> copies into /verif/seeded/<ID>-blind-<slug>/
set -u
SRC=$(readlink -f "$1"); ID=$2; SLUG=$3; CRATE=$4; shift 4
DEMO_ARGS=("$@")
WT=/tmp/seedv/wt; export CARGO_TARGET_DIR=/tmp/seedv/target CARGO_BUILD_JOBS=${CARGO_BUILD_JOBS:-8}
mkdir -p /tmp/seedv
exec 9>/tmp/seedv/lock; flock 9
if [ ! -d $WT ]; then git -C /repo worktree add --detach $WT HEAD -q; else git -C $WT checkout -q --detach $(git -C /repo rev-parse HEAD) && git -C $WT checkout -- . && git -C $WT clean -fdq; fi
cd $WT
res() { echo "SEEDCHECK $ID-$SLUG $1"; }
git apply "$SRC/demo.diff" || { res "demo.diff does not apply"; exit 2; }
if cargo test -p $CRATE --offline "${DEMO_ARGS[@]}" > /tmp/seedv/demo_clean.log 2>&1; then res "demo passes on clean tree: yes"; else res "demo FAILS on clean tree"; tail -20 /tmp/seedv/demo_clean.log; exit 2; fi
git apply "$SRC/patch.diff" || { res "patch.diff does not apply"; exit 2; }
if cargo test -p $CRATE --offline "${DEMO_ARGS[@]}" > /tmp/seedv/demo_patched.log 2>&1; then res "demo PASSES with patch (not a demonstration)"; exit 2; else res "demo fails with patch: yes"; fi
git apply -R "$SRC/demo.diff"
LIBARGS=(); if [ "$CRATE" = celestia-grpc ]; then LIBARGS=(-- --exact $(cat /verif/scripts/grpc_stable_tests.txt)); fi
if cargo test -p $CRATE --offline --lib "${LIBARGS[@]}" > /tmp/seedv/lib_patched.log 2>&1; then res "existing $CRATE lib tests pass with patch: yes ($(grep -E '^test result' /tmp/seedv/lib_patched.log | head -1))"; else
  # timing-sensitive tests flake under machine load: re-run the failed ones alone, twice
  FAILED=$(grep -E "^test .* \.\.\. FAILED" /tmp/seedv/lib_patched.log | awk '{print $2}' | sort -u)
  ok=1; for t in $FAILED; do cargo test -p $CRATE --offline --lib -- --exact "$t" > /tmp/seedv/retry.log 2>&1 || cargo test -p $CRATE --offline --lib -- --exact "$t" > /tmp/seedv/retry.log 2>&1 || ok=0; done
  if [ -n "$FAILED" ] && [ $ok = 1 ]; then res "existing $CRATE lib tests pass with patch: yes after re-running load-flaky tests alone ($(echo $FAILED | tr '\n' ' '))"; else res "existing tests FAIL with patch"; echo "$FAILED" | head; exit 2; fi
fi
git checkout -- . && git clean -fdq
flock -u 9
OUT=$(/verif/scripts/mutant_run.sh "$SRC/patch.diff" $ID 2>&1); echo "$OUT" | tail -6
VERDICT=$(echo "$OUT" | grep -E "^MUTANT .*: (CAUGHT|MISSED|ERROR)" | tail -1 | sed 's/.*: //')
DST=/verif/seeded/$ID-blind-$SLUG; mkdir -p $DST
cp "$SRC/patch.diff" "$SRC/demo.diff" $DST/
python3 - "$SRC/meta.json" "$DST/meta.json" "$VERDICT" "$CRATE" "${DEMO_ARGS[*]}" <<'P'
import json,sys
m=json.load(open(sys.argv[1]))
m['origin']='written blind by an independent sub-agent that saw only the property text and a scratch worktree'
m['confirmed_by_coordinator']={'demo_passes_clean':True,'demo_fails_patched':True,'existing_lib_tests_pass_patched':True,
  'ran':[f'cargo test -p {sys.argv[4]} --offline {sys.argv[5]} (clean: pass, patched: fail)', f'cargo test -p {sys.argv[4]} --offline --lib (patched: pass)', f'/verif/scripts/mutant_run.sh patch.diff {m.get("property")} -> {sys.argv[3]}']}
m['check_verdict']=sys.argv[3]
json.dump(m,open(sys.argv[2],'w'),indent=1)
P
res "check verdict: $VERDICT"
