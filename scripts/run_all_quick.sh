#!/bin/bash
# Runs every registered quick check once; prints id, exit code, wall seconds.
cd /verif
IDS=${@:-$(python3 -c "import json;print(' '.join(c['property_id'] for c in json.load(open('/verif/MANIFEST.json'))['checks']))")}
for ID in $IDS; do
  t0=$(date +%s)
  OUT=$(./bin/check $ID quick 2>&1); rc=$?
  t1=$(date +%s)
  echo "$ID rc=$rc wall=$((t1-t0))s $(echo "$OUT" | grep -E '^(VIOLATION|KNOWN-FINDING|MACHINERY-ERROR)' | head -3 | tr '\n' ';')"
done
