//! Check context (argv / env), the coverage report, the evidence writer, replay files and
//! known-findings handling.

use serde_json::{Map, Value, json};
use std::collections::{BTreeMap, BTreeSet, HashSet};
use std::path::PathBuf;
use std::time::Instant;

pub const VERIF_ROOT: &str = "/verif";

#[derive(Clone, Copy, Debug, PartialEq, Eq)]
pub enum Tier {
    Quick,
    Thorough,
}

impl Tier {
    pub fn as_str(self) -> &'static str {
        match self {
            Tier::Quick => "quick",
            Tier::Thorough => "thorough",
        }
    }
    /// `if quick { a } else { b }`
    pub fn pick<T>(self, quick: T, thorough: T) -> T {
        match self {
            Tier::Quick => quick,
            Tier::Thorough => thorough,
        }
    }
}

/// What a check binary was asked to do.
#[derive(Clone, Debug)]
pub struct Ctx {
    pub id: String,
    pub tier: Tier,
    pub seed: u64,
    /// `--replay <file>`: re-run exactly the recorded case, without the explorer.
    pub replay: Option<PathBuf>,
    /// `--no-evidence`: do not rewrite the evidence file (used by replay and by scripts).
    pub write_evidence: bool,
    pub start: Instant,
    /// MANIFEST level of this check ("model_checking" | "fault_enumeration").
    pub level: &'static str,
}

impl Ctx {
    /// Parses `<bin> [quick|thorough] [--replay FILE] [--id Cxx]`; `VERIF_TIER` and
    /// `VERIF_SEED` are honoured (the positional tier wins over the environment).
    pub fn from_args(default_id: &str) -> Ctx {
        install_quiet_panic_hook();
        let mut tier = match std::env::var("VERIF_TIER").ok().as_deref() {
            Some("thorough") => Tier::Thorough,
            _ => Tier::Quick,
        };
        let seed = std::env::var("VERIF_SEED")
            .ok()
            .and_then(|s| s.parse::<u64>().ok())
            .unwrap_or(1);
        let mut replay = None;
        let mut id = default_id.to_string();
        let mut write_evidence = true;
        let mut args = std::env::args().skip(1);
        while let Some(a) = args.next() {
            match a.as_str() {
                "quick" => tier = Tier::Quick,
                "thorough" => tier = Tier::Thorough,
                "--replay" => replay = args.next().map(PathBuf::from),
                "--id" => id = args.next().unwrap_or(id),
                "--no-evidence" => write_evidence = false,
                other => machinery_error(&id, &format!("unknown argument {other:?}")),
            }
        }
        if replay.is_some() {
            write_evidence = false;
        }
        Ctx {
            id,
            tier,
            seed,
            replay,
            write_evidence,
            start: Instant::now(),
            level: "model_checking",
        }
    }

    pub fn with_level(mut self, level: &'static str) -> Ctx {
        self.level = level;
        self
    }

    pub fn quick(&self) -> bool {
        self.tier == Tier::Quick
    }

    /// The `case` value of the replay file, if this is a replay run.
    pub fn replay_case(&self) -> Option<Value> {
        let p = self.replay.as_ref()?;
        let txt = std::fs::read_to_string(p)
            .unwrap_or_else(|e| machinery_error(&self.id, &format!("cannot read replay {p:?}: {e}")));
        let v: Value = serde_json::from_str(&txt)
            .unwrap_or_else(|e| machinery_error(&self.id, &format!("bad replay json {p:?}: {e}")));
        Some(v.get("case").cloned().unwrap_or(Value::Null))
    }

    pub fn elapsed_s(&self) -> f64 {
        self.start.elapsed().as_secs_f64()
    }
}

/// Exit 2: the machinery (not the property) failed.
pub fn machinery_error(id: &str, msg: &str) -> ! {
    eprintln!("MACHINERY-ERROR property={id} {msg}");
    println!("MACHINERY-ERROR property={id} {msg}");
    std::process::exit(2)
}

#[derive(Clone, Debug)]
pub struct Violation {
    /// Stable class of the failure (what `known_findings.json` matches on), e.g.
    /// `sample-accepted-for-other-column`.
    pub key: String,
    /// Human explanation: expected vs observed.
    pub what: String,
    /// The minimal case (input, history or choice sequence) — what `--replay` re-runs.
    pub case: Value,
}

/// Coverage counters of one run.  Cheap to create per worker thread and `merge`.
#[derive(Default, Debug)]
pub struct Report {
    pub evaluations: u64,
    keys: HashSet<u64>,
    nontrivial: HashSet<u64>,
    /// outcome class -> number of evaluations that produced it
    pub classes: BTreeMap<String, u64>,
    pub samples: Vec<Value>,
    pub sample_cap: usize,
    pub violations: Vec<Violation>,
    pub violation_count: u64,
    pub states: u64,
    pub transitions: u64,
    pub traces: u64,
    pub extras: BTreeMap<String, Value>,
    pub caps_hit: BTreeSet<String>,
    pub max_depth: u64,
}

impl Report {
    pub fn new() -> Report {
        Report {
            sample_cap: 6,
            ..Default::default()
        }
    }

    /// Records one evaluation of the code under test.
    /// `key`: canonical key of the case (distinctness); `class`: outcome class;
    /// `nontrivial`: whether the case is non-trivial by the check's stated rule.
    pub fn case(&mut self, key: u64, class: &str, nontrivial: bool) {
        self.evaluations += 1;
        self.keys.insert(key);
        if nontrivial {
            self.nontrivial.insert(key);
        }
        match self.classes.get_mut(class) {
            Some(c) => *c += 1,
            None => {
                self.classes.insert(class.to_string(), 1);
            }
        }
    }

    /// Like `case` but without remembering the key: for spaces too large to keep a key
    /// set for.  The caller guarantees distinctness by construction and says so in `rule`;
    /// `distinct` / `distinct_nontrivial` are then counted with `count_distinct`.
    pub fn case_nokey(&mut self, class: &str) {
        self.evaluations += 1;
        match self.classes.get_mut(class) {
            Some(c) => *c += 1,
            None => {
                self.classes.insert(class.to_string(), 1);
            }
        }
    }

    pub fn sample(&mut self, f: impl FnOnce() -> Value) {
        if self.samples.len() < self.sample_cap {
            self.samples.push(f());
        }
    }

    pub fn wants_sample(&self) -> bool {
        self.samples.len() < self.sample_cap
    }

    pub fn violation(&mut self, key: &str, what: String, case: Value) {
        self.violation_count += 1;
        // keep the first (simplest-first ordering of the drivers) per class, and a few more
        let same = self.violations.iter().filter(|v| v.key == key).count();
        if same < 3 && self.violations.len() < 200 {
            self.violations.push(Violation {
                key: key.to_string(),
                what,
                case,
            });
        }
    }

    pub fn extra(&mut self, k: &str, v: Value) {
        self.extras.insert(k.to_string(), v);
    }

    pub fn cap_hit(&mut self, what: &str) {
        self.caps_hit.insert(what.to_string());
    }

    pub fn distinct(&self) -> u64 {
        self.keys.len() as u64
    }
    pub fn distinct_nontrivial(&self) -> u64 {
        self.nontrivial.len() as u64
    }

    pub fn merge(mut self, mut other: Report) -> Report {
        if self.keys.len() < other.keys.len() {
            std::mem::swap(&mut self.keys, &mut other.keys);
        }
        self.keys.extend(other.keys);
        if self.nontrivial.len() < other.nontrivial.len() {
            std::mem::swap(&mut self.nontrivial, &mut other.nontrivial);
        }
        self.nontrivial.extend(other.nontrivial);
        self.evaluations += other.evaluations;
        for (k, v) in other.classes {
            *self.classes.entry(k).or_insert(0) += v;
        }
        self.sample_cap = self.sample_cap.max(other.sample_cap);
        for s in other.samples {
            if self.samples.len() < self.sample_cap {
                self.samples.push(s);
            }
        }
        self.violation_count += other.violation_count;
        for v in other.violations {
            let same = self.violations.iter().filter(|x| x.key == v.key).count();
            if same < 3 && self.violations.len() < 200 {
                self.violations.push(v);
            }
        }
        self.states += other.states;
        self.transitions += other.transitions;
        self.traces += other.traces;
        self.max_depth = self.max_depth.max(other.max_depth);
        for (k, v) in other.extras {
            self.extras.entry(k).or_insert(v);
        }
        self.caps_hit.extend(other.caps_hit);
        self
    }

    pub fn merge_in(&mut self, other: Report) {
        let me = std::mem::take(self);
        *self = me.merge(other);
    }
}

/// Static description of a check: goes into the evidence file.
pub struct Spec<'a> {
    /// How cases are enumerated and what makes one non-trivial / distinct.
    pub rule: &'a str,
    pub assumptions: &'a [&'a str],
    /// Outcome classes that must each be observed at least once; otherwise the run is
    /// vacuous (machinery error, exit 2).  A trailing `*` matches a prefix.
    pub required_classes: &'a [&'a str],
    /// The finite space described by `rule` was enumerated completely.
    pub exhaustive: bool,
}

#[derive(serde::Deserialize, Debug, Default)]
struct KnownFile {
    #[serde(default)]
    findings: Vec<KnownEntry>,
}
#[derive(serde::Deserialize, Debug)]
struct KnownEntry {
    property: String,
    key: String,
    what: String,
}

fn load_known(id: &str) -> Vec<(String, String)> {
    let p = format!("{VERIF_ROOT}/known_findings.json");
    let Ok(txt) = std::fs::read_to_string(&p) else {
        return vec![];
    };
    let k: KnownFile = serde_json::from_str(&txt)
        .unwrap_or_else(|e| machinery_error(id, &format!("bad known_findings.json: {e}")));
    k.findings
        .into_iter()
        .filter(|e| e.property == id)
        .map(|e| (e.key, e.what))
        .collect()
}

fn class_seen(classes: &BTreeMap<String, u64>, want: &str) -> bool {
    if let Some(prefix) = want.strip_suffix('*') {
        classes.keys().any(|k| k.starts_with(prefix))
    } else {
        classes.contains_key(want)
    }
}

/// Writes the evidence file, prints KNOWN-FINDING / VIOLATION lines and exits.
pub fn finish(ctx: &Ctx, mut rep: Report, spec: Spec<'_>) -> ! {
    let wall = ctx.elapsed_s();
    let known = load_known(&ctx.id);

    // partition violations into known findings and new ones (by class key)
    let mut known_hit: BTreeMap<String, String> = BTreeMap::new();
    let mut fresh: Vec<&Violation> = vec![];
    for v in &rep.violations {
        if let Some((k, what)) = known.iter().find(|(k, _)| *k == v.key) {
            known_hit.insert(k.clone(), what.clone());
        } else {
            fresh.push(v);
        }
    }

    // For the model-checking keys: an E1 "state" is a distinct enumerated case and a
    // "transition" one evaluation of the real code on it, unless the engine counted its own.
    let distinct = rep.distinct();
    let distinct_nt = rep.distinct_nontrivial();
    if rep.states == 0 {
        rep.states = distinct.max(rep.extras.get("distinct_by_construction").and_then(|v| v.as_u64()).unwrap_or(0));
    }
    if rep.transitions == 0 {
        rep.transitions = rep.evaluations;
    }
    if rep.traces == 0 {
        rep.traces = rep.evaluations;
    }
    let dn = if distinct_nt > 0 {
        distinct_nt
    } else {
        rep.extras
            .get("distinct_nontrivial_by_construction")
            .and_then(|v| v.as_u64())
            .unwrap_or(0)
    };

    let mut missing: Vec<&str> = vec![];
    for c in spec.required_classes {
        if !class_seen(&rep.classes, c) {
            missing.push(c);
        }
    }

    let mut cov = Map::new();
    cov.insert("states".into(), json!(rep.states));
    cov.insert("transitions".into(), json!(rep.transitions));
    cov.insert("traces_validated_against_impl".into(), json!(rep.traces));
    cov.insert("evaluations".into(), json!(rep.evaluations));
    cov.insert("distinct_nontrivial".into(), json!(dn));
    cov.insert("distinct_cases".into(), json!(distinct));
    cov.insert("rule".into(), json!(spec.rule));
    cov.insert("exhaustive".into(), json!(spec.exhaustive && rep.caps_hit.is_empty()));
    cov.insert("caps_hit".into(), json!(rep.caps_hit));
    cov.insert("outcome_classes".into(), json!(rep.classes));
    cov.insert("max_depth".into(), json!(rep.max_depth));
    cov.insert("samples".into(), Value::Array(rep.samples.clone()));
    cov.insert(
        "known_findings_hit".into(),
        json!(known_hit.keys().collect::<Vec<_>>()),
    );
    cov.insert(
        "explanation".into(),
        json!("every counted transition is an execution of the real lumina code (no separate model); states are distinct canonical cases / observations"),
    );
    for (k, v) in &rep.extras {
        cov.insert(k.clone(), v.clone());
    }

    let ev = json!({
        "property_id": ctx.id,
        "tier": ctx.tier.as_str(),
        "seed": ctx.seed,
        "level": ctx.level,
        "coverage": Value::Object(cov),
        "assumptions": spec.assumptions,
        "wall_s": wall,
        "violations": rep.violation_count,
    });
    if ctx.write_evidence {
        let dir = format!("{VERIF_ROOT}/evidence");
        let _ = std::fs::create_dir_all(&dir);
        let path = format!("{dir}/{}.json", ctx.id);
        let tmp = format!("{path}.tmp");
        std::fs::write(&tmp, serde_json::to_string_pretty(&ev).unwrap())
            .and_then(|_| std::fs::rename(&tmp, &path))
            .unwrap_or_else(|e| machinery_error(&ctx.id, &format!("cannot write evidence: {e}")));
    }

    println!(
        "SUMMARY property={} tier={} evaluations={} states={} transitions={} distinct_nontrivial={} classes={:?} violations={} wall_s={:.1}",
        ctx.id,
        ctx.tier.as_str(),
        rep.evaluations,
        rep.states,
        rep.transitions,
        dn,
        rep.classes,
        rep.violation_count,
        wall
    );

    for (k, what) in &known_hit {
        println!("KNOWN-FINDING: property={} {} ({})", ctx.id, what, k);
    }

    if !fresh.is_empty() {
        let dir = std::env::var("LV_REPLAY_DIR").unwrap_or_else(|_| format!("{VERIF_ROOT}/replays"));
        let _ = std::fs::create_dir_all(&dir);
        let mut seen: BTreeSet<&str> = BTreeSet::new();
        for v in fresh {
            if !seen.insert(v.key.as_str()) {
                continue;
            }
            let body = json!({
                "property_id": ctx.id,
                "key": v.key,
                "what": v.what,
                "case": v.case,
                "tier": ctx.tier.as_str(),
                "seed": ctx.seed,
            });
            let txt = serde_json::to_string_pretty(&body).unwrap();
            let h = crate::fnv64(txt.as_bytes());
            let path = if let Some(p) = &ctx.replay {
                p.display().to_string()
            } else {
                let p = format!("{dir}/{}-{:016x}.json", ctx.id, h);
                let _ = std::fs::write(&p, &txt);
                p
            };
            println!("DETAIL property={} key={} {}", ctx.id, v.key, v.what);
            println!("VIOLATION property={} replay={}", ctx.id, path);
        }
        std::process::exit(1);
    }

    if ctx.replay.is_none() {
        if !missing.is_empty() {
            machinery_error(
                &ctx.id,
                &format!(
                    "vacuous run: outcome classes never observed: {missing:?} (seen {:?})",
                    rep.classes.keys().collect::<Vec<_>>()
                ),
            );
        }
        if rep.evaluations == 0 {
            machinery_error(&ctx.id, "vacuous run: nothing evaluated");
        }
    } else {
        println!("REPLAY property={} no violation reproduced", ctx.id);
    }
    std::process::exit(0)
}

// ---------------------------------------------------------------------------------------
// panic capture

thread_local! {
    static LAST_PANIC: std::cell::RefCell<Option<String>> = const { std::cell::RefCell::new(None) };
    static QUIET: std::cell::Cell<u32> = const { std::cell::Cell::new(0) };
}

/// Installs a panic hook that stays silent (and records the message) while the current
/// thread is inside [`guard`]; outside it behaves like the default hook.
pub fn install_quiet_panic_hook() {
    use std::sync::Once;
    static ONCE: Once = Once::new();
    ONCE.call_once(|| {
        let default = std::panic::take_hook();
        std::panic::set_hook(Box::new(move |info| {
            let quiet = QUIET.with(|q| q.get()) > 0;
            let msg = if let Some(s) = info.payload().downcast_ref::<&str>() {
                s.to_string()
            } else if let Some(s) = info.payload().downcast_ref::<String>() {
                s.clone()
            } else {
                "<non-string panic>".to_string()
            };
            let loc = info
                .location()
                .map(|l| format!("{}:{}", l.file(), l.line()))
                .unwrap_or_default();
            LAST_PANIC.with(|p| *p.borrow_mut() = Some(format!("{msg} @ {loc}")));
            if !quiet {
                default(info);
            }
        }));
    });
}

/// Runs `f`, turning a panic into `Err(message @ file:line)`.
pub fn guard<T>(f: impl FnOnce() -> T) -> Result<T, String> {
    install_quiet_panic_hook();
    QUIET.with(|q| q.set(q.get() + 1));
    let r = std::panic::catch_unwind(std::panic::AssertUnwindSafe(f));
    QUIET.with(|q| q.set(q.get() - 1));
    match r {
        Ok(v) => Ok(v),
        Err(_) => Err(LAST_PANIC
            .with(|p| p.borrow_mut().take())
            .unwrap_or_else(|| "<panic>".into())),
    }
}

/// Marks the current thread quiet for panics for its whole life (worker threads of a
/// runtime whose panics are observed through join handles).
pub fn quiet_panics_on_this_thread() {
    install_quiet_panic_hook();
    QUIET.with(|q| q.set(q.get() + 1));
}

pub fn take_last_panic() -> Option<String> {
    LAST_PANIC.with(|p| p.borrow_mut().take())
}
