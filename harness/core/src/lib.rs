//! lv-core: the engines, report/evidence writer and replay plumbing shared by every
//! check of the lumina verification harness.  See /verif/DESIGN.md §2.
//!
//! Exit codes of every check binary: 0 = property held on everything explored,
//! 1 = violation (a `VIOLATION property=<id> replay=<path>` line is printed),
//! 2 = machinery error (vacuous run, non-deterministic replay, engine failure).

pub mod engine;
pub mod oracle;
pub mod report;

pub use engine::*;
pub use report::*;

/// FNV-1a 64-bit: stable across runs and platforms (std's SipHash keys are not
/// guaranteed stable), used for case keys and state keys.
pub fn fnv64(bytes: &[u8]) -> u64 {
    let mut h: u64 = 0xcbf29ce484222325;
    for b in bytes {
        h ^= *b as u64;
        h = h.wrapping_mul(0x100000001b3);
    }
    h
}

/// Tiny deterministic generator for *payload bytes only* (never for choosing cases).
#[derive(Clone, Debug)]
pub struct Fill(pub u64);

impl Fill {
    pub fn new(seed: u64, stream: u64) -> Fill {
        Fill(seed ^ stream.wrapping_mul(0x9E3779B97F4A7C15) ^ 0xD1B54A32D192ED03)
    }
    pub fn next_u64(&mut self) -> u64 {
        // splitmix64
        self.0 = self.0.wrapping_add(0x9E3779B97F4A7C15);
        let mut z = self.0;
        z = (z ^ (z >> 30)).wrapping_mul(0xBF58476D1CE4E5B9);
        z = (z ^ (z >> 27)).wrapping_mul(0x94D049BB133111EB);
        z ^ (z >> 31)
    }
    pub fn bytes(&mut self, n: usize) -> Vec<u8> {
        let mut v = Vec::with_capacity(n + 8);
        while v.len() < n {
            v.extend_from_slice(&self.next_u64().to_le_bytes());
        }
        v.truncate(n);
        v
    }
    pub fn array<const N: usize>(&mut self) -> [u8; N] {
        let mut a = [0u8; N];
        a.copy_from_slice(&self.bytes(N));
        a
    }
}
