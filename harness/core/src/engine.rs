//! The generic engines (DESIGN.md §2.3):
//!
//! * E1 `par_cases`   — bounded-exhaustive input enumeration (depth-1 search), parallel.
//! * E2 `bfs`         — explicit-state breadth-first search over operation histories with
//!                      canonical-observation de-duplication and parent pointers.
//! * E3 `explore_deviations` — stateless, deviation-bounded DFS over environment choices
//!                      (the "iterative context bounding" shape: choice 0 is the default).
//!
//! E4 (crash enumeration) and E5 (shuttle interleavings) live with their checks because
//! they depend on redb / shuttle.

use crate::report::{Report, Violation};
use rayon::prelude::*;
use serde_json::{Value, json};
use std::collections::HashMap;
use std::sync::Mutex;
use std::sync::atomic::{AtomicBool, AtomicU64, Ordering};
use std::time::{Duration, Instant};

// ---------------------------------------------------------------------------------------
// E1

/// Evaluates `f` on every case, in parallel, each worker with its own `Report`.
pub fn par_cases<C, I, F>(cases: I, f: F) -> Report
where
    C: Send,
    I: IntoParallelIterator<Item = C>,
    F: Fn(C, &mut Report) + Sync + Send,
{
    cases
        .into_par_iter()
        .fold(Report::new, |mut r, c| {
            f(c, &mut r);
            r
        })
        .reduce(Report::new, Report::merge)
}

/// Sequential variant (ordering simplest-first is preserved for the first counterexample).
pub fn seq_cases<C, I, F>(cases: I, mut f: F) -> Report
where
    I: IntoIterator<Item = C>,
    F: FnMut(C, &mut Report),
{
    let mut r = Report::new();
    for c in cases {
        f(c, &mut r);
    }
    r
}

// ---------------------------------------------------------------------------------------
// E2

/// Result of applying one operation to a state.
pub struct Step<S> {
    /// The successor state (also when the operation was rejected: then it must be the
    /// unchanged state — that is what C20 checks).
    pub next: S,
    /// Canonical observation key of `next` (de-duplication key).
    pub key: u64,
    /// Outcome class of this transition, for the histogram ("ok", "err:NotFound", ...).
    pub class: String,
    /// Violations detected on this transition / in the reached state.
    pub violations: Vec<(String, String)>,
}

pub struct BfsConfig {
    pub max_depth: usize,
    /// Stop expanding when this many states have been stored (reported as a cap).
    pub max_states: usize,
    pub wall_cap: Duration,
    /// De-duplicate on `key` (true) or treat every history as its own state (false).
    pub dedup: bool,
}

struct Node<S, O> {
    state: S,
    parent: Option<(usize, O)>,
    depth: usize,
}

/// Breadth-first search.  `ops(&S)` lists the enabled operations (the full alphabet with
/// every argument); `step(&S, &O)` applies one to a *copy / rebuild* of the state on the
/// real object.  Each level is expanded in parallel.
pub fn bfs<S, O, FO, FS>(
    init: S,
    init_key: u64,
    cfg: &BfsConfig,
    ops: FO,
    step: FS,
    rep: &mut Report,
) where
    S: Send + Sync,
    O: Clone + Send + Sync + serde::Serialize,
    FO: Fn(&S) -> Vec<O> + Sync + Send,
    FS: Fn(&S, &O) -> Step<S> + Sync + Send,
{
    let t0 = Instant::now();
    let mut nodes: Vec<Node<S, O>> = vec![Node {
        state: init,
        parent: None,
        depth: 0,
    }];
    let mut seen: HashMap<u64, usize> = HashMap::new();
    seen.insert(init_key, 0);
    let mut frontier: Vec<usize> = vec![0];
    let mut transitions: u64 = 0;
    let mut depth = 0usize;
    let history_of = |nodes: &Vec<Node<S, O>>, mut idx: usize, last: Option<&O>| -> Value {
        let mut h: Vec<Value> = vec![];
        if let Some(o) = last {
            h.push(serde_json::to_value(o).unwrap());
        }
        while let Some((p, o)) = &nodes[idx].parent {
            h.push(serde_json::to_value(o).unwrap());
            idx = *p;
        }
        h.reverse();
        Value::Array(h)
    };

    while !frontier.is_empty() && depth < cfg.max_depth {
        if t0.elapsed() > cfg.wall_cap {
            rep.cap_hit(&format!("bfs wall cap at depth {depth}"));
            break;
        }
        // expand the level in parallel, chunk by chunk (results of a chunk are
        // de-duplicated before the next chunk is expanded, so memory stays at
        // chunk x alphabet instead of frontier x alphabet)
        let mut next_frontier = vec![];
        let chunk = 1024usize;
        let mut pos = 0usize;
        while pos < frontier.len() {
            if t0.elapsed() > cfg.wall_cap {
                rep.cap_hit(&format!("bfs wall cap inside depth {depth}"));
                break;
            }
            let end = (pos + chunk).min(frontier.len());
            let results: Vec<(usize, O, Step<S>)> = frontier[pos..end]
                .par_iter()
                .flat_map_iter(|&idx| {
                    let s = &nodes[idx].state;
                    let step = &step;
                    ops(s)
                        .into_iter()
                        .map(move |o| {
                            let st = step(s, &o);
                            (idx, o, st)
                        })
                        .collect::<Vec<_>>()
                })
                .collect();
            pos = end;
            for (idx, o, st) in results {
                transitions += 1;
                *rep.classes.entry(st.class.clone()).or_insert(0) += 1;
                for (k, what) in st.violations {
                    let hist = history_of(&nodes, idx, Some(&o));
                    rep.violation(&k, what, json!({ "history": hist }));
                }
                let is_new = !cfg.dedup || !seen.contains_key(&st.key);
                if is_new {
                    if nodes.len() >= cfg.max_states {
                        rep.cap_hit(&format!("bfs state cap {} at depth {}", cfg.max_states, depth + 1));
                        continue;
                    }
                    let n = nodes.len();
                    if rep.wants_sample() && (n % 97 == 1 || n < 3) {
                        let hist = history_of(&nodes, idx, Some(&o));
                        rep.sample(|| json!({ "history": hist, "result": st.class }));
                    }
                    seen.insert(st.key, n);
                    nodes.push(Node {
                        state: st.next,
                        parent: Some((idx, o)),
                        depth: depth + 1,
                    });
                    next_frontier.push(n);
                }
            }
        }
        frontier = next_frontier;
        depth += 1;
    }
    rep.states += nodes.len() as u64;
    rep.transitions += transitions;
    rep.traces += transitions;
    rep.evaluations += transitions;
    rep.max_depth = rep.max_depth.max(nodes.iter().map(|n| n.depth).max().unwrap_or(0) as u64);
    rep.extra("bfs_unexpanded_frontier", json!(frontier.len()));
}

// ---------------------------------------------------------------------------------------
// E3

/// The oracle of environment choices handed to a system driver.  Position `i` of the
/// execution asks "which of `n` options?"; option 0 is always the default environment
/// answer.  While inside the recorded prefix the recorded choice is returned (an
/// out-of-range recorded choice is a divergence: hard machinery error), afterwards 0.
pub struct Chooser {
    prefix: Vec<u32>,
    pub taken: Vec<u32>,
    pub arity: Vec<u32>,
    pub labels: Vec<String>,
    pub diverged: Option<String>,
    keep_labels: bool,
}

impl Chooser {
    pub fn new(prefix: &[u32], keep_labels: bool) -> Chooser {
        Chooser {
            prefix: prefix.to_vec(),
            taken: vec![],
            arity: vec![],
            labels: vec![],
            diverged: None,
            keep_labels,
        }
    }

    /// `n` must be ≥ 1.  `label` describes the options (for replay files / samples).
    pub fn choose(&mut self, n: usize, label: impl FnOnce() -> String) -> usize {
        assert!(n >= 1);
        let i = self.taken.len();
        let c = if i < self.prefix.len() {
            let c = self.prefix[i];
            if c as usize >= n {
                self.diverged = Some(format!(
                    "replay divergence at point {i}: recorded choice {c} but only {n} options"
                ));
                0
            } else {
                c
            }
        } else {
            0
        };
        self.taken.push(c);
        self.arity.push(n as u32);
        if self.keep_labels {
            self.labels.push(label());
        }
        c as usize
    }

    pub fn deviations(&self) -> usize {
        self.taken.iter().filter(|c| **c != 0).count()
    }

    /// True while the chooser is still replaying its prefix.
    pub fn in_prefix(&self) -> bool {
        self.taken.len() < self.prefix.len()
    }
}

/// One complete execution of the system under a choice sequence.
pub struct Exec {
    pub taken: Vec<u32>,
    pub arity: Vec<u32>,
    pub labels: Vec<String>,
    /// outcome class ("completed", "horizon", ...)
    pub class: String,
    /// canonical key of the property-level observation trace (for replay-twice and for
    /// counting distinct outcomes)
    pub obs_key: u64,
    pub violations: Vec<(String, String)>,
    pub diverged: Option<String>,
    /// number of oracle evaluations (events) in this execution
    pub events: u64,
}

impl Exec {
    pub fn from_chooser(ch: Chooser, class: impl Into<String>, obs_key: u64, violations: Vec<(String, String)>, events: u64) -> Exec {
        Exec {
            taken: ch.taken,
            arity: ch.arity,
            labels: ch.labels,
            class: class.into(),
            obs_key,
            violations,
            diverged: ch.diverged,
            events,
        }
    }
}

pub struct DevConfig {
    /// maximum number of non-default choices per execution
    pub bound: usize,
    pub wall_cap: Duration,
    pub max_execs: u64,
    /// only positions < this may deviate (0 = unlimited)
    pub max_deviation_pos: usize,
}

/// Enumerates every choice sequence with at most `bound` non-default choices, each run to
/// completion by `run(prefix, keep_labels)`; parallel over sub-trees.
/// Every failing execution is replayed twice and the observation keys compared before it is
/// reported; a mismatch is returned as machinery error text.
pub fn explore_deviations<F>(cfg: &DevConfig, run: F, rep: &mut Report) -> Result<(), String>
where
    F: Fn(&[u32], bool) -> Exec + Sync,
{
    let t0 = Instant::now();
    let shared = Mutex::new(Report::new());
    let stop = AtomicBool::new(false);
    let execs = AtomicU64::new(0);
    let machinery: Mutex<Option<String>> = Mutex::new(None);
    let by_dev: Vec<AtomicU64> = (0..=cfg.bound).map(|_| AtomicU64::new(0)).collect();
    let obs_keys: Mutex<std::collections::HashSet<u64>> = Mutex::new(Default::default());

    fn rec<F: Fn(&[u32], bool) -> Exec + Sync>(
        prefix: Vec<u32>,
        cfg: &DevConfig,
        run: &F,
        shared: &Mutex<Report>,
        stop: &AtomicBool,
        execs: &AtomicU64,
        machinery: &Mutex<Option<String>>,
        by_dev: &[AtomicU64],
        obs_keys: &Mutex<std::collections::HashSet<u64>>,
        t0: Instant,
    ) {
        if stop.load(Ordering::Relaxed) {
            return;
        }
        if t0.elapsed() > cfg.wall_cap || execs.load(Ordering::Relaxed) >= cfg.max_execs {
            stop.store(true, Ordering::Relaxed);
            shared.lock().unwrap().cap_hit("envdfs wall/exec cap");
            return;
        }
        let x = run(&prefix, false);
        execs.fetch_add(1, Ordering::Relaxed);
        if let Some(d) = &x.diverged {
            *machinery.lock().unwrap() = Some(format!("{d} (prefix {prefix:?})"));
            stop.store(true, Ordering::Relaxed);
            return;
        }
        let devs = x.taken.iter().filter(|c| **c != 0).count();
        by_dev[devs.min(by_dev.len() - 1)].fetch_add(1, Ordering::Relaxed);
        obs_keys.lock().unwrap().insert(x.obs_key);
        {
            let mut r = shared.lock().unwrap();
            r.evaluations += 1;
            r.traces += 1;
            r.transitions += x.events;
            r.max_depth = r.max_depth.max(x.taken.len() as u64);
            *r.classes.entry(x.class.clone()).or_insert(0) += 1;
            if r.wants_sample() && (devs > 0 || r.samples.is_empty()) {
                let y = run(&x.taken, true);
                r.sample(|| json!({"choices": y.taken, "labels": y.labels, "class": y.class}));
            }
        }
        if !x.violations.is_empty() {
            // replay twice, compare
            let a = run(&x.taken, true);
            let b = run(&x.taken, true);
            if a.obs_key != b.obs_key || a.obs_key != x.obs_key || a.violations.is_empty() != b.violations.is_empty() {
                *machinery.lock().unwrap() = Some(format!(
                    "non-deterministic replay of failing execution {:?}: keys {:x} {:x} {:x}",
                    x.taken, x.obs_key, a.obs_key, b.obs_key
                ));
                stop.store(true, Ordering::Relaxed);
                return;
            }
            let mut r = shared.lock().unwrap();
            for (k, what) in &a.violations {
                r.violation(k, what.clone(), json!({"choices": a.taken, "labels": a.labels}));
            }
        }
        // children: deviate at every later point
        let base = prefix.len();
        if x.taken.len() < base {
            *machinery.lock().unwrap() = Some(format!(
                "replay divergence: execution ended after {} choice points, before its prefix {:?} was consumed",
                x.taken.len(),
                prefix
            ));
            stop.store(true, Ordering::Relaxed);
            return;
        }
        let mut children: Vec<Vec<u32>> = vec![];
        let mut cost = x.taken[..base].iter().filter(|c| **c != 0).count();
        for i in base..x.taken.len() {
            // x.taken[i] == 0 for i >= base
            if cost + 1 <= cfg.bound && (cfg.max_deviation_pos == 0 || i < cfg.max_deviation_pos) {
                for alt in 1..x.arity[i] {
                    let mut p = x.taken[..i].to_vec();
                    p.push(alt);
                    children.push(p);
                }
            }
            if x.taken[i] != 0 {
                cost += 1;
            }
        }
        children.into_par_iter().for_each(|p| {
            rec(p, cfg, run, shared, stop, execs, machinery, by_dev, obs_keys, t0);
        });
    }

    rec(vec![], cfg, &run, &shared, &stop, &execs, &machinery, &by_dev, &obs_keys, t0);

    if let Some(m) = machinery.into_inner().unwrap() {
        return Err(m);
    }
    let mut r = shared.into_inner().unwrap();
    let per: Vec<u64> = by_dev.iter().map(|a| a.load(Ordering::Relaxed)).collect();
    r.extra("executions_by_deviations", json!(per));
    r.extra("deviation_bound", json!(cfg.bound));
    let ok = obs_keys.into_inner().unwrap();
    r.extra("distinct_observation_traces", json!(ok.len()));
    r.states += ok.len() as u64;
    rep.merge_in(r);
    Ok(())
}

/// All orderings helper: every permutation of 0..n (n small).
pub fn permutations(n: usize) -> Vec<Vec<usize>> {
    fn go(cur: &mut Vec<usize>, used: &mut Vec<bool>, n: usize, out: &mut Vec<Vec<usize>>) {
        if cur.len() == n {
            out.push(cur.clone());
            return;
        }
        for i in 0..n {
            if !used[i] {
                used[i] = true;
                cur.push(i);
                go(cur, used, n, out);
                cur.pop();
                used[i] = false;
            }
        }
    }
    let mut out = vec![];
    go(&mut vec![], &mut vec![false; n], n, &mut out);
    out
}

/// Every k-subset of 0..n as a bitmask.
pub fn k_subsets(n: usize, k: usize) -> Vec<u64> {
    let mut out = vec![];
    if k > n {
        return out;
    }
    for m in 0u64..(1u64 << n) {
        if m.count_ones() as usize == k {
            out.push(m);
        }
    }
    out
}

/// Convenience for violation vectors.
pub fn viol(key: &str, what: impl Into<String>) -> (String, String) {
    (key.to_string(), what.into())
}

#[allow(dead_code)]
fn _unused(_: Violation) {}
