//! Independent re-implementations used as oracles.  They share no code with /repo:
//! RFC-6962 merkle trees (tendermint flavour) and the Celestia namespaced merkle tree
//! hashing (29-byte namespaces, sha-256, `ignore_max_ns`).

use sha2::{Digest, Sha256};

pub type H32 = [u8; 32];

pub fn sha256(parts: &[&[u8]]) -> H32 {
    let mut h = Sha256::new();
    for p in parts {
        h.update(p);
    }
    h.finalize().into()
}

// ------------------------------------------------------------------ RFC 6962

pub fn leaf_hash(leaf: &[u8]) -> H32 {
    sha256(&[&[0u8], leaf])
}
pub fn inner_hash(l: &H32, r: &H32) -> H32 {
    sha256(&[&[1u8], l, r])
}
pub fn empty_hash() -> H32 {
    sha256(&[])
}

/// Largest power of two strictly less than n (n ≥ 2).
pub fn split_point(n: usize) -> usize {
    assert!(n >= 2);
    let mut k = 1;
    while k <= (n - 1) / 2 {
        k *= 2;
    }
    k
}

/// Root over already-hashed leaves? No: over raw leaves (each is leaf-hashed).
pub fn merkle_root(leaves: &[Vec<u8>]) -> H32 {
    match leaves.len() {
        0 => empty_hash(),
        1 => leaf_hash(&leaves[0]),
        n => {
            let k = split_point(n);
            inner_hash(&merkle_root(&leaves[..k]), &merkle_root(&leaves[k..]))
        }
    }
}

/// Audit path (aunts, leaf-to-root order) for `index`.
pub fn merkle_path(leaves: &[Vec<u8>], index: usize) -> Vec<H32> {
    fn go(leaves: &[Vec<u8>], index: usize, out: &mut Vec<H32>) {
        let n = leaves.len();
        if n <= 1 {
            return;
        }
        let k = split_point(n);
        if index < k {
            go(&leaves[..k], index, out);
            out.push(merkle_root(&leaves[k..]));
        } else {
            go(&leaves[k..], index - k, out);
            out.push(merkle_root(&leaves[..k]));
        }
    }
    let mut out = vec![];
    go(leaves, index, &mut out);
    out
}

/// Recomputes the root from a leaf, its claimed position and an aunt list; `None` when the
/// aunt count does not fit (index, total) or index ≥ total.
pub fn root_from_path(leaf: &[u8], index: usize, total: usize, aunts: &[H32]) -> Option<H32> {
    fn go(lh: H32, index: usize, total: usize, aunts: &[H32]) -> Option<H32> {
        if total == 0 || index >= total {
            return None;
        }
        if total == 1 {
            return if aunts.is_empty() { Some(lh) } else { None };
        }
        let (last, rest) = aunts.split_last()?;
        let k = split_point(total);
        if index < k {
            let l = go(lh, index, k, rest)?;
            Some(inner_hash(&l, last))
        } else {
            let r = go(lh, index - k, total - k, rest)?;
            Some(inner_hash(last, &r))
        }
    }
    go(leaf_hash(leaf), index, total, aunts)
}

// ------------------------------------------------------------------ NMT (Celestia)

pub const NS: usize = 29;
pub const PARITY_NS: [u8; NS] = [0xff; NS];

/// min_ns || max_ns || sha256 digest  (90 bytes)
#[derive(Clone, Copy, PartialEq, Eq, Debug, Hash)]
pub struct NmtNode {
    pub min: [u8; NS],
    pub max: [u8; NS],
    pub hash: H32,
}

impl NmtNode {
    pub fn to_bytes(&self) -> Vec<u8> {
        let mut v = Vec::with_capacity(90);
        v.extend_from_slice(&self.min);
        v.extend_from_slice(&self.max);
        v.extend_from_slice(&self.hash);
        v
    }
}

/// Leaf of the tree: `ns` is the namespace the leaf is pushed under, `data` the share bytes.
pub fn nmt_leaf(ns: &[u8; NS], data: &[u8]) -> NmtNode {
    NmtNode {
        min: *ns,
        max: *ns,
        hash: sha256(&[&[0u8], ns, data]),
    }
}

pub fn nmt_inner(l: &NmtNode, r: &NmtNode) -> NmtNode {
    let min = l.min.min(r.min);
    // ignore_max_ns = true (Celestia)
    let max = if l.min == PARITY_NS {
        PARITY_NS
    } else if r.min == PARITY_NS {
        l.max
    } else {
        l.max.max(r.max)
    };
    NmtNode {
        min,
        max,
        hash: sha256(&[&[1u8], &l.to_bytes(), &r.to_bytes()]),
    }
}

/// Root of an NMT over leaves (same RFC-6962 split rule).
pub fn nmt_root(leaves: &[NmtNode]) -> NmtNode {
    match leaves.len() {
        0 => NmtNode {
            min: [0; NS],
            max: [0; NS],
            hash: empty_hash(),
        },
        1 => leaves[0],
        n => {
            let k = split_point(n);
            nmt_inner(&nmt_root(&leaves[..k]), &nmt_root(&leaves[k..]))
        }
    }
}

/// Root of one EDS axis of `width` shares: leaves in the first half (of an axis that lies
/// in the original quadrant's row/column range) are pushed under their own namespace,
/// everything else under the parity namespace.  `in_ods(i)` tells whether cell i of this
/// axis belongs to the original data quadrant.
pub fn eds_axis_root(shares: &[Vec<u8>], in_ods: impl Fn(usize) -> bool) -> NmtNode {
    let leaves: Vec<NmtNode> = shares
        .iter()
        .enumerate()
        .map(|(i, s)| {
            let ns: [u8; NS] = if in_ods(i) {
                s[..NS].try_into().unwrap()
            } else {
                PARITY_NS
            };
            nmt_leaf(&ns, s)
        })
        .collect();
    nmt_root(&leaves)
}

#[cfg(test)]
mod tests {
    use super::*;
    #[test]
    fn path_roundtrip() {
        for n in 1..20usize {
            let leaves: Vec<Vec<u8>> = (0..n).map(|i| vec![i as u8; 3]).collect();
            let root = merkle_root(&leaves);
            for i in 0..n {
                let p = merkle_path(&leaves, i);
                assert_eq!(root_from_path(&leaves[i], i, n, &p), Some(root));
                assert_eq!(root_from_path(&leaves[i], n, n, &p), None);
            }
        }
    }
}
