//! Shared by C11 / C12: an independent description of Celestia sparse-share splitting and of
//! the ADR-013 share commitment, written from the specs (celestia-app `specs/shares.md`,
//! `data_square_layout.md`, ADR-013), sharing no code with /repo.
#![allow(dead_code)]

use celestia_types::consts::appconsts::AppVersion;
use celestia_types::nmt::Namespace;
use celestia_types::state::AccAddress;
use celestia_types::{Blob, Share};
use lv_core::oracle::{self, H32, NmtNode};
use lv_core::Fill;

pub const SHARE: usize = 512;
pub const NS: usize = 29;
pub const SIGNER: usize = 20;
/// share = namespace(29) | info byte(1) | [sequence length(4) | [signer(20)]] | data
pub const FIRST_CAP_V0: usize = SHARE - NS - 1 - 4; // 478
pub const FIRST_CAP_V1: usize = SHARE - NS - 1 - 4 - SIGNER; // 458
pub const CONT_CAP: usize = SHARE - NS - 1; // 482

/// SubtreeRootThreshold of celestia-app: 64 in every released app version (v1..v7).
pub fn spec_subtree_root_threshold(_app: u64) -> u64 {
    64
}

// ------------------------------------------------------------------------ alphabets

/// Namespace alphabet (all version 0, outside both reserved ranges).
pub const NS_KINDS: [&str; 3] = ["min-user", "max-user", "seeded"];

pub fn ns_bytes(kind: &str, seed: u64) -> [u8; NS] {
    let mut b = [0u8; NS];
    match kind {
        // smallest namespace above MAX_PRIMARY_RESERVED (= 0x00..00ff)
        "min-user" => {
            b[NS - 2] = 1;
        }
        // largest version-0 namespace (every version-255 namespace is secondary reserved)
        "max-user" => {
            for x in &mut b[NS - 10..] {
                *x = 0xff;
            }
        }
        "seeded" => {
            let id: [u8; 10] = Fill::new(seed, 0x6e73).array();
            b[NS - 10..].copy_from_slice(&id);
            b[NS - 10] |= 0x40; // never inside the primary reserved range
        }
        // a second fixed user namespace, used where two distinct namespaces are needed
        "other" => {
            b[NS - 3] = 7;
            b[NS - 1] = 9;
        }
        k => panic!("unknown namespace kind {k}"),
    }
    b
}

pub fn namespace(bytes: &[u8; NS]) -> Namespace {
    Namespace::from_raw(bytes).expect("harness namespace must be valid")
}

pub fn signer_bytes(seed: u64) -> [u8; SIGNER] {
    Fill::new(seed, 0x5169).array()
}

pub fn acc(b: &[u8; SIGNER]) -> AccAddress {
    AccAddress::from(*b)
}

pub const PAYLOAD_KINDS: [&str; 3] = ["seeded", "zeros", "ones"];

/// Payload bytes.  "zeros" is indistinguishable from share padding, "ones" from nothing.
pub fn payload(kind: &str, len: usize, seed: u64, stream: u64) -> Vec<u8> {
    match kind {
        "seeded" => {
            let mut v = Fill::new(seed, stream).bytes(len);
            // make sure neither end looks like padding
            if let Some(x) = v.first_mut() {
                *x |= 1;
            }
            if let Some(x) = v.last_mut() {
                *x |= 1;
            }
            v
        }
        "zeros" => vec![0u8; len],
        "ones" => vec![0xffu8; len],
        k => panic!("unknown payload kind {k}"),
    }
}

pub fn app(v: u64) -> AppVersion {
    match v {
        1 => AppVersion::V1,
        2 => AppVersion::V2,
        3 => AppVersion::V3,
        4 => AppVersion::V4,
        5 => AppVersion::V5,
        6 => AppVersion::V6,
        7 => AppVersion::V7,
        _ => panic!("unknown app version {v}"),
    }
}
pub const LATEST_APP: u64 = 7;

// ------------------------------------------------------------------------ share splitting

/// Number of shares of a sparse sequence, by simulation of the layout (not a closed form).
pub fn oracle_share_count(len: usize, with_signer: bool) -> usize {
    assert!(len > 0);
    let mut left = len;
    let mut n = 0;
    let mut cap = if with_signer { FIRST_CAP_V1 } else { FIRST_CAP_V0 };
    while left > 0 {
        left -= left.min(cap);
        n += 1;
        cap = CONT_CAP;
    }
    n
}

/// Smallest / largest data length that needs exactly `count` shares.
pub fn len_range_for_count(count: usize, with_signer: bool) -> (usize, usize) {
    let first = if with_signer { FIRST_CAP_V1 } else { FIRST_CAP_V0 };
    let hi = first + (count - 1) * CONT_CAP;
    let lo = if count == 1 { 1 } else { hi - CONT_CAP + 1 };
    (lo, hi)
}

/// The shares of a blob, laid out from the share format specification.
pub fn oracle_shares(ns: &[u8; NS], share_version: u8, signer: Option<&[u8; SIGNER]>, data: &[u8]) -> Vec<[u8; SHARE]> {
    let mut out = vec![];
    let mut rest = data;
    let mut first = true;
    while !rest.is_empty() {
        let mut s = [0u8; SHARE];
        s[..NS].copy_from_slice(ns);
        s[NS] = (share_version << 1) | (first as u8);
        let mut at = NS + 1;
        if first {
            s[at..at + 4].copy_from_slice(&(data.len() as u32).to_be_bytes());
            at += 4;
            if share_version == 1 {
                s[at..at + SIGNER].copy_from_slice(signer.expect("v1 needs signer"));
                at += SIGNER;
            }
        }
        let take = rest.len().min(SHARE - at);
        s[at..at + take].copy_from_slice(&rest[..take]);
        rest = &rest[take..];
        out.push(s);
        first = false;
    }
    out
}

// ------------------------------------------------------------------------ ADR-013

pub fn ceil_div(a: u64, b: u64) -> u64 {
    let q = a / b;
    if q * b == a { q } else { q + 1 }
}

/// Smallest power of two ≥ x (and 1 for x = 0), by doubling.
pub fn pow2_at_least(x: u64) -> u64 {
    let mut p = 1u64;
    while p < x {
        p *= 2;
    }
    p
}

/// Largest power of two ≤ x (x ≥ 1).
pub fn pow2_at_most(x: u64) -> u64 {
    assert!(x >= 1);
    let mut p = 1u64;
    while p * 2 <= x {
        p *= 2;
    }
    p
}

/// Smallest k with k*k ≥ n, by integer search (no floating point).
pub fn ceil_sqrt(n: u64) -> u64 {
    let mut k = 0u64;
    while k * k < n {
        k += 1;
    }
    k
}

/// Width of the smallest power-of-two square that holds `share_count` shares.
pub fn min_square_size(share_count: u64) -> u64 {
    pow2_at_least(ceil_sqrt(share_count))
}

/// ADR-013: the subtree width is the smallest power of two w with
/// ceil(share_count / w) ≤ threshold … expressed in the ADR as
/// round_up_pow2(ceil(share_count / threshold)), capped by the minimum square size.
pub fn subtree_width(share_count: u64, threshold: u64) -> u64 {
    pow2_at_least(ceil_div(share_count, threshold)).min(min_square_size(share_count))
}

/// Merkle mountain range over `total` leaves with trees of at most `max_tree` leaves:
/// as many full `max_tree` trees as fit, then the binary decomposition of the remainder,
/// largest first.
pub fn mountain_range(total: u64, max_tree: u64) -> Vec<u64> {
    let mut out = vec![];
    let mut left = total;
    while left > 0 {
        let t = if left >= max_tree { max_tree } else { pow2_at_most(left) };
        out.push(t);
        left -= t;
    }
    out
}

pub struct OracleCommitment {
    pub hash: H32,
    pub width: u64,
    pub trees: Vec<u64>,
}

/// Share commitment: RFC-6962 root over the serialized NMT roots (ignore-max-namespace
/// hasher, every leaf pushed under the blob namespace) of the mountain-range chunks.
pub fn oracle_commitment(ns: &[u8; NS], shares: &[[u8; SHARE]], threshold: u64) -> OracleCommitment {
    let n = shares.len() as u64;
    let width = subtree_width(n, threshold);
    let trees = mountain_range(n, width);
    let mut roots: Vec<Vec<u8>> = Vec::with_capacity(trees.len());
    let mut at = 0usize;
    for t in &trees {
        let leaves: Vec<NmtNode> = shares[at..at + *t as usize].iter().map(|s| oracle::nmt_leaf(ns, s)).collect();
        at += *t as usize;
        roots.push(oracle::nmt_root(&leaves).to_bytes());
    }
    assert_eq!(at, shares.len());
    OracleCommitment {
        hash: oracle::merkle_root(&roots),
        width,
        trees,
    }
}

pub fn oracle_blob_commitment(ns: &[u8; NS], sv: u8, signer: Option<&[u8; SIGNER]>, data: &[u8], app: u64) -> OracleCommitment {
    let shares = oracle_shares(ns, sv, signer, data);
    oracle_commitment(ns, &shares, spec_subtree_root_threshold(app))
}

/// Is (share version, signer presence, app version) a combination the format allows?
/// v0 ⇔ no signer, v1 ⇔ signer and app ≥ 3; nothing else exists.
pub fn format_allowed(sv: u8, has_signer: bool, app: u64) -> bool {
    match sv {
        0 => !has_signer,
        1 => has_signer && app >= 3,
        _ => false,
    }
}

// ------------------------------------------------------------------------ real-code helpers

pub fn shares_to_raw(shares: &[Share]) -> Vec<[u8; SHARE]> {
    shares.iter().map(|s| *s.data()).collect()
}

pub fn err_class<T>(r: &Result<T, celestia_types::Error>) -> String {
    match r {
        Ok(_) => "ok".into(),
        Err(e) => {
            let d = format!("{e:?}");
            let name: String = d.chars().take_while(|c| c.is_alphanumeric()).collect();
            format!("err:{name}")
        }
    }
}

pub fn blob_brief(b: &Blob) -> serde_json::Value {
    serde_json::json!({
        "ns": hex::encode(b.namespace.as_bytes()),
        "len": b.data.len(),
        "share_version": b.share_version,
        "signer": b.signer.as_ref().map(|s| hex::encode(celestia_types::state::AddressTrait::as_bytes(s))),
        "commitment": hex::encode(b.commitment.hash()),
    })
}
