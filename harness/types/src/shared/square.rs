//! Deterministic data-square builder with a brute-force view, used by C07 and C08.
//!
//! Nothing in here calls lumina code: the original square is laid out by hand, extended with
//! `leopard_codec` in an order *different* from lumina's (`Q1->Q2` by rows, `Q1->Q3` by
//! columns, `Q2->Q4` by columns), and every row/column tree is hashed with
//! `lv_core::oracle` (independent NMT implementation).  Single-leaf inclusion proofs are
//! cut out of these trees (in-order sibling list, as the NMT specification prescribes).
#![allow(dead_code)]

use lv_core::Fill;
use lv_core::oracle::{NS, NmtNode, PARITY_NS, nmt_inner, nmt_leaf};

pub const SHARE: usize = 512;
/// first byte after namespace, info byte and sequence length
pub const PAYLOAD_OFF: usize = NS + 1 + 4;

pub fn ns_v0(id: u8) -> [u8; NS] {
    let mut n = [0u8; NS];
    n[NS - 2] = 0x10;
    n[NS - 1] = id;
    n
}
pub fn ns_pfb() -> [u8; NS] {
    let mut n = [0u8; NS];
    n[NS - 1] = 4;
    n
}
/// A namespace with version byte 1: committed by NMT roots like any other 29 bytes, but
/// refused by lumina's `Namespace::from_raw`.
pub fn ns_unsupported_version() -> [u8; NS] {
    let mut n = [0u8; NS];
    n[0] = 1;
    n[NS - 1] = 7;
    n
}
pub fn ns_tail_padding() -> [u8; NS] {
    let mut n = [0xffu8; NS];
    n[NS - 1] = 0xfe;
    n
}

/// One original-square share: namespace, info byte, payload bytes from the fill stream.
pub fn data_share(ns: &[u8; NS], info: u8, fill: &mut Fill) -> Vec<u8> {
    let mut s = Vec::with_capacity(SHARE);
    s.extend_from_slice(ns);
    s.push(info);
    s.extend_from_slice(&fill.bytes(SHARE - NS - 1));
    s
}

pub fn tail_padding_share() -> Vec<u8> {
    let mut s = Vec::with_capacity(SHARE);
    s.extend_from_slice(&ns_tail_padding());
    s.push(1); // version 0, sequence start
    s.resize(SHARE, 0);
    s
}

/// Namespace layouts of the original square (row-major non-decreasing, hence also sorted
/// along every column).
///  0 "uniform": one user namespace everywhere
///  1 "mixed":   pay-for-blob | user A spanning two fifths (crosses rows) | user B | tail padding
///  2 (C07 only) "unsupported-ns": one namespace with version byte 1 everywhere
pub const LAYOUTS: [&str; 2] = ["uniform", "mixed"];

/// The k*k shares of an original square, row-major.
pub fn build_ods(k: usize, layout: usize, seed: u64) -> Vec<Vec<u8>> {
    let n = k * k;
    let mut fill = Fill::new(seed, (k as u64) << 8 | layout as u64);
    (0..n)
        .map(|p| match layout {
            0 => data_share(&ns_v0(7), 0, &mut fill),
            2 => data_share(&ns_unsupported_version(), 0, &mut fill),
            _ => match p * 5 / n {
                0 => data_share(&ns_pfb(), 0, &mut fill),
                1 | 2 => data_share(&ns_v0(0x21), 0, &mut fill),
                3 => data_share(&ns_v0(0x42), 0, &mut fill),
                _ => tail_padding_share(),
            },
        })
        .collect()
}

/// Reed-Solomon parity of `data` (k shares) -> the k parity shares.
pub fn rs_parity(data: &[Vec<u8>]) -> Vec<Vec<u8>> {
    let k = data.len();
    let mut all: Vec<Vec<u8>> = data.to_vec();
    all.resize(2 * k, vec![0u8; SHARE]);
    leopard_codec::encode(&mut all, k).expect("oracle encode");
    all.split_off(k)
}

/// True iff `axis` (2k shares) is a codeword: its second half is the parity of the first.
pub fn is_codeword(axis: &[Vec<u8>]) -> bool {
    let k = axis.len() / 2;
    rs_parity(&axis[..k]) == axis[k..]
}

/// Extends a k*k original square to the 2k*2k square (row-major cells).
pub fn extend(ods: &[Vec<u8>], k: usize) -> Vec<Vec<u8>> {
    let w = 2 * k;
    let mut cells = vec![vec![0u8; SHARE]; w * w];
    for r in 0..k {
        for c in 0..k {
            cells[r * w + c] = ods[r * k + c].clone();
        }
    }
    // Q2: rows of Q1
    for r in 0..k {
        let data: Vec<Vec<u8>> = (0..k).map(|c| cells[r * w + c].clone()).collect();
        for (j, p) in rs_parity(&data).into_iter().enumerate() {
            cells[r * w + k + j] = p;
        }
    }
    // Q3 and Q4: columns of Q1 and of Q2
    for c in 0..w {
        let data: Vec<Vec<u8>> = (0..k).map(|r| cells[r * w + c].clone()).collect();
        for (j, p) in rs_parity(&data).into_iter().enumerate() {
            cells[(k + j) * w + c] = p;
        }
    }
    cells
}

#[derive(Clone, Copy, PartialEq, Eq, Debug)]
pub enum Ax {
    Row = 0,
    Col = 1,
}

impl Ax {
    pub fn from_i(i: u64) -> Ax {
        if i == 0 { Ax::Row } else { Ax::Col }
    }
    pub fn other(self) -> Ax {
        match self {
            Ax::Row => Ax::Col,
            Ax::Col => Ax::Row,
        }
    }
}

/// Perfect NMT over one axis: `levels[0]` are the leaves, the last level is the root.
pub struct Tree {
    pub levels: Vec<Vec<NmtNode>>,
}

impl Tree {
    pub fn build(leaves: Vec<NmtNode>) -> Tree {
        assert!(leaves.len().is_power_of_two());
        let mut levels = vec![leaves];
        while levels.last().unwrap().len() > 1 {
            let prev = levels.last().unwrap();
            let next: Vec<NmtNode> = prev.chunks(2).map(|p| nmt_inner(&p[0], &p[1])).collect();
            levels.push(next);
        }
        Tree { levels }
    }
    pub fn root(&self) -> NmtNode {
        self.levels.last().unwrap()[0]
    }
    /// Sibling list of leaf `idx` in in-order traversal order: the left siblings from the
    /// top of the tree downwards, then the right siblings from the bottom upwards.
    pub fn proof(&self, idx: usize) -> Vec<NmtNode> {
        let mut left = vec![];
        let mut right = vec![];
        for (l, level) in self.levels.iter().enumerate().take(self.levels.len() - 1) {
            let pos = idx >> l;
            if pos & 1 == 1 {
                left.push(level[pos - 1]);
            } else {
                right.push(level[pos + 1]);
            }
        }
        left.reverse();
        left.extend(right);
        left
    }
}

/// A full square with its brute-force view.
pub struct Sq {
    pub w: usize,
    pub k: usize,
    /// row-major cells
    pub cells: Vec<Vec<u8>>,
    pub row_trees: Vec<Tree>,
    pub col_trees: Vec<Tree>,
}

impl Sq {
    pub fn from_cells(cells: Vec<Vec<u8>>, w: usize) -> Sq {
        assert_eq!(cells.len(), w * w);
        let k = w / 2;
        let leaf = |r: usize, c: usize| {
            let s = &cells[r * w + c];
            nmt_leaf(&cell_ns(s, r, c, k), s)
        };
        let row_trees = (0..w).map(|r| Tree::build((0..w).map(|c| leaf(r, c)).collect())).collect();
        let col_trees = (0..w).map(|c| Tree::build((0..w).map(|r| leaf(r, c)).collect())).collect();
        Sq {
            w,
            k,
            cells,
            row_trees,
            col_trees,
        }
    }
    pub fn cell(&self, r: usize, c: usize) -> &Vec<u8> {
        &self.cells[r * self.w + c]
    }
    /// Namespace under which cell (r, c) is committed.
    pub fn ns(&self, r: usize, c: usize) -> [u8; NS] {
        cell_ns(self.cell(r, c), r, c, self.k)
    }
    /// Coordinates of position `j` of axis (ax, i).
    pub fn coord(ax: Ax, i: usize, j: usize) -> (usize, usize) {
        match ax {
            Ax::Row => (i, j),
            Ax::Col => (j, i),
        }
    }
    pub fn axis(&self, ax: Ax, i: usize) -> Vec<Vec<u8>> {
        (0..self.w)
            .map(|j| {
                let (r, c) = Sq::coord(ax, i, j);
                self.cell(r, c).clone()
            })
            .collect()
    }
    pub fn tree(&self, ax: Ax, i: usize) -> &Tree {
        match ax {
            Ax::Row => &self.row_trees[i],
            Ax::Col => &self.col_trees[i],
        }
    }
    pub fn root(&self, ax: Ax, i: usize) -> NmtNode {
        self.tree(ax, i).root()
    }
    /// Inclusion proof of cell (r, c) in its row tree (`pa == Row`) or its column tree,
    /// with the leaf index it has there.
    pub fn cell_proof(&self, r: usize, c: usize, pa: Ax) -> (usize, Vec<NmtNode>) {
        match pa {
            Ax::Row => (c, self.row_trees[r].proof(c)),
            Ax::Col => (r, self.col_trees[c].proof(r)),
        }
    }
}

pub fn cell_ns(share: &[u8], r: usize, c: usize, k: usize) -> [u8; NS] {
    if r < k && c < k {
        share[..NS].try_into().unwrap()
    } else {
        PARITY_NS
    }
}

/// Overwrites the payload of a share (everything after namespace, info byte and sequence
/// length) so that it certainly differs from what it was.
pub fn trash_payload(share: &mut [u8], fill: &mut Fill) {
    let last = share[SHARE - 1];
    let noise = fill.bytes(SHARE - PAYLOAD_OFF);
    for (b, n) in share[PAYLOAD_OFF..].iter_mut().zip(noise) {
        *b ^= n;
    }
    share[SHARE - 1] = !last;
}
