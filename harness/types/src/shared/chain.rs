//! Deterministic multi-validator chain builder shared by C01, C02 and C03.
//!
//! * ed25519 keys are derived from `VERIF_SEED` through `lv_core::Fill` (payload bytes only);
//! * validator sets are arbitrary per height (rotation, arbitrary powers);
//! * every validator votes commit / nil / absent; commit votes sign the canonical precommit
//!   for the block, nil votes sign the canonical precommit for the nil block id (as a real
//!   CometBFT validator does);
//! * sign-bytes are produced with `tendermint::Vote::into_signable_vec` (the tendermint
//!   library, *not* lumina's `CommitExt::vote_sign_bytes`), so a disagreement between the two
//!   is visible: every header the builder emits is self-checked with the real `validate()`
//!   (and `verify()` against its parent) by [`must_validate`] / [`must_verify`]; a failure
//!   there is a machinery error, never a verdict.
#![allow(dead_code)]

use std::collections::BTreeMap;
use std::time::Duration;

use celestia_types::consts::appconsts::AppVersion;
use celestia_types::nmt::{NS_SIZE, Namespace, NamespacedHash, NamespacedHashExt};
use celestia_types::{DataAvailabilityHeader, ExtendedDataSquare, ExtendedHeader, ValidatorSet};
use ed25519_consensus::SigningKey;
use lv_core::{Fill, machinery_error};
use serde::{Deserialize, Serialize};
use tendermint::block::header::{Header, Version};
use tendermint::block::{Commit, CommitSig, Height, Id as BlockId, parts};
use tendermint::hash::Hash;
use tendermint::public_key::PublicKey;
use tendermint::validator::Info;
use tendermint::{Signature, Time, Vote as TmVote, account, chain, vote};

/// 2024-01-01T00:00:00Z — far (years) in the past of any run of the harness.
pub const BASE_SECS: i64 = 1_704_067_200;
pub const BLOCK_PROTOCOL: u64 = 11;

/// One validator identity (id -> key), derived from the seed.
#[derive(Clone)]
pub struct Val {
    pub id: u32,
    pub sk: SigningKey,
    pub pk: PublicKey,
    pub addr: account::Id,
}

pub fn val(seed: u64, id: u32) -> Val {
    let mut f = Fill::new(seed, 0x5EED_0000_0000 + id as u64);
    let sk = SigningKey::from(f.array::<32>());
    let pk = PublicKey::from_raw_ed25519(&sk.verification_key().to_bytes()).expect("ed25519 key");
    let addr = account::Id::from(pk);
    Val { id, sk, pk, addr }
}

/// Key ring with the first `n` identities precomputed.
#[derive(Clone)]
pub struct Keys {
    pub seed: u64,
    vals: Vec<Val>,
}

impl Keys {
    pub fn new(seed: u64, n: u32) -> Keys {
        Keys {
            seed,
            vals: (0..n).map(|i| val(seed, i)).collect(),
        }
    }
    pub fn get(&self, id: u32) -> Val {
        match self.vals.get(id as usize) {
            Some(v) => v.clone(),
            None => val(self.seed, id),
        }
    }
    pub fn by_addr(&self, a: &account::Id) -> Option<Val> {
        self.vals.iter().find(|v| v.addr == *a).cloned()
    }
}

#[derive(Clone, Copy, Debug, PartialEq, Eq, PartialOrd, Ord, Serialize, Deserialize)]
pub enum VoteKind {
    Commit,
    Nil,
    Absent,
}

pub fn time_at(secs: i64, nanos: u32) -> Time {
    Time::from_unix_timestamp(secs, nanos).expect("time in range")
}

pub fn time_plus(t: Time, d: Duration) -> Time {
    t.checked_add(d).expect("time add")
}

pub fn time_minus(t: Time, d: Duration) -> Time {
    t.checked_sub(d).expect("time sub")
}

pub fn sha(seed: u64, stream: u64) -> Hash {
    Hash::Sha256(Fill::new(seed, stream).array::<32>())
}

pub fn power(p: u64) -> vote::Power {
    vote::Power::try_from(p).expect("power fits i64")
}

/// Builds the validator set for `(id, power)` pairs.  `ValidatorSet::new` sorts by
/// (power desc, address asc); the returned vector gives the validator ids in set order.
pub fn make_set(keys: &Keys, vals: &[(u32, u64)]) -> (ValidatorSet, Vec<u32>) {
    let infos: Vec<Info> = vals
        .iter()
        .map(|(id, p)| Info::new(keys.get(*id).pk, power(*p)))
        .collect();
    let mut set = ValidatorSet::new(infos, None);
    set.proposer = set.validators.first().cloned();
    let order = set
        .validators
        .iter()
        .map(|i| {
            vals.iter()
                .map(|(id, _)| *id)
                .find(|id| keys.get(*id).addr == i.address)
                .expect("validator of the set has a key")
        })
        .collect();
    (set, order)
}

// ---------------------------------------------------------------------------------------
// DAH fixtures

/// Synthetic roots with a plausible namespace layout (ODS part ascending user namespaces,
/// parity part PARITY_SHARE); `width` = extended square width.
pub fn dah_synthetic(seed: u64, stream: u64, width: usize) -> DataAvailabilityHeader {
    let mut f = Fill::new(seed, 0xDA00_0000_0000 + stream);
    let ods = width / 2;
    let mut mk = |i: usize| -> NamespacedHash {
        let (min, max) = if i < ods {
            let a = Namespace::new_v0(&[1, (2 * i) as u8 + 1]).unwrap();
            let b = Namespace::new_v0(&[1, (2 * i) as u8 + 2]).unwrap();
            (a, b)
        } else {
            (Namespace::PARITY_SHARE, Namespace::PARITY_SHARE)
        };
        let mut raw = Vec::with_capacity(2 * NS_SIZE + 32);
        raw.extend_from_slice(min.as_bytes());
        raw.extend_from_slice(max.as_bytes());
        raw.extend_from_slice(&f.bytes(32));
        NamespacedHash::from_raw(&raw).expect("namespaced hash")
    };
    let rows: Vec<_> = (0..width).map(&mut mk).collect();
    let cols: Vec<_> = (0..width).map(&mut mk).collect();
    DataAvailabilityHeader::new_unchecked(rows, cols)
}

/// DAH of a real EDS built by the real `ExtendedDataSquare::from_ods` (ODS width `ods`).
pub fn dah_from_eds(seed: u64, stream: u64, ods: usize, app: AppVersion) -> DataAvailabilityHeader {
    let mut f = Fill::new(seed, 0xED50_0000_0000 + stream);
    let shares: Vec<Vec<u8>> = (0..ods * ods)
        .map(|k| {
            // non-decreasing namespaces in row-major order => sorted rows and columns
            let ns = Namespace::new_v0(&[7, (k / 2) as u8 + 1]).unwrap();
            let mut s = Vec::with_capacity(512);
            s.extend_from_slice(ns.as_bytes());
            s.push(0);
            s.extend_from_slice(&f.bytes(512 - NS_SIZE - 1));
            s
        })
        .collect();
    let eds = ExtendedDataSquare::from_ods(shares, app)
        .unwrap_or_else(|e| machinery_error("chain-builder", &format!("from_ods failed: {e}")));
    DataAvailabilityHeader::from_eds(&eds)
}

#[derive(Clone, Copy, Debug, PartialEq, Eq, Serialize, Deserialize)]
pub enum DahSpec {
    /// synthetic roots, extended width
    Synthetic(usize),
    /// real EDS, ODS width
    Eds(usize),
}

pub fn make_dah(seed: u64, stream: u64, spec: DahSpec, app: u64) -> DataAvailabilityHeader {
    match spec {
        DahSpec::Synthetic(w) => dah_synthetic(seed, stream, w),
        DahSpec::Eds(o) => dah_from_eds(
            seed,
            stream,
            o,
            AppVersion::from_u64(app).unwrap_or(AppVersion::V1),
        ),
    }
}

// ---------------------------------------------------------------------------------------
// Header construction

/// Everything that determines one header.
#[derive(Clone, Debug)]
pub struct HSpec {
    pub chain_id: String,
    pub height: u64,
    pub time: Time,
    pub app: u64,
    /// validator set of this height: (validator id, power)
    pub vals: Vec<(u32, u64)>,
    /// validator set of the next height
    pub next_vals: Vec<(u32, u64)>,
    /// votes of validators that do not simply commit
    pub votes: BTreeMap<u32, VoteKind>,
    pub round: u16,
    /// distinguishes fork twins (goes into consensus_hash / app_hash / part-set hashes)
    pub salt: u64,
    pub dah: DahSpec,
}

/// A built header plus the builder's own knowledge about it (used by the oracles).
#[derive(Clone)]
pub struct Built {
    pub eh: ExtendedHeader,
    /// validator ids in set order (= commit signature order)
    pub order: Vec<u32>,
    /// (id, power) of the set
    pub vals: Vec<(u32, u64)>,
    pub votes: BTreeMap<u32, VoteKind>,
}

impl Built {
    pub fn vote_of(&self, id: u32) -> VoteKind {
        self.votes.get(&id).copied().unwrap_or(VoteKind::Commit)
    }
    pub fn power_of(&self, id: u32) -> Option<u64> {
        self.vals.iter().find(|(i, _)| *i == id).map(|(_, p)| *p)
    }
    pub fn total(&self) -> u128 {
        self.vals.iter().map(|(_, p)| *p as u128).sum()
    }
}

/// Canonical precommit sign-bytes, via the tendermint library (independent of lumina's
/// `CommitExt::vote_sign_bytes`).  `block_id = None` is the nil vote.
pub fn sign_bytes(
    chain_id: &chain::Id,
    height: Height,
    round: u16,
    block_id: Option<BlockId>,
    ts: Time,
    who: &Val,
    idx: usize,
) -> Vec<u8> {
    TmVote {
        vote_type: vote::Type::Precommit,
        height,
        round: round.into(),
        block_id,
        timestamp: Some(ts),
        validator_address: who.addr,
        validator_index: idx.try_into().expect("index"),
        signature: None,
        extension: Vec::new(),
        extension_signature: None,
    }
    .into_signable_vec(chain_id.clone())
}

pub fn sign(who: &Val, msg: &[u8]) -> Signature {
    Signature::new(who.sk.sign(msg).to_bytes())
        .expect("signature")
        .expect("non-empty signature")
}

/// Timestamp of validator `id`'s vote for a block with time `t`.
pub fn vote_time(t: Time, id: u32) -> Time {
    time_plus(t, Duration::from_millis(1 + id as u64))
}

/// One honest commit entry of validator `who` for the header's block.
pub fn commit_entry(eh: &ExtendedHeader, who: &Val, idx: usize, kind: VoteKind) -> CommitSig {
    let ts = vote_time(eh.header.time, who.id);
    let round = eh.commit.round.value() as u16;
    match kind {
        VoteKind::Absent => CommitSig::BlockIdFlagAbsent,
        VoteKind::Commit => {
            let msg = sign_bytes(
                &eh.header.chain_id,
                eh.commit.height,
                round,
                Some(eh.commit.block_id),
                ts,
                who,
                idx,
            );
            CommitSig::BlockIdFlagCommit {
                validator_address: who.addr,
                timestamp: ts,
                signature: Some(sign(who, &msg)),
            }
        }
        VoteKind::Nil => {
            let msg = sign_bytes(&eh.header.chain_id, eh.commit.height, round, None, ts, who, idx);
            CommitSig::BlockIdFlagNil {
                validator_address: who.addr,
                timestamp: ts,
                signature: Some(sign(who, &msg)),
            }
        }
    }
}

/// (Re)computes the commit of `eh` for its *current* header: block id hash, commit height
/// and one entry per validator of `order` with the given votes.  Header fields are not
/// touched, so a caller can perturb a field and re-seal ("re-signed so it still validates").
pub fn seal(keys: &Keys, eh: &mut ExtendedHeader, order: &[u32], votes: &BTreeMap<u32, VoteKind>) {
    eh.commit.block_id.hash = eh.header.hash();
    eh.commit.height = eh.header.height;
    let sigs = order
        .iter()
        .enumerate()
        .map(|(idx, id)| {
            let kind = votes.get(id).copied().unwrap_or(VoteKind::Commit);
            commit_entry(eh, &keys.get(*id), idx, kind)
        })
        .collect();
    eh.commit.signatures = sigs;
}

/// Sets the header fields that commit to the other parts (validators hash, data hash).
pub fn link(eh: &mut ExtendedHeader) {
    eh.header.validators_hash = eh.validator_set.hash();
    eh.header.data_hash = Some(eh.dah.hash());
}

pub fn block_id_of(eh: &ExtendedHeader) -> BlockId {
    eh.commit.block_id
}

/// Builds one header (not yet self-checked).
pub fn build(keys: &Keys, spec: &HSpec, parent: Option<BlockId>) -> Built {
    let seed = keys.seed;
    let (set, order) = make_set(keys, &spec.vals);
    let (next_set, _) = make_set(keys, &spec.next_vals);
    let proposer = keys.get(order[0]).addr;
    let h = spec.height;
    let s = spec.salt.wrapping_mul(0x1_0000).wrapping_add(h * 16);
    let dah = make_dah(seed, s, spec.dah, spec.app);
    let last_block_id = if h == 1 {
        None
    } else {
        Some(parent.unwrap_or(BlockId {
            hash: sha(seed, s + 1),
            part_set_header: parts::Header::new(1, sha(seed, s + 2)).unwrap(),
        }))
    };
    let header = Header {
        version: Version {
            block: BLOCK_PROTOCOL,
            app: spec.app,
        },
        chain_id: spec.chain_id.clone().try_into().expect("chain id"),
        height: h.try_into().expect("height"),
        time: spec.time,
        last_block_id,
        last_commit_hash: Some(sha(seed, s + 3)),
        data_hash: Some(Hash::None),
        validators_hash: Hash::None,
        next_validators_hash: next_set.hash(),
        consensus_hash: sha(seed, s + 4),
        app_hash: Fill::new(seed, s + 5).bytes(32).try_into().expect("app hash"),
        last_results_hash: Some(sha(seed, s + 6)),
        evidence_hash: Some(sha(seed, s + 7)),
        proposer_address: proposer,
    };
    let commit = Commit {
        height: header.height,
        round: spec.round.into(),
        block_id: BlockId {
            hash: Hash::None,
            part_set_header: parts::Header::new(1, sha(seed, s + 8)).unwrap(),
        },
        signatures: vec![],
    };
    let mut eh = ExtendedHeader {
        header,
        commit,
        validator_set: set,
        dah,
    };
    link(&mut eh);
    seal(keys, &mut eh, &order, &spec.votes);
    Built {
        eh,
        order,
        vals: spec.vals.clone(),
        votes: spec.votes.clone(),
    }
}

/// Self-check: the real `validate()` must accept what the builder calls an honest header.
pub fn must_validate(id: &str, what: &str, eh: &ExtendedHeader) {
    match lv_core::guard(|| eh.validate()) {
        Ok(Ok(())) => {}
        Ok(Err(e)) => machinery_error(id, &format!("chain builder: {what} does not validate: {e}")),
        Err(p) => machinery_error(id, &format!("chain builder: {what}: validate panicked: {p}")),
    }
}

/// Self-check: the real `verify()` must accept the builder's honest child.
pub fn must_verify(id: &str, what: &str, parent: &ExtendedHeader, child: &ExtendedHeader) {
    match lv_core::guard(|| parent.verify(child)) {
        Ok(Ok(())) => {}
        Ok(Err(e)) => machinery_error(id, &format!("chain builder: {what} does not verify: {e}")),
        Err(p) => machinery_error(id, &format!("chain builder: {what}: verify panicked: {p}")),
    }
}

/// Per-height plan of an honest chain.
#[derive(Clone, Debug)]
pub struct ChainPlan {
    pub chain_id: String,
    pub app: u64,
    pub salt: u64,
    /// validator set per height, index 0 = height 1; one extra entry for the set after the tip
    pub sets: Vec<Vec<(u32, u64)>>,
    /// votes per height (ids not listed commit)
    pub votes: Vec<BTreeMap<u32, VoteKind>>,
    pub dah: Vec<DahSpec>,
    /// seconds between blocks
    pub block_secs: u64,
}

impl ChainPlan {
    pub fn len(&self) -> usize {
        self.sets.len() - 1
    }
    pub fn spec(&self, i: usize) -> HSpec {
        HSpec {
            chain_id: self.chain_id.clone(),
            height: i as u64 + 1,
            time: time_at(BASE_SECS + (i as u64 * self.block_secs) as i64, 0),
            app: self.app,
            vals: self.sets[i].clone(),
            next_vals: self.sets[i + 1].clone(),
            votes: self.votes.get(i).cloned().unwrap_or_default(),
            round: 0,
            salt: self.salt,
            dah: self.dah.get(i).copied().unwrap_or(DahSpec::Synthetic(2)),
        }
    }
}

/// Builds the honest chain of a plan, starting at height 1; every header is self-checked
/// with `validate()` and `verify()` against its parent.
pub fn build_chain(id: &str, keys: &Keys, plan: &ChainPlan) -> Vec<Built> {
    let mut out: Vec<Built> = Vec::with_capacity(plan.len());
    for i in 0..plan.len() {
        let parent = out.last().map(|b: &Built| block_id_of(&b.eh));
        let b = build(keys, &plan.spec(i), parent);
        must_validate(id, &format!("honest header {}", i + 1), &b.eh);
        if let Some(p) = out.last() {
            must_verify(id, &format!("honest header {}", i + 1), &p.eh, &b.eh);
        }
        out.push(b);
    }
    out
}

/// Short, stable class name of a `celestia_types::Error` (digits and hex stripped).
pub fn err_class(e: &celestia_types::Error) -> String {
    let s = e.to_string();
    let known = [
        ("not adjacent", "not-adjacent"),
        ("untrusted header height", "height"),
        ("Not enought voting power", "not-enough-power"),
        ("signature invalid", "bad-signature"),
        ("bad signature", "bad-signature"),
        ("validator address", "address-mismatch"),
        ("No signature in CommitSig", "no-signature"),
        ("no signature in commit sig", "no-signature"),
        ("validators signature len", "sig-count"),
        ("validator_set hash", "validators-hash"),
        ("dah hash", "data-hash"),
        ("commit height", "commit-height"),
        ("commit block_id hash", "block-hash"),
        ("Double vote", "double-vote"),
        ("Unsupported app version", "app-version"),
        ("version block", "block-version"),
        ("last_block_id", "last-block-id"),
        ("height == 0", "height-zero"),
        ("row_roots len", "dah-shape"),
        ("column_roots len", "dah-shape"),
        ("validatiors is empty", "empty-set"),
        ("proposer is none", "no-proposer"),
        ("block_id is zero", "zero-block-id"),
        ("no signatures in commit", "no-sigs"),
        ("different chain", "chain-id"),
        ("must be after", "time-order"),
        ("from the future", "time-future"),
        ("next validators", "next-validators"),
        ("last header hash", "parent-hash"),
        ("length != required", "sig-length"),
        ("chain id", "chain-id-len"),
    ];
    for (pat, name) in known {
        if s.contains(pat) {
            return name.to_string();
        }
    }
    let words: Vec<&str> = s
        .split(|c: char| !c.is_ascii_alphabetic())
        .filter(|w| !w.is_empty())
        .take(4)
        .collect();
    format!("other:{}", words.join("-").to_lowercase())
}
