//! Fixtures for C13: small deterministic data squares with a controlled namespace layout,
//! the independent (oracle-side) NMT range prover and the row / share proof builders.
//! Nothing here decides a verdict by calling the code under test: the real code is only
//! used to extend the ODS (`from_ods`) and to compute the DAH the proofs are checked against;
//! both are cross-checked against the oracle hashing (`self_check`).
#![allow(dead_code)]

use celestia_proto::celestia::core::v1::proof::{
    NmtProof as RawNmtProof, Proof as RawMerkleProof, RowProof as RawRowProof,
};
use celestia_types::consts::appconsts::AppVersion;
use celestia_types::nmt::NamespacedHashExt;
use celestia_types::{DataAvailabilityHeader, ExtendedDataSquare};
use lv_core::Fill;
use lv_core::oracle::{self, H32, NS, NmtNode, PARITY_NS};

pub const SHARE: usize = 512;

pub fn ns_v0(tail: &[u8]) -> [u8; NS] {
    let mut n = [0u8; NS];
    n[NS - tail.len()..].copy_from_slice(tail);
    n
}
pub fn ns_v255(last: u8) -> [u8; NS] {
    let mut n = [0xffu8; NS];
    n[NS - 1] = last;
    n
}

/// Namespace of every ODS cell (row-major, non-decreasing): reserved namespaces first, user
/// namespaces with runs that (for k >= 4) end mid-row, span two and three rows, a
/// one-share namespace, then tail padding.
pub fn layout(k: usize) -> Vec<[u8; NS]> {
    let total = k * k;
    let tx = ns_v0(&[1]);
    let pfb = ns_v0(&[4]);
    let prp = ns_v0(&[0xff]);
    let a = ns_v0(&[0x0a, 0x01]);
    let b = ns_v0(&[0x0a, 0x02]);
    let c = ns_v0(&[1, 0, 0, 0, 0, 0, 0, 0, 0, 0]);
    let d = ns_v0(&[0xff; 10]);
    let tail = ns_v255(0xfe);
    let runs: Vec<([u8; NS], usize)> = match k {
        1 => vec![(a, 1)],
        2 => vec![(pfb, 1), (a, 2), (tail, 1)],
        _ => vec![
            (tx, 1),
            (pfb, k / 2),
            (prp, k - 1 - k / 2),
            (a, k + 1),
            (b, 1),
            (c, 2 * k + k / 2),
            (d, k - 2),
            (tail, total),
        ],
    };
    let mut out = Vec::with_capacity(total);
    for (ns, len) in runs {
        for _ in 0..len {
            if out.len() < total {
                out.push(ns);
            }
        }
    }
    while out.len() < total {
        out.push(tail);
    }
    out
}

pub struct Square {
    pub k: usize,
    /// namespace per ODS cell, row-major
    pub ns: Vec<[u8; NS]>,
    pub eds: ExtendedDataSquare,
    pub dah: DataAvailabilityHeader,
    /// every EDS share, row-major, raw bytes (taken from the extended square)
    pub cells: Vec<Vec<u8>>,
    /// oracle: the 4k leaves of the DAH tree (row roots, then column roots; 90 bytes each)
    pub dah_leaves: Vec<Vec<u8>>,
    /// oracle: RFC-6962 root over `dah_leaves`
    pub data_root: H32,
}

impl Square {
    pub fn w(&self) -> usize {
        2 * self.k
    }
    pub fn cell(&self, r: usize, c: usize) -> &Vec<u8> {
        &self.cells[r * self.w() + c]
    }
    /// Oracle NMT leaves of EDS row r.
    pub fn row_leaves(&self, r: usize) -> Vec<NmtNode> {
        (0..self.w())
            .map(|c| {
                let s = self.cell(r, c);
                let ns: [u8; NS] = if r < self.k && c < self.k {
                    s[..NS].try_into().unwrap()
                } else {
                    PARITY_NS
                };
                oracle::nmt_leaf(&ns, s)
            })
            .collect()
    }
    pub fn col_leaves(&self, c: usize) -> Vec<NmtNode> {
        (0..self.w())
            .map(|r| {
                let s = self.cell(r, c);
                let ns: [u8; NS] = if r < self.k && c < self.k {
                    s[..NS].try_into().unwrap()
                } else {
                    PARITY_NS
                };
                oracle::nmt_leaf(&ns, s)
            })
            .collect()
    }
    /// The 4k leaves of the DAH merkle tree (row roots then column roots, 90 bytes each),
    /// recomputed by the oracle.
    pub fn compute_dah_leaves(&self) -> Vec<Vec<u8>> {
        let mut v: Vec<Vec<u8>> = (0..self.w())
            .map(|r| oracle::nmt_root(&self.row_leaves(r)).to_bytes())
            .collect();
        v.extend((0..self.w()).map(|c| oracle::nmt_root(&self.col_leaves(c)).to_bytes()));
        v
    }
    /// Distinct namespaces of the ODS with their half-open run in row-major ODS order.
    pub fn runs(&self) -> Vec<([u8; NS], usize, usize)> {
        let mut out: Vec<([u8; NS], usize, usize)> = vec![];
        for (i, n) in self.ns.iter().enumerate() {
            match out.last_mut() {
                Some((m, _, e)) if m == n => *e = i + 1,
                _ => out.push((*n, i, i + 1)),
            }
        }
        out
    }
}

/// Builds the square of ODS width k (1, 2, 4, 8, 16 ...), payload bytes from `seed`.
pub fn build_square(k: usize, seed: u64) -> Result<Square, String> {
    let ns = layout(k);
    let mut fill = Fill::new(seed, 0xC13_0000 + k as u64);
    let ods: Vec<Vec<u8>> = ns
        .iter()
        .map(|n| {
            let mut s = Vec::with_capacity(SHARE);
            s.extend_from_slice(n);
            s.push(0); // info byte: share version 0, continuation
            s.extend_from_slice(&fill.bytes(SHARE - NS - 1));
            s
        })
        .collect();
    let eds = ExtendedDataSquare::from_ods(ods, AppVersion::V2).map_err(|e| format!("from_ods(k={k}): {e}"))?;
    let dah = DataAvailabilityHeader::from_eds(&eds);
    let cells: Vec<Vec<u8>> = eds.data_square().iter().map(|s| s.to_vec()).collect();
    let mut sq = Square { k, ns, eds, dah, cells, dah_leaves: vec![], data_root: [0; 32] };
    // self-check: the DAH of the real code is the oracle's DAH
    let leaves = sq.compute_dah_leaves();
    for (i, root) in sq.dah.row_roots().iter().chain(sq.dah.column_roots().iter()).enumerate() {
        if root.to_array().to_vec() != leaves[i] {
            return Err(format!("fixture self-check: DAH root {i} of k={k} differs from the oracle NMT root"));
        }
    }
    sq.data_root = oracle::merkle_root(&leaves);
    sq.dah_leaves = leaves;
    Ok(sq)
}

/// In-order list of the roots of the maximal subtrees of `leaves` that do not overlap
/// `[s, e)` — the NMT range proof of the Celestia specification.
pub fn nmt_range_proof(leaves: &[NmtNode], s: usize, e: usize) -> Vec<NmtNode> {
    fn go(leaves: &[NmtNode], lo: usize, s: usize, e: usize, out: &mut Vec<NmtNode>) {
        let hi = lo + leaves.len();
        if e <= lo || hi <= s {
            out.push(oracle::nmt_root(leaves));
            return;
        }
        if s <= lo && hi <= e {
            return;
        }
        let k = oracle::split_point(leaves.len());
        go(&leaves[..k], lo, s, e, out);
        go(&leaves[k..], lo + k, s, e, out);
    }
    let mut out = vec![];
    go(leaves, 0, s, e, &mut out);
    out
}

pub fn raw_nmt_proof(start: usize, end: usize, nodes: &[NmtNode]) -> RawNmtProof {
    RawNmtProof {
        start: start as i32,
        end: end as i32,
        nodes: nodes.iter().map(|n| n.to_bytes()).collect(),
        leaf_hash: vec![],
    }
}

pub fn raw_merkle_proof(leaves: &[Vec<u8>], index: usize) -> RawMerkleProof {
    RawMerkleProof {
        total: leaves.len() as i64,
        index: index as i64,
        leaf_hash: oracle::leaf_hash(&leaves[index]).to_vec(),
        aunts: oracle::merkle_path(leaves, index).iter().map(|a| a.to_vec()).collect(),
    }
}

/// Oracle-built row proof for rows a..=b of the DAH tree `dah_leaves`.
pub fn raw_row_proof(dah_leaves: &[Vec<u8>], a: usize, b: usize) -> RawRowProof {
    RawRowProof {
        row_roots: (a..=b).map(|r| dah_leaves[r].clone()).collect(),
        proofs: (a..=b).map(|r| raw_merkle_proof(dah_leaves, r)).collect(),
        root: vec![],
        start_row: a as u32,
        end_row: b as u32,
    }
}

pub fn h32(v: &[u8]) -> H32 {
    v.try_into().expect("32 bytes")
}
