//! Shared by C04 / C05 / C06: a deterministic extended-data-square fixture.
//!
//! The original data square (ODS) of width `k` gets a *controlled namespace layout* (reserved
//! namespaces first, several user namespaces, a namespace spanning rows, gaps that leave
//! namespaces absent-but-inside a row's range, tail padding at the end; sorted), payload bytes
//! come from `Fill(seed)`, the extension is done by the real `ExtendedDataSquare::from_ods`.
//! The oracles never ask lumina what a cell is: they use the *brute-force view*
//! `cells[row][col]` (plain bytes, copied once from the flat share list), and the fixture
//! checks at build time that the DAH roots equal an independent NMT recomputation over that
//! view (`lv_core::oracle::eds_axis_root`) — a mismatch is a machinery error, not a verdict.
#![allow(dead_code)]

use celestia_types::consts::appconsts::AppVersion;
use celestia_types::nmt::{Namespace, NamespacedHashExt};
use celestia_types::{DataAvailabilityHeader, ExtendedDataSquare};
use lv_core::Fill;
use lv_core::oracle::{self, NS, NmtNode};

pub const SHARE: usize = 512;
/// Block height used in every id (the properties do not depend on it).
pub const HEIGHT: u64 = 7;

pub type NsB = [u8; NS];

/// Version-0 namespace whose 10-byte id ends in the big-endian number `n`.
pub fn ns_v0(n: u32) -> NsB {
    let mut b = [0u8; NS];
    b[NS - 4..].copy_from_slice(&n.to_be_bytes());
    b
}
/// Largest version-0 namespace (10 id bytes 0xff).
pub fn ns_v0_max() -> NsB {
    let mut b = [0u8; NS];
    for x in &mut b[NS - 10..] {
        *x = 0xff;
    }
    b
}
pub fn ns_v255(last: u8) -> NsB {
    let mut b = [0xffu8; NS];
    b[NS - 1] = last;
    b
}
pub fn ns_tx() -> NsB {
    ns_v0(1)
}
pub fn ns_pfb() -> NsB {
    ns_v0(4)
}
pub fn ns_primary_reserved_padding() -> NsB {
    ns_v0(0xff)
}
pub fn ns_min_secondary_reserved() -> NsB {
    ns_v255(0)
}
pub fn ns_tail() -> NsB {
    ns_v255(0xfe)
}
pub fn ns_parity() -> NsB {
    ns_v255(0xff)
}
/// i-th user namespace of the fixtures; `ns_user_gap(i)` lies strictly between user i and i+1
/// and is never present.
pub fn ns_user(i: u32) -> NsB {
    ns_v0(0x1000 + 0x10 * i)
}
pub fn ns_user_gap(i: u32) -> NsB {
    ns_v0(0x1000 + 0x10 * i + 8)
}

pub fn namespace(b: &NsB) -> Namespace {
    Namespace::from_raw(b).expect("fixture namespace must be valid")
}

pub const LAYOUTS: [&str; 3] = ["structured", "distinct", "uniform"];

/// Namespace runs (namespace, count) of the ODS in row-major order; counts sum to k*k.
pub fn layout_runs(k: usize, layout: usize) -> Vec<(NsB, usize)> {
    let n = k * k;
    match layout {
        // reserved first, user namespaces of varying length (one longer than a row, so it
        // spans rows), gaps between user namespaces, tail padding at the end
        0 => {
            if n == 1 {
                return vec![(ns_user(0), 1)];
            }
            let mut runs = vec![];
            let mut left = n;
            let tail_min = (k / 2).max(1);
            let pfb = (k / 2).max(1);
            runs.push((ns_pfb(), pfb));
            left -= pfb;
            if k >= 4 {
                runs.push((ns_primary_reserved_padding(), 1));
                left -= 1;
            }
            let pattern = [k + 1, 1, (k / 2).max(1), k, 1, 2];
            let mut i = 0u32;
            while left > tail_min {
                let c = pattern[i as usize % pattern.len()].min(left - tail_min);
                runs.push((ns_user(i), c));
                left -= c;
                i += 1;
            }
            runs.push((ns_tail(), left));
            runs
        }
        // every share its own namespace, the last one tail padding
        1 => {
            if n == 1 {
                return vec![(ns_tail(), 1)];
            }
            let mut runs: Vec<(NsB, usize)> = (0..n as u32 - 1).map(|i| (ns_user(i), 1)).collect();
            runs.push((ns_tail(), 1));
            runs
        }
        // one user namespace, no padding
        2 => vec![(ns_user(3), n)],
        _ => panic!("unknown layout {layout}"),
    }
}

pub struct Fixture {
    pub seed: u64,
    /// EDS width (2k)
    pub width: usize,
    /// ODS width
    pub k: usize,
    pub layout: usize,
    pub eds: ExtendedDataSquare,
    pub dah: DataAvailabilityHeader,
    /// brute-force view: cells[row][col] = the 512 bytes of that cell
    pub cells: Vec<Vec<Vec<u8>>>,
    /// the namespaces present in the ODS, ascending, without repetition
    pub present: Vec<NsB>,
    /// independently recomputed axis roots (equal to the DAH's, checked at build time)
    pub row_roots: Vec<NmtNode>,
    pub col_roots: Vec<NmtNode>,
}

fn is_padding_ns(ns: &NsB) -> bool {
    *ns == ns_tail() || *ns == ns_primary_reserved_padding()
}

/// The ODS shares of (width, layout, seed), row-major.
pub fn ods_shares(k: usize, layout: usize, seed: u64) -> Vec<Vec<u8>> {
    let runs = layout_runs(k, layout);
    let mut out = Vec::with_capacity(k * k);
    let mut idx = 0u64;
    for (ns, count) in runs {
        for j in 0..count {
            let mut s = Vec::with_capacity(SHARE);
            s.extend_from_slice(&ns);
            // info byte: share version 0, sequence-start bit on the first share of a run
            s.push(if j == 0 || is_padding_ns(&ns) { 1 } else { 0 });
            if is_padding_ns(&ns) {
                s.resize(SHARE, 0);
            } else {
                let mut f = Fill::new(seed, ((k as u64) << 40) ^ ((layout as u64) << 32) ^ idx);
                s.extend_from_slice(&f.bytes(SHARE - NS - 1));
            }
            out.push(s);
            idx += 1;
        }
    }
    assert_eq!(out.len(), k * k);
    out
}

impl Fixture {
    /// Builds the fixture; `Err` describes a self-check failure (machinery error).
    pub fn build(width: usize, layout: usize, seed: u64) -> Result<Fixture, String> {
        if width < 2 || !width.is_power_of_two() {
            return Err(format!("fixture width {width} is not a power of two >= 2"));
        }
        let k = width / 2;
        let ods = ods_shares(k, layout, seed);
        let eds = ExtendedDataSquare::from_ods(ods.clone(), AppVersion::V2)
            .map_err(|e| format!("from_ods failed on the fixture (w={width}, layout={layout}): {e}"))?;
        if eds.square_width() as usize != width || eds.data_square().len() != width * width {
            return Err(format!("fixture EDS has width {} instead of {width}", eds.square_width()));
        }
        let flat = eds.data_square();
        let cells: Vec<Vec<Vec<u8>>> = (0..width)
            .map(|r| (0..width).map(|c| flat[r * width + c].data().to_vec()).collect())
            .collect();
        for r in 0..k {
            for c in 0..k {
                if cells[r][c] != ods[r * k + c] {
                    return Err(format!("fixture: ODS quadrant cell ({r},{c}) differs from the input"));
                }
            }
        }
        let dah = DataAvailabilityHeader::from_eds(&eds);
        if dah.row_roots().len() != width || dah.column_roots().len() != width {
            return Err("fixture: DAH has the wrong number of roots".into());
        }
        let mut row_roots = vec![];
        let mut col_roots = vec![];
        for i in 0..width {
            let row = oracle::eds_axis_root(&cells[i], |j| i < k && j < k);
            if row.to_bytes()[..] != dah.row_roots()[i].to_array()[..] {
                return Err(format!("fixture: row root {i} differs from the independent NMT recomputation"));
            }
            let col_cells: Vec<Vec<u8>> = (0..width).map(|r| cells[r][i].clone()).collect();
            let col = oracle::eds_axis_root(&col_cells, |j| i < k && j < k);
            if col.to_bytes()[..] != dah.column_roots()[i].to_array()[..] {
                return Err(format!("fixture: column root {i} differs from the independent NMT recomputation"));
            }
            row_roots.push(row);
            col_roots.push(col);
        }
        let mut present: Vec<NsB> = ods.iter().map(|s| s[..NS].try_into().unwrap()).collect();
        let sorted = present.windows(2).all(|w| w[0] <= w[1]);
        if !sorted {
            return Err("fixture: ODS namespaces are not sorted".into());
        }
        present.dedup();
        Ok(Fixture { seed, width, k, layout, eds, dah, cells, present, row_roots, col_roots })
    }

    /// Namespace under which cell (r,c) is committed (own namespace in the ODS quadrant,
    /// parity namespace elsewhere).
    pub fn cell_ns(&self, r: usize, c: usize) -> NsB {
        if r < self.k && c < self.k { self.cells[r][c][..NS].try_into().unwrap() } else { ns_parity() }
    }

    pub fn in_ods(&self, r: usize, c: usize) -> bool {
        r < self.k && c < self.k
    }

    /// Brute-force namespace range committed by row r (parity leaves ignored unless the
    /// whole row is parity), computed without assuming the row is sorted.
    pub fn row_range(&self, r: usize) -> (NsB, NsB) {
        if r >= self.k {
            return (ns_parity(), ns_parity());
        }
        let nss: Vec<NsB> = (0..self.k).map(|c| self.cell_ns(r, c)).collect();
        (*nss.iter().min().unwrap(), *nss.iter().max().unwrap())
    }

    pub fn row_covers(&self, r: usize, ns: &NsB) -> bool {
        let (lo, hi) = self.row_range(r);
        lo <= *ns && *ns <= hi
    }

    /// Brute-force scan: the cells of row r committed under namespace `ns`, left to right.
    pub fn scan_row(&self, r: usize, ns: &NsB) -> Vec<Vec<u8>> {
        (0..self.width).filter(|&c| self.cell_ns(r, c) == *ns).map(|c| self.cells[r][c].clone()).collect()
    }

    /// Column positions of the cells of row r committed under `ns`.
    pub fn scan_row_cols(&self, r: usize, ns: &NsB) -> Vec<usize> {
        (0..self.width).filter(|&c| self.cell_ns(r, c) == *ns).collect()
    }

    pub fn describe(&self) -> String {
        format!("w={} layout={} seed={}", self.width, LAYOUTS[self.layout], self.seed)
    }
}

/// Short name of an error value: the `Debug` text up to the first delimiter, so that outcome
/// classes stay a small set ("RootMismatch", "RangeProofError", "Validation", ...).
pub fn err_kind(e: &impl std::fmt::Debug) -> String {
    let s = format!("{e:?}");
    let end = s.find(|c: char| !(c.is_alphanumeric() || c == '_')).unwrap_or(s.len());
    s[..end].to_string()
}

/// Error kind with one level of nesting ("RangeProofError.InvalidRoot").
pub fn err_kind2(e: &impl std::fmt::Debug) -> String {
    let s = format!("{e:?}");
    let mut parts = s
        .split(|c: char| !(c.is_alphanumeric() || c == '_'))
        .filter(|p| !p.is_empty() && p.chars().next().is_some_and(|c| c.is_ascii_uppercase()));
    match (parts.next(), parts.next()) {
        (Some(a), Some(b)) => format!("{a}.{b}"),
        (Some(a), None) => a.to_string(),
        _ => "error".into(),
    }
}

pub fn hexs(b: &[u8]) -> String {
    hex::encode(b)
}
