//! C15 — Shwap identifiers and CIDs are bijective over valid ids.   (engine E1)
//!
//! For the five identifier kinds the byte layout and the CID layout are written out here
//! from the Shwap specification (big-endian height, row, column, 29-byte namespace; CIDv1 =
//! 0x01 | varint(codec) | varint(multihash code) | varint(len) | id bytes).  The real
//! `encode` / `decode` / `CidGeneric::from` / `try_from` are compared with that on every
//! member of the family and on every corruption of every encoding.
//! EdsId and NamespaceDataId have no CID conversion in the code (they are not served over
//! bitswap), so for these two only the byte form is checked.
use bytes::BytesMut;
use celestia_types::eds::EdsId;
use celestia_types::namespace_data::NamespaceDataId;
use celestia_types::nmt::Namespace;
use celestia_types::row::RowId;
use celestia_types::row_namespace_data::RowNamespaceDataId;
use celestia_types::sample::SampleId;
use cid::CidGeneric;
use lv_core::*;
use multihash::Multihash;
use serde::{Deserialize, Serialize};
use serde_json::json;
use std::collections::{BTreeSet, HashMap};

const NS: usize = 29;

#[derive(Clone, Copy, Debug, PartialEq, Eq, Hash, PartialOrd, Ord, Serialize, Deserialize)]
enum Kind {
    Eds,
    Row,
    Sample,
    RowNs,
    Ns,
}
use Kind::*;

impl Kind {
    fn size(self) -> usize {
        match self {
            Eds => 8,
            Row => 10,
            Sample => 12,
            RowNs => 39,
            Ns => 37,
        }
    }
    /// (codec, multihash code) — written from the Shwap spec, not read from /repo.
    fn cid_codes(self) -> Option<(u64, u64)> {
        match self {
            Row => Some((0x7800, 0x7801)),
            Sample => Some((0x7810, 0x7811)),
            RowNs => Some((0x7820, 0x7821)),
            Eds | Ns => None,
        }
    }
    fn has_row(self) -> bool {
        matches!(self, Row | Sample | RowNs)
    }
    fn has_ns(self) -> bool {
        matches!(self, RowNs | Ns)
    }
}

/// Field view of an id; unused fields are zero / empty.
#[derive(Clone, Debug, PartialEq, Eq, Hash, PartialOrd, Ord, Serialize, Deserialize)]
struct Fields {
    kind: Kind,
    height: u64,
    row: u16,
    col: u16,
    ns: String, // hex, 29 bytes or ""
}

fn valid_ns(b: &[u8]) -> bool {
    b.len() == NS && ((b[0] == 0 && b[1..19].iter().all(|x| *x == 0)) || (b[0] == 255 && b[1..28].iter().all(|x| *x == 0xff)))
}

// ------------------------------------------------------------------ oracle

fn oracle_encode(f: &Fields) -> Vec<u8> {
    let mut v = f.height.to_be_bytes().to_vec();
    if f.kind.has_row() {
        v.extend_from_slice(&f.row.to_be_bytes());
    }
    if f.kind == Sample {
        v.extend_from_slice(&f.col.to_be_bytes());
    }
    if f.kind.has_ns() {
        v.extend_from_slice(&hex::decode(&f.ns).unwrap());
    }
    v
}

/// `Ok(fields)` or the reason the statement gives for refusing.
fn oracle_decode(kind: Kind, b: &[u8]) -> Result<Fields, &'static str> {
    if b.len() != kind.size() {
        return Err("length");
    }
    let height = u64::from_be_bytes(b[..8].try_into().unwrap());
    if height == 0 {
        return Err("zero-height");
    }
    let mut f = Fields { kind, height, row: 0, col: 0, ns: String::new() };
    let mut at = 8;
    if kind.has_row() {
        f.row = u16::from_be_bytes(b[at..at + 2].try_into().unwrap());
        at += 2;
    }
    if kind == Sample {
        f.col = u16::from_be_bytes(b[at..at + 2].try_into().unwrap());
        at += 2;
    }
    if kind.has_ns() {
        if !valid_ns(&b[at..]) {
            return Err("namespace");
        }
        f.ns = hex::encode(&b[at..]);
    }
    Ok(f)
}

fn varint(mut v: u64, out: &mut Vec<u8>) {
    while v >= 0x80 {
        out.push(v as u8 | 0x80);
        v >>= 7;
    }
    out.push(v as u8);
}

fn oracle_cid_bytes(codec: u64, code: u64, digest: &[u8]) -> Vec<u8> {
    let mut v = vec![0x01];
    varint(codec, &mut v);
    varint(code, &mut v);
    varint(digest.len() as u64, &mut v);
    v.extend_from_slice(digest);
    v
}

// ------------------------------------------------------------------ real code adapters

#[derive(Debug, PartialEq, Clone)]
enum AnyId {
    E(EdsId),
    R(RowId),
    S(SampleId),
    RN(RowNamespaceDataId),
    N(NamespaceDataId),
}

fn real_new(f: &Fields) -> Result<AnyId, String> {
    let ns = || Namespace::from_raw(&hex::decode(&f.ns).unwrap()).map_err(|e| format!("fixture namespace: {e}"));
    Ok(match f.kind {
        Eds => AnyId::E(EdsId::new(f.height).map_err(|e| e.to_string())?),
        Row => AnyId::R(RowId::new(f.row, f.height).map_err(|e| e.to_string())?),
        Sample => AnyId::S(SampleId::new(f.row, f.col, f.height).map_err(|e| e.to_string())?),
        RowNs => AnyId::RN(RowNamespaceDataId::new(ns()?, f.row, f.height).map_err(|e| e.to_string())?),
        Ns => AnyId::N(NamespaceDataId::new(ns()?, f.height).map_err(|e| e.to_string())?),
    })
}

fn real_fields(id: &AnyId) -> Fields {
    match id {
        AnyId::E(i) => Fields { kind: Eds, height: i.block_height(), row: 0, col: 0, ns: String::new() },
        AnyId::R(i) => Fields { kind: Row, height: i.block_height(), row: i.index(), col: 0, ns: String::new() },
        AnyId::S(i) => Fields { kind: Sample, height: i.block_height(), row: i.row_index(), col: i.column_index(), ns: String::new() },
        AnyId::RN(i) => Fields { kind: RowNs, height: i.block_height(), row: i.row_index(), col: 0, ns: hex::encode(i.namespace().as_bytes()) },
        AnyId::N(i) => Fields { kind: Ns, height: i.block_height(), row: 0, col: 0, ns: hex::encode(i.namespace().as_bytes()) },
    }
}

fn real_encode(id: &AnyId) -> Vec<u8> {
    let mut b = BytesMut::new();
    match id {
        AnyId::E(i) => i.encode(&mut b),
        AnyId::R(i) => i.encode(&mut b),
        AnyId::S(i) => i.encode(&mut b),
        AnyId::RN(i) => i.encode(&mut b),
        AnyId::N(i) => i.encode(&mut b),
    }
    b.to_vec()
}

fn real_decode(kind: Kind, b: &[u8]) -> Result<AnyId, String> {
    match kind {
        Eds => EdsId::decode(b).map(AnyId::E).map_err(|e| e.to_string()),
        Row => RowId::decode(b).map(AnyId::R).map_err(|e| e.to_string()),
        Sample => SampleId::decode(b).map(AnyId::S).map_err(|e| e.to_string()),
        RowNs => RowNamespaceDataId::decode(b).map(AnyId::RN).map_err(|e| e.to_string()),
        Ns => NamespaceDataId::decode(b).map(AnyId::N).map_err(|e| e.to_string()),
    }
}

/// CID bytes produced by the real `From<Id> for CidGeneric`.
fn real_cid_bytes(id: &AnyId) -> Option<Vec<u8>> {
    match id {
        AnyId::R(i) => Some(CidGeneric::<10>::from(*i).to_bytes()),
        AnyId::S(i) => Some(CidGeneric::<12>::from(*i).to_bytes()),
        AnyId::RN(i) => Some(CidGeneric::<39>::from(*i).to_bytes()),
        _ => None,
    }
}

fn real_from_cid(kind: Kind, cid: CidGeneric<64>) -> Result<AnyId, String> {
    match kind {
        Row => RowId::try_from(cid).map(AnyId::R).map_err(|e| e.to_string()),
        Sample => SampleId::try_from(cid).map(AnyId::S).map_err(|e| e.to_string()),
        RowNs => RowNamespaceDataId::try_from(cid).map(AnyId::RN).map_err(|e| e.to_string()),
        _ => Err("no cid conversion".into()),
    }
}

// ------------------------------------------------------------------ cases

#[derive(Clone, Debug, Serialize, Deserialize)]
#[serde(tag = "op")]
enum Op {
    /// a valid identifier: constructor, accessors, bytes and CID round trips
    Valid { f: Fields },
    /// constructor with height 0
    NewZero { f: Fields },
    /// decode of an arbitrary byte string as `kind`
    Decode { kind: Kind, bytes: String, family: String },
    /// conversion of a CID (codec, multihash code, digest) to `kind`
    Cid { kind: Kind, codec: u64, code: u64, digest: String, family: String },
}

struct Out<'a> {
    rep: &'a mut Report,
    key: u64,
    op: &'a Op,
}
impl Out<'_> {
    fn case(&mut self, class: &str, nontrivial: bool) {
        self.rep.case(self.key, class, nontrivial);
        if self.rep.wants_sample() && self.key % 7919 == 5 {
            let op = serde_json::to_value(self.op).unwrap();
            self.rep.sample(|| json!({"case": op, "result": class}));
        }
    }
    fn viol(&mut self, key: &str, what: String) {
        self.rep.violation(key, what, serde_json::to_value(self.op).unwrap());
    }
}

fn eval(op: &Op, rep: &mut Report) {
    let key = fnv64(serde_json::to_string(op).unwrap().as_bytes());
    let mut o = Out { rep, key, op };
    match op {
        Op::Valid { f } => {
            let kind = f.kind;
            let id = match guard(|| real_new(f)) {
                Ok(Ok(id)) => id,
                other => {
                    o.case("valid:constructor-FAILS", true);
                    o.viol("valid-id-rejected", format!("constructor refused {f:?}: {other:?}"));
                    return;
                }
            };
            let mut ok = true;
            if real_fields(&id) != *f {
                ok = false;
                o.viol("accessor-mismatch", format!("accessors give {:?} for {f:?}", real_fields(&id)));
            }
            let want = oracle_encode(f);
            match guard(|| real_encode(&id)) {
                Ok(b) if b == want => {}
                other => {
                    ok = false;
                    o.viol("encoding-differs-from-spec", format!("encode({f:?}) = {:?}, expected {}", other.map(hex::encode), hex::encode(&want)));
                }
            }
            match guard(|| real_decode(kind, &want)) {
                Ok(Ok(back)) if back == id => {}
                other => {
                    ok = false;
                    o.viol("bytes-roundtrip-mismatch", format!("decode(encode({f:?})) = {other:?}"));
                }
            }
            if let Some((codec, code)) = kind.cid_codes() {
                let want_cid = oracle_cid_bytes(codec, code, &want);
                match guard(|| real_cid_bytes(&id)) {
                    Ok(Some(b)) if b == want_cid => {}
                    other => {
                        ok = false;
                        o.viol("cid-differs-from-spec", format!("cid({f:?}) = {:?}, expected {}", other.map(|x| x.map(hex::encode)), hex::encode(&want_cid)));
                    }
                }
                // parse the spec bytes with the cid crate and convert back
                match guard(|| CidGeneric::<64>::try_from(&want_cid[..]).map_err(|e| e.to_string()).and_then(|c| real_from_cid(kind, c))) {
                    Ok(Ok(back)) if back == id => {}
                    other => {
                        ok = false;
                        o.viol("cid-roundtrip-mismatch", format!("try_from(cid({f:?})) = {other:?}"));
                    }
                }
            }
            o.case(if ok { "valid:roundtrip" } else { "valid:roundtrip-FAILS" }, true);
        }
        Op::NewZero { f } => match guard(|| real_new(f)) {
            Ok(Err(_)) => o.case("new:reject:zero-height", true),
            other => {
                o.case("new:zero-height-ACCEPTED", true);
                o.viol("zero-height-accepted", format!("constructor with height 0 returned {other:?}"));
            }
        },
        Op::Decode { kind, bytes, family } => {
            let b = hex::decode(bytes).unwrap();
            let want = oracle_decode(*kind, &b);
            let got = guard(|| real_decode(*kind, &b));
            let nt = b.len() == kind.size();
            match (&got, &want) {
                (Err(p), _) => {
                    o.case(&format!("decode:panic:{family}"), nt);
                    o.viol("panic", format!("decode panicked: {p}"));
                }
                (Ok(Ok(id)), Ok(f)) => {
                    o.case("decode:accept", nt);
                    if real_fields(id) != *f {
                        o.viol("decode-wrong-value", format!("decoded {:?}, expected {f:?}", real_fields(id)));
                    } else if real_encode(id) != b {
                        o.viol("bytes-roundtrip-mismatch", format!("encode(decode(x)) = {} for x = {bytes}", hex::encode(real_encode(id))));
                    }
                }
                (Ok(Ok(id)), Err(why)) => {
                    o.case(&format!("decode:ACCEPTED-invalid:{why}"), nt);
                    o.viol(&format!("decode-accepted-invalid:{why}"), format!("decode accepted {bytes} ({why}) as {:?}", real_fields(id)));
                }
                (Ok(Err(e)), Ok(f)) => {
                    o.case("decode:REJECTED-valid", nt);
                    o.viol("valid-id-rejected", format!("decode rejected the encoding of {f:?}: {e}"));
                }
                (Ok(Err(_)), Err(why)) => o.case(&format!("decode:reject:{why}"), nt),
            }
        }
        Op::Cid { kind, codec, code, digest, family } => {
            let d = hex::decode(digest).unwrap();
            let (wc, wm) = kind.cid_codes().unwrap();
            let want: Result<Fields, &'static str> = if *codec != wc {
                Err("codec")
            } else if *code != wm {
                Err("multihash-code")
            } else {
                oracle_decode(*kind, &d)
            };
            let cid = match Multihash::<64>::wrap(*code, &d) {
                Ok(mh) => CidGeneric::<64>::new_v1(*codec, mh),
                Err(e) => machinery_error("C15", &format!("cannot build multihash: {e}")),
            };
            let got = guard(|| real_from_cid(*kind, cid));
            match (&got, &want) {
                (Err(p), _) => {
                    o.case(&format!("cid:panic:{family}"), true);
                    o.viol("panic", format!("try_from(cid) panicked: {p}"));
                }
                (Ok(Ok(id)), Ok(f)) => {
                    o.case("cid:accept", true);
                    if real_fields(id) != *f {
                        o.viol("decode-wrong-value", format!("cid decoded to {:?}, expected {f:?}", real_fields(id)));
                    }
                }
                (Ok(Ok(id)), Err(why)) => {
                    o.case(&format!("cid:ACCEPTED-invalid:{why}"), true);
                    o.viol(&format!("cid-accepted-invalid:{why}"), format!("try_from accepted codec {codec:#x} code {code:#x} digest {digest} ({why}) as {:?}", real_fields(id)));
                }
                (Ok(Err(e)), Ok(f)) => {
                    o.case("cid:REJECTED-valid", true);
                    o.viol("valid-id-rejected", format!("try_from(cid) rejected {f:?}: {e}"));
                }
                (Ok(Err(_)), Err(why)) => o.case(&format!("cid:reject:{why}"), true),
            }
        }
    }
}

// ------------------------------------------------------------------ the space

fn namespaces(seed: u64) -> Vec<[u8; NS]> {
    let v0 = |s: &[u8]| {
        let mut b = [0u8; NS];
        b[NS - s.len()..].copy_from_slice(s);
        b
    };
    let v255 = |l: u8| {
        let mut b = [0xffu8; NS];
        b[NS - 1] = l;
        b
    };
    let seeded: [u8; 10] = Fill::new(seed, 0xC15).array();
    vec![
        v0(&[]),
        v0(&[1]),
        v0(&[4]),
        v0(&[0xff]),
        v0(&[1, 0]),
        v0(&[0x80, 0, 0, 0, 0, 0, 0, 0, 0, 0]),
        v0(&seeded),
        v0(&[0xff; 10]),
        v255(0),
        v255(0x7f),
        v255(0xfe),
        v255(0xff),
    ]
}

fn family(thorough: bool, seed: u64) -> Vec<Fields> {
    let mut heights: BTreeSet<u64> = [1, 2, 255, 256, 1 << 32, 1 << 63, u64::MAX - 1, u64::MAX].into_iter().collect();
    let mut idx: BTreeSet<u16> = [0, 1, 255, 256, 65535].into_iter().collect();
    if thorough {
        for k in 0..64 {
            heights.insert(1u64 << k);
            heights.insert((1u64 << k) | 1);
            heights.insert(((1u128 << (k + 1)) - 1) as u64);
        }
        for k in 0..16 {
            idx.insert(1u16 << k);
            idx.insert(((1u32 << (k + 1)) - 1) as u16);
        }
        idx.extend([2, 127, 128, 32767, 32768, 65534]);
    }
    let nss = namespaces(seed);
    let mut out = vec![];
    for &height in &heights {
        out.push(Fields { kind: Eds, height, row: 0, col: 0, ns: String::new() });
        for n in &nss {
            out.push(Fields { kind: Ns, height, row: 0, col: 0, ns: hex::encode(n) });
        }
        for &row in &idx {
            out.push(Fields { kind: Row, height, row, col: 0, ns: String::new() });
            for &col in &idx {
                out.push(Fields { kind: Sample, height, row, col, ns: String::new() });
            }
            for n in &nss {
                out.push(Fields { kind: RowNs, height, row, col: 0, ns: hex::encode(n) });
            }
        }
    }
    out
}

// the three Shwap codecs, the three Shwap multihash codes used as codec (confusion of the two
// number spaces), NMT, identity, raw, dag-pb, an unknown one
const CODECS: [u64; 11] = [0x7800, 0x7810, 0x7820, 0x7801, 0x7811, 0x7821, 0x7701, 0x00, 0x55, 0x70, 0x7830];
// the three Shwap multihash codes, the three Shwap codecs used as code, NMT, sha2-256, identity, unknown
const CODES: [u64; 10] = [0x7801, 0x7811, 0x7821, 0x7800, 0x7810, 0x7820, 0x7700, 0x12, 0x00, 0x7831];

/// Every corruption of the encodings of one valid id.
fn corruptions(f: &Fields, light: bool, out: &mut Vec<Op>) {
    let kind = f.kind;
    let b = oracle_encode(f);
    let l = b.len();
    let dec = |bytes: Vec<u8>, family: &str, out: &mut Vec<Op>| out.push(Op::Decode { kind, bytes: hex::encode(bytes), family: family.into() });
    // every length 0..=len+2
    for n in 0..l {
        dec(b[..n].to_vec(), "truncated", out);
    }
    for extra in 1..=2usize {
        let mut x = b.clone();
        x.extend(std::iter::repeat_n(0u8, extra));
        dec(x, "extended", out);
    }
    let mut x = vec![0u8];
    x.extend_from_slice(&b);
    dec(x, "extended", out);
    // height
    let mut x = b.clone();
    x[..8].fill(0);
    dec(x, "height-zeroed", out);
    if !light {
        for p in 0..8 {
            let mut x = b.clone();
            x[p] = 0;
            dec(x, "height-byte-zeroed", out);
            let mut x = b.clone();
            x[p] ^= 0x80;
            dec(x, "height-byte-flipped", out);
        }
        // row / column bytes
        let fixed_end = l - if kind.has_ns() { NS } else { 0 };
        for p in 8..fixed_end {
            let mut x = b.clone();
            x[p] ^= 0x01;
            dec(x, "index-byte-flipped", out);
        }
    }
    // namespace made invalid (or changed) at each of its 29 bytes
    if kind.has_ns() {
        let at = l - NS;
        for p in 0..NS {
            for v in [0x00u8, 0x01, 0xff, b[at + p] ^ 0x80] {
                if v != b[at + p] {
                    let mut x = b.clone();
                    x[at + p] = v;
                    dec(x, "namespace-byte", out);
                }
            }
        }
    }
    // CIDs
    if let Some((wc, wm)) = kind.cid_codes() {
        let cid = |codec: u64, code: u64, d: &[u8], family: &str, out: &mut Vec<Op>| {
            out.push(Op::Cid { kind, codec, code, digest: hex::encode(d), family: family.into() })
        };
        for codec in CODECS {
            for code in CODES {
                cid(codec, code, &b, "codec-x-code", out);
            }
        }
        for n in [0, 1, l - 2, l - 1] {
            cid(wc, wm, &b[..n], "digest-length", out);
        }
        for extra in [1usize, 2, 25] {
            let mut x = b.clone();
            x.extend(std::iter::repeat_n(0u8, extra));
            if x.len() <= 64 {
                cid(wc, wm, &x, "digest-length", out);
            }
        }
        let mut x = b.clone();
        x[..8].fill(0);
        cid(wc, wm, &x, "digest-zero-height", out);
        if kind.has_ns() {
            let at = l - NS;
            for p in [0usize, 1, 18, 19, 27, 28] {
                for v in [0x01u8, 0xfe] {
                    let mut x = b.clone();
                    x[at + p] = v;
                    cid(wc, wm, &x, "digest-namespace-byte", out);
                }
            }
        }
    }
}

fn main() {
    let ctx = Ctx::from_args("C15");
    let rep = if let Some(c) = ctx.replay_case() {
        let mut rep = Report::new();
        if c.get("collision").is_some() {
            let a: Fields = serde_json::from_value(c["a"].clone()).unwrap();
            let b: Fields = serde_json::from_value(c["b"].clone()).unwrap();
            let (ia, ib) = (real_new(&a).unwrap(), real_new(&b).unwrap());
            rep.case(0, "pair", true);
            if a != b && (real_encode(&ia) == real_encode(&ib) || (real_cid_bytes(&ia).is_some() && real_cid_bytes(&ia) == real_cid_bytes(&ib))) {
                rep.violation("encoding-collision", format!("{a:?} and {b:?} have the same encoding"), c.clone());
            }
        } else {
            let op: Op = serde_json::from_value(c).unwrap_or_else(|e| machinery_error("C15", &format!("bad replay case: {e}")));
            eval(&op, &mut rep);
        }
        rep
    } else {
        let thorough = !ctx.quick();
        let fam = family(thorough, ctx.seed);
        // zero height through every constructor, every index / namespace of the quick family
        let mut zero_ops: Vec<Op> = vec![];
        for f in family(false, ctx.seed).into_iter().filter(|f| f.height == 1) {
            zero_ops.push(Op::NewZero { f: Fields { height: 0, ..f } });
        }
        let mut rep = par_cases(zero_ops, |op, rep| eval(&op, rep));
        // every member: the valid-id checks, then the corruptions of its encodings (thorough:
        // the large family gets the length / zero-height / namespace / codec families, the
        // boundary family all).  Cases are generated inside the workers.
        let boundary: BTreeSet<Fields> = family(false, ctx.seed).into_iter().collect();
        let r2 = par_cases(fam.clone(), |f, rep| {
            eval(&Op::Valid { f: f.clone() }, rep);
            let mut ops = vec![];
            corruptions(&f, !boundary.contains(&f), &mut ops);
            for op in &ops {
                eval(op, rep);
            }
        });
        rep.merge_in(r2);
        // injectivity over the whole family (real encodings)
        let mut seen: HashMap<(Kind, Vec<u8>), &Fields> = HashMap::new();
        let mut seen_cid: HashMap<Vec<u8>, &Fields> = HashMap::new();
        let mut collisions = 0u64;
        for f in &fam {
            if let Ok(Ok(id)) = guard(|| real_new(f)) {
                let b = real_encode(&id);
                if let Some(prev) = seen.insert((f.kind, b), f) {
                    if prev != f {
                        collisions += 1;
                        rep.violation("encoding-collision", format!("{prev:?} and {f:?} encode to the same bytes"), json!({"collision": true, "a": prev, "b": f}));
                    }
                }
                if let Some(c) = real_cid_bytes(&id) {
                    if let Some(prev) = seen_cid.insert(c, f) {
                        if prev != f {
                            collisions += 1;
                            rep.violation("encoding-collision", format!("{prev:?} and {f:?} have the same CID"), json!({"collision": true, "a": prev, "b": f}));
                        }
                    }
                }
            }
        }
        rep.case(fnv64(b"injectivity"), if collisions == 0 { "injective-over-family" } else { "COLLISION" }, true);
        rep.extra("family_size", json!(fam.len()));
        rep.extra("distinct_encodings", json!(seen.len()));
        rep.extra("distinct_cids", json!(seen_cid.len()));
        rep
    };
    finish(
        &ctx,
        rep,
        Spec {
            rule: "family = heights {1,2,255,256,2^32,2^63,u64::MAX-1,u64::MAX} (thorough: also 2^k, 2^k|1, 2^(k+1)-1 for k<64) x row/column indices {0,1,255,256,65535} (thorough: also 2^k, 2^(k+1)-1, 2,127,128,32767,32768,65534) x 12 namespaces (v0 zero, TX, PFB, max primary reserved, 2 user, seeded, max v0, min secondary, 0x7f, tail padding, parity) for the five kinds; every member: constructor+accessors, encode == spec bytes, decode(encode) == id, CID bytes == spec CID, try_from(CID) == id, injectivity over the whole family; height 0 through every constructor; corruptions of every member's encoding: every length 0..=len+2 (+ a prefixed byte), height zeroed, each height byte zeroed / top bit flipped, each index byte flipped, each of the 29 namespace bytes set to {00,01,ff,^80}; CIDs: 11 codecs x 10 multihash codes (the three Shwap codecs and the three Shwap multihash codes in both roles, NMT, sha2-256, identity, raw, dag-pb, unknown), digest lengths {0,1,len-2,len-1,len+1,len+2,len+25}, zero height, namespace bytes {0,1,18,19,27,28} set to {01,fe}. (thorough: members outside the boundary family skip the per-byte height/index flips). distinct = distinct operation+arguments; non-trivial = decode inputs of the right length, all valid-id and CID cases",
            assumptions: &[
                "EdsId and NamespaceDataId have no CID conversion in the code base (not served over bitswap); their CID part of the statement is not applicable",
                "the expected byte and CID layouts are written from the Shwap specification in this file; only the cid/multihash crates' parser is shared with the code under test (used to build and parse CID values)",
                "one namespace suffix comes from VERIF_SEED",
            ],
            required_classes: &[
                "valid:roundtrip",
                "new:reject:zero-height",
                "decode:accept",
                "decode:reject:length",
                "decode:reject:zero-height",
                "decode:reject:namespace",
                "cid:accept",
                "cid:reject:codec",
                "cid:reject:multihash-code",
                "cid:reject:length",
                "cid:reject:zero-height",
                "cid:reject:namespace",
                "injective-over-family",
            ],
            exhaustive: true,
        },
    );
}
