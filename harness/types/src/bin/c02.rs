//! C02 — Header chain verification accepts exactly linked successors.   (engine E1)
//!
//! Worlds: honest chains with two validator-set rotations (A -> B -> A, B keeping every
//! subset of A), fork twins from every height, perturbed-and-re-signed headers, impostor
//! commits.  Families: every (trusted, untrusted) pair for `verify` / `verify_adjacent`;
//! every contiguous list and every one-element edit of it for `verify_range` /
//! `verify_adjacent_range`.  Oracle: a predicate written from the statement, evaluated on
//! the builder's own knowledge of who signed what.
#[path = "../shared/chain.rs"]
mod chain;

use chain::*;
use celestia_types::ExtendedHeader;
use lv_core::*;
use serde::{Deserialize, Serialize};
use serde_json::json;
use std::collections::BTreeMap;
use std::time::{Duration, Instant};
use tendermint::Time;

// ---------------------------------------------------------------------------------------
// worlds

#[derive(Clone, Debug, Serialize, Deserialize, PartialEq)]
struct Scenario {
    /// powers of the validators 0,1,2 of set A
    pa: [u64; 3],
    /// which validators of A stay in set B (bit i = validator i)
    mask: u8,
    /// vote of the lowest kept validator during the B phase: 0 commit, 1 nil, 2 absent
    weak: u8,
    /// chain length
    n: usize,
}

struct World {
    sc: Scenario,
    chain: Vec<Built>,
    /// forks[f] = twin chain for heights f+1..=n (0-based indices f..n-1), built on chain[f-1]
    forks: Vec<Vec<Built>>,
    plan: ChainPlan,
}

fn plan_of(sc: &Scenario) -> ChainPlan {
    let n = sc.n;
    let (r1, r2) = (n / 2 - 1, n - 2); // 0-based first index of phase B / second phase A
    let a: Vec<(u32, u64)> = (0..3).map(|i| (i as u32, sc.pa[i])).collect();
    let mut b: Vec<(u32, u64)> = (0..3u32).filter(|i| sc.mask >> i & 1 == 1).map(|i| (i, 10)).collect();
    let mut fresh = 3u32;
    while b.len() < 4 {
        b.push((fresh, 10));
        fresh += 1;
    }
    let mut sets = vec![];
    let mut votes = vec![];
    for i in 0..=n {
        let in_b = i >= r1 && i < r2;
        sets.push(if in_b { b.clone() } else { a.clone() });
        let mut v = BTreeMap::new();
        if in_b && sc.weak > 0 {
            if let Some(kept) = (0..3u32).find(|k| sc.mask >> k & 1 == 1) {
                v.insert(kept, if sc.weak == 1 { VoteKind::Nil } else { VoteKind::Absent });
            }
        }
        votes.push(v);
    }
    ChainPlan {
        chain_id: "lv-c02".into(),
        app: 4,
        salt: 2,
        sets,
        votes,
        dah: vec![],
        block_secs: 12,
    }
}

fn build_world(keys: &Keys, sc: &Scenario) -> World {
    let plan = plan_of(sc);
    let chain = build_chain("C02", keys, &plan);
    let mut forks = vec![];
    for f in 0..sc.n {
        let mut twin: Vec<Built> = vec![];
        for i in f..sc.n {
            let mut spec = plan.spec(i);
            spec.salt = 100 + f as u64;
            let parent = if i == f {
                if f == 0 { None } else { Some(block_id_of(&chain[f - 1].eh)) }
            } else {
                Some(block_id_of(&twin[i - f - 1].eh))
            };
            let b = build(keys, &spec, parent);
            must_validate("C02", "fork twin", &b.eh);
            let p = if i == f { if f == 0 { None } else { Some(&chain[f - 1]) } } else { Some(&twin[i - f - 1]) };
            if let Some(p) = p {
                must_verify("C02", "fork twin", &p.eh, &b.eh);
            }
            twin.push(b);
        }
        forks.push(twin);
    }
    World { sc: sc.clone(), chain, forks, plan }
}

#[derive(Clone, Copy, Debug, Serialize, Deserialize, PartialEq)]
enum Pert {
    ChainId,
    TimeEq,
    TimeMinus1ns,
    TimePlus1ns,
    NowPlus5s,
    NowPlus15s,
    NowPlus1h,
    ParentHash,
    OtherValidators,
    /// (trusted side) next_validators_hash flipped, re-signed
    NextValsFlipped,
    /// (untrusted side) re-parented onto the trusted header with `NextValsFlipped`
    ReparentOnFlipped,
}

const U_PERTS: [Pert; 10] = [
    Pert::ChainId,
    Pert::TimeEq,
    Pert::TimeMinus1ns,
    Pert::TimePlus1ns,
    Pert::NowPlus5s,
    Pert::NowPlus15s,
    Pert::NowPlus1h,
    Pert::ParentHash,
    Pert::OtherValidators,
    Pert::ReparentOnFlipped,
];

#[derive(Clone, Debug, Serialize, Deserialize, PartialEq)]
struct HRef {
    /// None = main chain, Some(f) = fork twin chain f
    fork: Option<usize>,
    /// 0-based height index
    idx: usize,
    /// perturbation and the main-chain index of the trusted header it is relative to
    pert: Option<(Pert, usize)>,
    /// commit entries signed by impostor keys under the validators' addresses
    impostor: bool,
}

fn href(fork: Option<usize>, idx: usize) -> HRef {
    HRef { fork, idx, pert: None, impostor: false }
}

struct Resolved {
    b: Built,
    impostor: bool,
    /// header time was placed after now + 10 s (by at least 5 s)
    future: bool,
    built_at: Instant,
}

fn flip(h: tendermint::hash::Hash) -> tendermint::hash::Hash {
    match h {
        tendermint::hash::Hash::Sha256(mut b) => {
            b[9] ^= 0x20;
            tendermint::hash::Hash::Sha256(b)
        }
        tendermint::hash::Hash::None => tendermint::hash::Hash::Sha256([9; 32]),
    }
}

fn resolve(keys: &Keys, w: &World, r: &HRef) -> Resolved {
    let mut b = match r.fork {
        None => w.chain[r.idx].clone(),
        Some(f) => w.forks[f][r.idx - f].clone(),
    };
    let mut future = false;
    if let Some((p, rel)) = r.pert {
        let t = &w.chain[rel];
        match p {
            Pert::ChainId => b.eh.header.chain_id = "lv-c02-other".to_string().try_into().unwrap(),
            Pert::TimeEq => b.eh.header.time = t.eh.header.time,
            Pert::TimeMinus1ns => b.eh.header.time = time_minus(t.eh.header.time, Duration::from_nanos(1)),
            Pert::TimePlus1ns => b.eh.header.time = time_plus(t.eh.header.time, Duration::from_nanos(1)),
            Pert::NowPlus5s => b.eh.header.time = time_plus(Time::now(), Duration::from_secs(5)),
            Pert::NowPlus15s => {
                b.eh.header.time = time_plus(Time::now(), Duration::from_secs(15));
                future = true;
            }
            Pert::NowPlus1h => {
                b.eh.header.time = time_plus(Time::now(), Duration::from_secs(3600));
                future = true;
            }
            Pert::ParentHash => {
                let mut id = b.eh.header.last_block_id.unwrap_or_default();
                id.hash = flip(id.hash);
                if id.part_set_header.total == 0 {
                    id.part_set_header = tendermint::block::parts::Header::new(1, sha(keys.seed, 55)).unwrap();
                }
                // height 1 must not name a parent to stay valid; leave it alone there
                if b.eh.header.height.value() > 1 {
                    b.eh.header.last_block_id = Some(id);
                }
            }
            Pert::OtherValidators => {
                let mut vals = b.vals.clone();
                vals[0].1 += 1;
                let (set, order) = make_set(keys, &vals);
                b.eh.validator_set = set;
                b.order = order;
                b.vals = vals;
                link(&mut b.eh);
            }
            Pert::NextValsFlipped => b.eh.header.next_validators_hash = flip(b.eh.header.next_validators_hash),
            Pert::ReparentOnFlipped => {
                let tp = resolve(keys, w, &HRef { fork: None, idx: rel, pert: Some((Pert::NextValsFlipped, rel)), impostor: false });
                if b.eh.header.height.value() > 1 {
                    b.eh.header.last_block_id = Some(block_id_of(&tp.b.eh));
                }
            }
        }
        let votes = b.votes.clone();
        let order = b.order.clone();
        seal(keys, &mut b.eh, &order, &votes);
        must_validate("C02", &format!("perturbed header {p:?}"), &b.eh);
    }
    if r.impostor {
        let order = b.order.clone();
        for (idx, id) in order.iter().enumerate() {
            let real = keys.get(*id);
            let fake_key = keys.get(700 + *id);
            let fake = Val { id: real.id, sk: fake_key.sk, pk: real.pk, addr: real.addr };
            b.eh.commit.signatures[idx] = commit_entry(&b.eh, &fake, idx, b.vote_of(*id));
        }
    }
    Resolved { b, impostor: r.impostor, future, built_at: Instant::now() }
}

// ---------------------------------------------------------------------------------------
// oracle (from the statement)

/// `Ok(())` = the statement allows acceptance; `Err(reason)` = it forbids it.
fn oracle_verify(t: &Resolved, u: &Resolved) -> Result<(), &'static str> {
    let (th, uh) = (&t.b.eh.header, &u.b.eh.header);
    if uh.height.value() <= th.height.value() {
        return Err("height");
    }
    if uh.chain_id.as_str() != th.chain_id.as_str() {
        return Err("chain-id");
    }
    if uh.time.unix_timestamp_nanos() <= th.time.unix_timestamp_nanos() {
        return Err("time-order");
    }
    if u.future {
        return Err("time-future");
    }
    if uh.height.value() == th.height.value() + 1 {
        if uh.validators_hash != th.next_validators_hash {
            return Err("next-validators");
        }
        let parent = uh.last_block_id.map(|id| id.hash).unwrap_or_default();
        if parent != t.b.eh.commit.block_id.hash {
            return Err("parent-hash");
        }
        Ok(())
    } else {
        let total: u128 = t.b.total();
        let signed: u128 = t
            .b
            .vals
            .iter()
            .filter(|(id, _)| !u.impostor && u.b.order.contains(id) && u.b.vote_of(*id) == VoteKind::Commit)
            .map(|(_, p)| *p as u128)
            .sum();
        if 3 * signed > total { Ok(()) } else { Err("trust-power") }
    }
}

fn oracle_range(t: &Resolved, list: &[Resolved], adjacent: bool) -> Result<(), &'static str> {
    let Some(first) = list.first() else { return Ok(()) };
    if adjacent && first.b.eh.height() != t.b.eh.height() + 1 {
        return Err("first-not-adjacent");
    }
    let mut prev = t;
    for (k, u) in list.iter().enumerate() {
        if k > 0 && u.b.eh.height() != prev.b.eh.height() + 1 {
            return Err("not-consecutive");
        }
        oracle_verify(prev, u)?;
        prev = u;
    }
    Ok(())
}

// ---------------------------------------------------------------------------------------
// evaluation

#[derive(Clone, Debug, Serialize, Deserialize)]
enum Case {
    Pair { t: HRef, u: HRef },
    List { t: HRef, list: Vec<HRef> },
}

fn judge(
    rep: &mut Report,
    fam: &str,
    key: u64,
    nontrivial: bool,
    want: Result<(), &'static str>,
    got: Result<celestia_types::Result<()>, String>,
    case: serde_json::Value,
) {
    let class = match &got {
        Err(_) => format!("{fam}:panic"),
        Ok(Ok(())) => format!("{fam}:accept"),
        Ok(Err(e)) => format!("{fam}:reject:{}", err_class(e)),
    };
    rep.case(key, &class, nontrivial);
    if rep.wants_sample() && nontrivial && key % 13 == 0 {
        rep.sample(|| json!({"case": case, "oracle": format!("{want:?}"), "result": class}));
    }
    match (got, want) {
        (Err(p), _) => rep.violation(&format!("{fam}-panic"), format!("panicked: {p}"), case),
        (Ok(Ok(())), Err(why)) => rep.violation(
            &format!("{fam}-accepted-unlinked:{why}"),
            format!("accepted although the statement's condition '{why}' does not hold"),
            case,
        ),
        (Ok(Err(e)), Ok(())) => rep.violation(
            &format!("{fam}-rejected-linked"),
            format!("rejected ({e}) although every condition of the statement holds"),
            case,
        ),
        _ => {}
    }
}

fn eval(keys: &Keys, w: &World, c: &Case, rep: &mut Report) {
    let cj = json!({"scenario": w.sc, "case": c, "seed": keys.seed});
    for attempt in 0..3 {
        match c {
            Case::Pair { t, u } => {
                let tr = resolve(keys, w, t);
                let ur = resolve(keys, w, u);
                let want = oracle_verify(&tr, &ur);
                let got = guard(|| tr.b.eh.verify(&ur.b.eh));
                let adj_want = if ur.b.eh.height() == tr.b.eh.height() + 1 { want } else { Err("not-adjacent") };
                let adj_got = guard(|| tr.b.eh.verify_adjacent(&ur.b.eh));
                // clock-relative cases must have been evaluated well inside their 5 s margin
                if ur.built_at.elapsed() > Duration::from_secs(2) && matches!(u.pert, Some((Pert::NowPlus5s | Pert::NowPlus15s | Pert::NowPlus1h, _))) {
                    if attempt == 2 {
                        machinery_error("C02", "clock-relative case could not be evaluated within 2 s of its construction");
                    }
                    continue;
                }
                let key = fnv64(format!("{:?}/{c:?}", w.sc).as_bytes());
                let nt = ur.b.eh.height() > tr.b.eh.height();
                judge(rep, "verify", key, nt, want, got, cj.clone());
                judge(rep, "verify_adjacent", key ^ 1, nt, adj_want, adj_got, cj.clone());
            }
            Case::List { t, list } => {
                let tr = resolve(keys, w, t);
                let rs: Vec<Resolved> = list.iter().map(|r| resolve(keys, w, r)).collect();
                let hs: Vec<ExtendedHeader> = rs.iter().map(|r| r.b.eh.clone()).collect();
                let key = fnv64(format!("{:?}/{c:?}", w.sc).as_bytes());
                let nt = list.len() >= 2;
                judge(rep, "verify_range", key, nt, oracle_range(&tr, &rs, false), guard(|| tr.b.eh.verify_range(&hs)), cj.clone());
                judge(
                    rep,
                    "verify_adjacent_range",
                    key ^ 1,
                    nt,
                    oracle_range(&tr, &rs, true),
                    guard(|| tr.b.eh.verify_adjacent_range(&hs)),
                    cj.clone(),
                );
            }
        }
        return;
    }
}

fn pair_cases(w: &World, with_perts: bool) -> Vec<Case> {
    let n = w.sc.n;
    let mut out = vec![];
    // simplest first: the main chain
    for i in 0..n {
        for j in 0..n {
            out.push(Case::Pair { t: href(None, i), u: href(None, j) });
        }
    }
    // impostor commits
    for i in 0..n {
        for j in i + 1..n {
            out.push(Case::Pair { t: href(None, i), u: HRef { fork: None, idx: j, pert: None, impostor: true } });
        }
    }
    // forks from every height, in both roles
    for f in 0..n {
        for i in 0..n {
            for j in f..n {
                out.push(Case::Pair { t: href(None, i), u: href(Some(f), j) });
                out.push(Case::Pair { t: href(Some(f), j), u: href(None, i) });
            }
        }
    }
    if with_perts {
        for i in 0..n {
            for j in i + 1..n {
                for p in U_PERTS {
                    let t = if p == Pert::ReparentOnFlipped {
                        HRef { fork: None, idx: i, pert: Some((Pert::NextValsFlipped, i)), impostor: false }
                    } else {
                        href(None, i)
                    };
                    out.push(Case::Pair { t, u: HRef { fork: None, idx: j, pert: Some((p, i)), impostor: false } });
                }
                // the trusted side alone perturbed
                out.push(Case::Pair {
                    t: HRef { fork: None, idx: i, pert: Some((Pert::NextValsFlipped, i)), impostor: false },
                    u: href(None, j),
                });
            }
            // same or lower height, but a later time (re-signed): only the height rule refuses these
            for j in 0..=i {
                for p in [Pert::TimePlus1ns, Pert::NowPlus5s] {
                    out.push(Case::Pair { t: href(None, i), u: HRef { fork: None, idx: j, pert: Some((p, i)), impostor: false } });
                }
            }
        }
    }
    out
}

fn list_cases(w: &World) -> Vec<Case> {
    let n = w.sc.n;
    let mut out = vec![];
    for a in 0..n {
        out.push(Case::List { t: href(None, a), list: vec![] });
        for s in 0..n {
            for e in s..n {
                let base: Vec<HRef> = (s..=e).map(|i| href(None, i)).collect();
                out.push(Case::List { t: href(None, a), list: base.clone() });
                for k in 0..base.len() {
                    // removed
                    if base.len() >= 2 {
                        let mut l = base.clone();
                        l.remove(k);
                        out.push(Case::List { t: href(None, a), list: l });
                    }
                    // duplicated
                    let mut l = base.clone();
                    l.insert(k, base[k].clone());
                    out.push(Case::List { t: href(None, a), list: l });
                    // swapped with the next
                    if k + 1 < base.len() {
                        let mut l = base.clone();
                        l.swap(k, k + 1);
                        out.push(Case::List { t: href(None, a), list: l });
                    }
                    // replaced by its fork twin
                    let mut l = base.clone();
                    l[k] = href(Some(s + k), s + k);
                    out.push(Case::List { t: href(None, a), list: l });
                    // tail replaced by the fork chain from there (a consistent fork)
                    let mut l = base.clone();
                    for (q, item) in l.iter_mut().enumerate().skip(k) {
                        *item = href(Some(s + k), s + q);
                    }
                    out.push(Case::List { t: href(None, a), list: l });
                }
            }
        }
    }
    out
}

fn scenarios(thorough: bool) -> Vec<Scenario> {
    let n = if thorough { 12 } else { 8 };
    let pas: Vec<[u64; 3]> = if thorough {
        vec![[1, 1, 1], [100, 100, 100], [101, 100, 99], [99, 100, 101], [98, 101, 101], [1, 2, 3], [3, 2, 1], [5, 1, 1]]
    } else {
        vec![[1, 1, 1], [100, 100, 100], [101, 100, 99], [98, 101, 101], [1, 2, 3]]
    };
    let mut out = vec![];
    // simplest first: nothing rotates away
    for weak in 0..3u8 {
        for pa in &pas {
            for mask in (0..8u8).rev() {
                out.push(Scenario { pa: *pa, mask, weak, n });
            }
        }
    }
    out
}

fn main() {
    let ctx = Ctx::from_args("C02");
    let thorough = !ctx.quick();
    let rep = if let Some(c) = ctx.replay_case() {
        let seed = c["seed"].as_u64().unwrap_or(ctx.seed);
        let keys = Keys::new(seed, 16);
        let sc: Scenario = serde_json::from_value(c["scenario"].clone()).unwrap();
        let case: Case = serde_json::from_value(c["case"].clone()).unwrap();
        let w = build_world(&keys, &sc);
        let mut rep = Report::new();
        eval(&keys, &w, &case, &mut rep);
        rep
    } else {
        let keys = Keys::new(ctx.seed, 16);
        let scs = scenarios(thorough);
        let jobs: Vec<(usize, Scenario)> = scs.iter().cloned().enumerate().collect();
        let mut rep = par_cases(jobs, |(k, sc), rep| {
            let w = build_world(&keys, &sc);
            // perturbations and lists on a covering subset of the worlds in quick, on all in thorough
            let with_perts = thorough || sc.weak == 0 && (sc.mask == 7 || sc.mask == 1 || sc.mask == 0);
            for c in pair_cases(&w, with_perts) {
                eval(&keys, &w, &c, rep);
            }
            let with_lists = if thorough { sc.weak == 0 || k % 5 == 0 } else { sc.weak == 0 && (sc.mask == 7 || sc.mask == 1) && k < 16 };
            if with_lists {
                for c in list_cases(&w) {
                    eval(&keys, &w, &c, rep);
                }
            }
            let _ = &w.plan;
        });
        rep.extra("worlds", json!(scs.len()));
        rep
    };
    finish(
        &ctx,
        rep,
        Spec {
            rule: "worlds: chain of N headers (quick 8, thorough 12), validator set A={0,1,2} with powers from {1/1/1, 100/100/100, 101/100/99, 98/101/101, 1/2/3 (+99/100/101, 3/2/1, 5/1/1 thorough)}, rotating at two heights to B = (every subset of A, 8 masks) + fresh validators (4 x power 10) and back to A, the lowest kept validator voting commit / nil / absent during B; a fork twin chain from every height. PAIRS (verify and verify_adjacent on each): every (i,j) of the chain incl. j<=i; every (chain i, fork f header j) in both roles; impostor-signed untrusted headers; and, re-signed so that they validate, the untrusted header with another chain id, time = trusted / -1ns / +1ns / now+5s / now+15s / now+1h, flipped parent hash, another validator set, headers of the same or a lower height with a later time, and the trusted header with flipped next_validators_hash (with and without re-parenting the untrusted one). LISTS (verify_range and verify_adjacent_range on each): for every trusted index a: the empty list, every contiguous sub-list s..=e, and each of them with one element removed / duplicated / swapped with the next / replaced by its fork twin / tail replaced by the consistent fork. distinct = (world, case, function); non-trivial = untrusted height above the trusted one, lists of >= 2 elements",
            assumptions: &[
                "VerifiedExtendedHeaders::try_from (lumina-node) is `head.verify_adjacent_range(&headers[1..])`; lv-types does not link lumina-node, so it is covered through verify_adjacent_range with the same lists (the node-side store checks exercise try_from itself)",
                "Time::now() cannot be seamed: clock-relative headers are built and verified within 2 s, 5 s away from the 10 s drift edge on both sides; the exact edge instant is not checked; all other header times lie in 2024",
                "verify() does not validate; perturbed headers are re-signed so that the perturbation is the only difference, impostor commits are the exception (adjacent verification never looks at signatures, by the statement)",
                "VERIF_SEED selects key material and hash payloads only",
            ],
            required_classes: &[
                "verify:accept",
                // whatever error kind the code reports (the statement only says "succeeds only if")
                "verify:reject*",
                "verify_adjacent:accept",
                "verify_adjacent:reject*",
                "verify_range:accept",
                "verify_range:reject*",
                "verify_adjacent_range:accept",
                "verify_adjacent_range:reject*",
            ],
            exhaustive: true,
        },
    );
}
