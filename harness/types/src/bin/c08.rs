//! C08 — The extended square is a two-dimensional erasure code.   (engine E1)
//!
//! Part A (valid squares): original squares built by `shared/square.rs` are handed to the
//! real `ExtendedDataSquare::from_ods`; the result must (1) exist, (2) keep the original
//! square as first quadrant, (3) equal the harness' own extension, which encodes the fourth
//! quadrant from the *second* one by columns (lumina: from the third by rows), and (4) have
//! every row and column reconstructible by `leopard_codec::reconstruct` from each
//! enumerated erasure pattern that keeps exactly half of the shares.
//! Part B (malformed inputs) : every listed malformation of the input of `from_ods` and of
//! `new` must give `Err` — never `Ok`, never a panic.
#[path = "../shared/square.rs"]
mod square;

use celestia_types::{AppVersion, ExtendedDataSquare};
use lv_core::*;
use serde::{Deserialize, Serialize};
use serde_json::{Value, json};
use square::*;

const RULE: &str = "A: original squares of width k in {1,2,4,8,16} (quick) / {1,2,4,8,16,32} x 2 namespace layouts, + k=64 (thorough), app version V2 (and V7 for k<=2): from_ods must succeed, first quadrant == input, all cells == harness extension (Q4 from Q2 by columns), and for every row and every column every erasure pattern keeping exactly k of 2k shares — all C(2k,k) patterns for 2k<=8 (quick) / 2k<=16 (thorough), beyond that left/right halves, even/odd, every contiguous k-window, every 'k-1 from the left + one from the right half' — reconstructs to the full axis. \
B: malformed inputs of from_ods (original-square level) and new (extended level), each must be Err: share counts that are not squares, squares of non-power-of-two width, empty input, width above the app version's bound, one share (every position; widths <=4 quick, <=8 thorough) or all shares of length 0/64/511/513, every adjacent pair of different namespaces swapped along a row / a column plus explicit grids whose disorder is visible only along a row / only along a column: the 2x2 ones and, for k=4 and 8, every single-cell dip at every position (below the cell directly above / left of it but not below the first cell of that column / row), share version 1 below app V3 (every position; the same input must be accepted from V3 on). \
distinct = (input description); non-trivial = A: reconstruction from a pattern that drops at least one original share, B: inputs whose shape passes the first size check";

fn ver(v: u64) -> AppVersion {
    AppVersion::from_u64(v).expect("app version")
}

#[derive(Clone, Debug, Serialize, Deserialize)]
enum Mutn {
    /// the input as built (valid)
    None,
    /// first `n` shares of a uniform square large enough
    Count { n: usize },
    /// one share resized
    ShareLen { pos: usize, len: usize },
    AllLen { len: usize },
    /// swap positions a and b of the row-major list
    Swap { a: usize, b: usize },
    /// info byte of share `pos` set to share version 1
    ShareVersion1 { pos: usize },
}

#[derive(Clone, Debug, Serialize, Deserialize)]
struct Malformed {
    /// "from_ods" | "new"
    target: String,
    /// width of the base square at the level of the target (k for from_ods, w=2k for new)
    width: usize,
    layout: usize,
    /// explicit namespace-id grid for the original quadrant instead of a layout
    #[serde(default)]
    grid: Option<Vec<u8>>,
    mutn: Mutn,
    app: u64,
    expect_ok: bool,
}

fn base_input(m: &Malformed, seed: u64) -> Vec<Vec<u8>> {
    let k = if m.target == "new" { m.width / 2 } else { m.width };
    let ods: Vec<Vec<u8>> = match &m.grid {
        Some(g) => {
            let mut fill = Fill::new(seed, 0xC08);
            g.iter().map(|id| data_share(&ns_v0(*id), 0, &mut fill)).collect()
        }
        None => build_ods(k, m.layout, seed),
    };
    if m.target == "new" { extend(&ods, k) } else { ods }
}

fn build_malformed(m: &Malformed, seed: u64) -> Vec<Vec<u8>> {
    match &m.mutn {
        Mutn::Count { n } => {
            // shape only: uniform shares, no base square needed
            let mut fill = Fill::new(seed, 0xC0);
            let one = data_share(&ns_v0(7), 0, &mut fill);
            vec![one; *n]
        }
        other => {
            let mut v = base_input(m, seed);
            match other {
                Mutn::None | Mutn::Count { .. } => {}
                Mutn::ShareLen { pos, len } => v[*pos].resize(*len, 0),
                Mutn::AllLen { len } => v.iter_mut().for_each(|s| s.resize(*len, 0)),
                Mutn::Swap { a, b } => v.swap(*a, *b),
                Mutn::ShareVersion1 { pos } => v[*pos][oracle::NS] = 1 << 1,
            }
            v
        }
    }
}

fn eval_malformed(m: &Malformed, seed: u64, rep: &mut Report) {
    let input = build_malformed(m, seed);
    let n = input.len();
    let app = ver(m.app);
    let res = guard(|| {
        if m.target == "new" {
            ExtendedDataSquare::new(input, "Leopard".into(), app).map(|_| ()).map_err(|e| e.to_string())
        } else {
            ExtendedDataSquare::from_ods(input, app).map(|_| ()).map_err(|e| e.to_string())
        }
    });
    let kind = match &m.mutn {
        Mutn::None if m.grid.is_some() => "grid",
        Mutn::None => "valid",
        Mutn::Count { .. } => "count",
        Mutn::ShareLen { .. } | Mutn::AllLen { .. } => "share-size",
        Mutn::Swap { .. } => "unsorted",
        Mutn::ShareVersion1 { .. } => "share-version",
    };
    let outcome = match &res {
        Err(_) => "panic",
        Ok(Ok(())) => "ok",
        Ok(Err(_)) => "err",
    };
    let class = format!("B/{}/{kind}/{outcome}", m.target);
    let case = json!({"seed": seed, "malformed": m});
    let key = fnv64(serde_json::to_string(m).unwrap().as_bytes());
    let sq = (n as f64).sqrt() as usize;
    rep.case(key, &class, sq * sq == n && n > 0);
    if rep.wants_sample() && key % 211 == 0 {
        rep.sample(|| json!({"case": case, "outcome": outcome, "detail": format!("{res:?}")}));
    }
    match res {
        Err(p) => rep.violation(
            &format!("{}-panicked:{kind}", m.target.replace('_', "-")),
            format!("ExtendedDataSquare::{} panicked on {n} shares ({:?}): {p}", m.target, m.mutn),
            case,
        ),
        Ok(Ok(())) if !m.expect_ok => rep.violation(
            &format!("{}-accepted-malformed:{kind}", m.target.replace('_', "-")),
            format!("ExtendedDataSquare::{} accepted a malformed input ({:?}, app v{})", m.target, m.mutn, m.app),
            case,
        ),
        Ok(Err(e)) if m.expect_ok => rep.violation(
            &format!("{}-refused-valid:{kind}", m.target.replace('_', "-")),
            format!("ExtendedDataSquare::{} refused a valid input ({:?}, app v{}): {e}", m.target, m.mutn, m.app),
            case,
        ),
        _ => {}
    }
}

fn malformed_cases(tier: Tier) -> Vec<Malformed> {
    let mut out = vec![];
    let mk = |target: &str, width: usize, layout: usize, mutn: Mutn, app: u64, expect_ok: bool| Malformed {
        target: target.into(),
        width,
        layout,
        grid: None,
        mutn,
        app,
        expect_ok,
    };
    // --- shapes
    let non_squares = [0usize, 2, 3, 5, 6, 7, 8, 10, 12, 15, 17, 24, 32, 63, 65, 128];
    for n in non_squares {
        out.push(mk("from_ods", 0, 0, Mutn::Count { n }, 2, false));
        out.push(mk("new", 0, 0, Mutn::Count { n }, 2, false));
    }
    // 1 share is a square, but below the minimum for `new`
    out.push(mk("new", 0, 0, Mutn::Count { n: 1 }, 2, false));
    for w in [3usize, 5, 6, 7, 9, 10, 12] {
        out.push(mk("from_ods", 0, 0, Mutn::Count { n: w * w }, 2, false));
        out.push(mk("new", 0, 0, Mutn::Count { n: w * w }, 2, false));
    }
    // above the bound of the app version (original width 128 for V1..V5): next power of two
    let big_apps: &[u64] = tier.pick(&[2][..], &[1, 2, 5][..]);
    for &app in big_apps {
        out.push(mk("from_ods", 0, 0, Mutn::Count { n: 256 * 256 }, app, false));
    }
    if tier == Tier::Thorough {
        out.push(mk("new", 0, 0, Mutn::Count { n: 512 * 512 }, 2, false));
    }
    // --- per-share malformations on valid bases
    for target in ["from_ods", "new"] {
        let widths: &[usize] = if target == "new" { &[2, 4, 8] } else { &[1, 2, 4] };
        for &width in widths {
            let k = if target == "new" { width / 2 } else { width };
            for layout in 0..2 {
                // the untouched base must be accepted (otherwise the Err below proves nothing)
                out.push(mk(target, width, layout, Mutn::None, 2, true));
                let n = width * width;
                if width <= tier.pick(4, 8) {
                    for pos in 0..n {
                        for len in [0usize, 64, 511, 513] {
                            out.push(mk(target, width, layout, Mutn::ShareLen { pos, len }, 2, false));
                        }
                    }
                }
                for len in [0usize, 64, 448, 511, 513, 576] {
                    out.push(mk(target, width, layout, Mutn::AllLen { len }, 2, false));
                }
                // namespace disorder inside the original quadrant
                let base = mk(target, width, layout, Mutn::None, 2, true);
                let v = base_input(&base, 1);
                let nsb = |p: usize| v[p][..oracle::NS].to_vec();
                for r in 0..k {
                    for c in 0..k {
                        let p = r * width + c;
                        if c + 1 < k && nsb(p) != nsb(p + 1) {
                            out.push(mk(target, width, layout, Mutn::Swap { a: p, b: p + 1 }, 2, false));
                        }
                        if r + 1 < k && nsb(p) != nsb(p + width) {
                            out.push(mk(target, width, layout, Mutn::Swap { a: p, b: p + width }, 2, false));
                        }
                    }
                }
                // share version 1: refused below V3, accepted from V3 on
                for r in 0..k {
                    for c in 0..k {
                        let pos = r * width + c;
                        if v[pos][oracle::NS] != 0 {
                            continue; // keep tail padding untouched
                        }
                        for app in 1..=7u64 {
                            out.push(mk(target, width, layout, Mutn::ShareVersion1 { pos }, app, app >= 3));
                        }
                    }
                }
            }
        }
        // explicit 2x2 grids: disorder visible only along a row / only along a column
        let w = if target == "new" { 4 } else { 2 };
        for (grid, ok) in [
            (vec![1u8, 2, 1, 3], true),
            (vec![2, 1, 2, 3], false),
            (vec![2, 2, 1, 3], false),
            (vec![1, 2, 1, 1], false),
        ] {
            let mut m = mk(target, w, 0, Mutn::None, 2, ok);
            m.grid = Some(grid);
            out.push(m);
        }
        // k x k grids (k = 4, 8) with a SINGLE cell out of order, visible only along its
        // column (the cell is below the one directly above it but not below the top of the
        // column from row 2 on, and its row stays sorted) or only along its row (mirror
        // image): every cell position.  The untouched grid must be accepted.
        for k in [4usize, 8] {
            let w = if target == "new" { 2 * k } else { k };
            // column family: ns(r,c) = 2r + 20c, cell (r,c) lowered to 2r - 3 + 20c (r >= 1)
            let col_base: Vec<u8> = (0..k * k).map(|i| (2 * (i / k) + 20 * (i % k)) as u8 + 3).collect();
            // row family: ns(r,c) = 20r + 2c, cell (r,c) lowered to 20r + 2c - 3 (c >= 1)
            let row_base: Vec<u8> = (0..k * k).map(|i| (20 * (i / k) + 2 * (i % k)) as u8 + 3).collect();
            for base in [&col_base, &row_base] {
                let mut m = mk(target, w, 0, Mutn::None, 2, true);
                m.grid = Some(base.clone());
                out.push(m);
            }
            for r in 0..k {
                for c in 0..k {
                    if r >= 1 {
                        let mut g = col_base.clone();
                        g[r * k + c] -= 3;
                        let mut m = mk(target, w, 0, Mutn::None, 2, false);
                        m.grid = Some(g);
                        out.push(m);
                    }
                    if c >= 1 {
                        let mut g = row_base.clone();
                        g[r * k + c] -= 3;
                        let mut m = mk(target, w, 0, Mutn::None, 2, false);
                        m.grid = Some(g);
                        out.push(m);
                    }
                }
            }
        }
    }
    out
}

// ---------------------------------------------------------------------------------------
// Part A

#[derive(Clone, Debug, Serialize, Deserialize)]
struct ValidSpec {
    k: usize,
    layout: usize,
    app: u64,
}

fn patterns(w: usize, tier: Tier) -> Vec<Vec<bool>> {
    let k = w / 2;
    let all_limit = tier.pick(8, 16);
    if w <= all_limit {
        return k_subsets(w, k).into_iter().map(|m| (0..w).map(|j| m >> j & 1 == 1).collect()).collect();
    }
    let mut out: Vec<Vec<bool>> = vec![];
    out.push((0..w).map(|j| j < k).collect());
    out.push((0..w).map(|j| j >= k).collect());
    out.push((0..w).map(|j| j % 2 == 0).collect());
    out.push((0..w).map(|j| j % 2 == 1).collect());
    for s in 1..k {
        out.push((0..w).map(|j| j >= s && j < s + k).collect());
    }
    for x in k..w {
        out.push((0..w).map(|j| j < k - 1 || j == x).collect());
    }
    out
}

/// One reconstruction: keep `mask` of `axis`, rebuild, compare.  Returns an error text.
fn reconstructs(axis: &[Vec<u8>], mask: &[bool]) -> Result<(), String> {
    let k = axis.len() / 2;
    let mut kept: Vec<Vec<u8>> = axis.iter().zip(mask).map(|(s, m)| if *m { s.clone() } else { vec![] }).collect();
    leopard_codec::reconstruct(&mut kept, k).map_err(|e| format!("reconstruct failed: {e}"))?;
    // reconstruct restores every missing share, original and parity
    for (j, want) in axis.iter().enumerate() {
        if &kept[j] != want {
            return Err(format!("share {j} differs after reconstruction"));
        }
    }
    Ok(())
}

fn mask_str(m: &[bool]) -> String {
    m.iter().map(|b| if *b { '1' } else { '0' }).collect()
}

fn eval_valid(spec: &ValidSpec, only: Option<&Value>, seed: u64, tier: Tier) -> Report {
    let k = spec.k;
    let w = 2 * k;
    let ods = build_ods(k, spec.layout, seed);
    let mut rep = Report::new();
    let base_case = json!({"seed": seed, "valid": spec});
    let key_of = |what: &str| fnv64(format!("{k}/{}/{}/{what}", spec.layout, spec.app).as_bytes());
    let res = guard(|| ExtendedDataSquare::from_ods(ods.clone(), ver(spec.app)).map_err(|e| e.to_string()));
    let eds = match res {
        Err(p) => {
            rep.case(key_of("from_ods"), "A/from_ods/panic", true);
            rep.violation("from-ods-panicked:valid", format!("from_ods panicked on a valid {k}x{k} square: {p}"), base_case);
            return rep;
        }
        Ok(Err(e)) => {
            rep.case(key_of("from_ods"), "A/from_ods/err", true);
            rep.violation("from-ods-refused-valid:valid", format!("from_ods refused a valid {k}x{k} square: {e}"), base_case);
            return rep;
        }
        Ok(Ok(eds)) => {
            rep.case(key_of("from_ods"), "A/from_ods/ok", true);
            eds
        }
    };
    // the cells as lumina holds them
    let cells: Vec<Vec<u8>> = eds.data_square().iter().map(|s| s.as_ref().to_vec()).collect();
    if usize::from(eds.square_width()) != w || cells.len() != w * w {
        rep.violation(
            "wrong-extended-width",
            format!("extended width {} / {} cells for original width {k}", eds.square_width(), cells.len()),
            base_case,
        );
        return rep;
    }
    // first quadrant
    let q1_ok = (0..k).all(|r| (0..k).all(|c| cells[r * w + c] == ods[r * k + c]));
    rep.case(key_of("q1"), if q1_ok { "A/first-quadrant/kept" } else { "A/first-quadrant/changed" }, true);
    if !q1_ok {
        rep.violation("first-quadrant-changed", "the first quadrant of the extended square is not the original square".into(), base_case.clone());
    }
    // equality with the harness extension (different pass order)
    let mine = extend(&ods, k);
    let same = mine == cells;
    rep.case(key_of("ext"), if same { "A/extension/equal" } else { "A/extension/differs" }, true);
    if !same {
        let p = (0..w * w).find(|p| mine[*p] != cells[*p]).unwrap();
        rep.violation(
            "extension-differs-from-column-first-encoding",
            format!("cell ({}, {}) differs from the square extended with Q4 encoded from Q2 by columns", p / w, p % w),
            base_case.clone(),
        );
    }
    // accessors agree with the cells
    let acc_ok = (0..w).all(|i| {
        let row: Vec<Vec<u8>> = eds.row(i as u16).unwrap().iter().map(|s| s.as_ref().to_vec()).collect();
        let col: Vec<Vec<u8>> = eds.column(i as u16).unwrap().iter().map(|s| s.as_ref().to_vec()).collect();
        row == (0..w).map(|c| cells[i * w + c].clone()).collect::<Vec<_>>()
            && col == (0..w).map(|r| cells[r * w + i].clone()).collect::<Vec<_>>()
    });
    rep.case(key_of("acc"), if acc_ok { "A/accessors/agree" } else { "A/accessors/differ" }, false);
    if !acc_ok {
        rep.violation("row-column-accessors-differ", "row()/column() do not return the cells of data_square()".into(), base_case.clone());
    }
    // every axis, every pattern
    let pats = patterns(w, tier);
    let axes: Vec<(Ax, usize)> = [Ax::Row, Ax::Col].into_iter().flat_map(|a| (0..w).map(move |i| (a, i))).collect();
    let only_axis = only.and_then(|o| o.get("axis")).map(|a| (Ax::from_i(a[0].as_u64().unwrap()), a[1].as_u64().unwrap() as usize));
    let only_mask = only.and_then(|o| o.get("mask")).and_then(|m| m.as_str()).map(|s| s.chars().map(|c| c == '1').collect::<Vec<bool>>());
    let sub = par_cases(axes, |(ax, i), rep| {
        if only_axis.is_some_and(|oa| oa != (ax, i)) {
            return;
        }
        let axis: Vec<Vec<u8>> = (0..w)
            .map(|j| {
                let (r, c) = Sq::coord(ax, i, j);
                cells[r * w + c].clone()
            })
            .collect();
        let run = |mask: &Vec<bool>, rep: &mut Report| {
            let ms = mask_str(mask);
            let key = fnv64(format!("{k}/{}/{}/{}/{i}/{ms}", spec.layout, spec.app, ax as u8).as_bytes());
            let drops_original = mask[..k].iter().any(|m| !m);
            match reconstructs(&axis, mask) {
                Ok(()) => rep.case(key, "A/axis/reconstructs", drops_original),
                Err(e) => {
                    rep.case(key, "A/axis/not-a-codeword", drops_original);
                    rep.violation(
                        if ax == Ax::Row { "row-not-a-codeword" } else { "column-not-a-codeword" },
                        format!("{} {i} of the {w}x{w} extended square: keeping shares {ms}: {e}", if ax == Ax::Row { "row" } else { "column" }),
                        json!({"seed": seed, "valid": spec, "only": {"axis": [ax as u8, i], "mask": ms}}),
                    );
                }
            }
            if rep.wants_sample() && key % 4099 == 0 {
                rep.sample(|| json!({"valid": spec, "axis": [ax as u8, i], "kept": ms, "result": "reconstructs"}));
            }
        };
        match &only_mask {
            Some(m) => run(m, rep),
            None => pats.iter().for_each(|m| run(m, rep)),
        }
    });
    rep.merge_in(sub);
    rep
}

fn valid_specs(tier: Tier) -> Vec<ValidSpec> {
    let mut v = vec![];
    let ks: &[usize] = tier.pick(&[1, 2, 4, 8, 16][..], &[1, 2, 4, 8, 16, 32][..]);
    for &k in ks {
        for layout in 0..2 {
            v.push(ValidSpec { k, layout, app: 2 });
            if k <= 2 {
                v.push(ValidSpec { k, layout, app: 7 });
            }
        }
    }
    if tier == Tier::Thorough {
        v.push(ValidSpec { k: 64, layout: 0, app: 2 });
        v.push(ValidSpec { k: 64, layout: 1, app: 2 });
    }
    v
}

fn main() {
    let ctx = Ctx::from_args("C08");
    let spec = Spec {
        rule: RULE,
        assumptions: &[
            "VERIF_SEED only selects share payload bytes",
            "the codeword oracle is leopard_codec::reconstruct/encode called independently by the harness (same GF(2^8) codec as lumina; a defect common to its encoder and decoder is out of reach)",
            "widths above 128 (legal from app V6) are outside the statement's bound 1..64 and not examined; leopard-codec 0.2 cannot encode them",
        ],
        required_classes: &[
            "A/from_ods/ok",
            "A/first-quadrant/kept",
            "A/extension/equal",
            "A/axis/reconstructs",
            "B/from_ods/valid/ok",
            "B/new/valid/ok",
            "B/from_ods/count/err",
            "B/new/count/err",
            "B/from_ods/share-size/err",
            "B/new/share-size/err",
            "B/from_ods/unsorted/err",
            "B/new/unsorted/err",
            "B/from_ods/share-version/err",
            "B/from_ods/share-version/ok",
            "B/new/share-version/err",
            "B/new/share-version/ok",
        ],
        exhaustive: true,
    };
    if let Some(c) = ctx.replay_case() {
        let seed = c["seed"].as_u64().unwrap_or(ctx.seed);
        let rep = if c.get("malformed").is_some() {
            let m: Malformed = serde_json::from_value(c["malformed"].clone())
                .unwrap_or_else(|e| machinery_error(&ctx.id, &format!("bad replay case: {e}")));
            let mut rep = Report::new();
            eval_malformed(&m, seed, &mut rep);
            rep
        } else {
            let v: ValidSpec = serde_json::from_value(c["valid"].clone())
                .unwrap_or_else(|e| machinery_error(&ctx.id, &format!("bad replay case: {e}")));
            eval_valid(&v, c.get("only"), seed, ctx.tier)
        };
        println!("REPLAY-OUTCOME {:?}", rep.classes.keys().collect::<Vec<_>>());
        finish(&ctx, rep, spec);
    }

    let seed = ctx.seed;
    // B first: the inputs are the small ones
    let mut rep = par_cases(malformed_cases(ctx.tier), |m, rep| eval_malformed(&m, seed, rep));
    for v in valid_specs(ctx.tier) {
        if ctx.elapsed_s() > ctx.tier.pick(300.0, 2400.0) {
            rep.cap_hit("wall cap: remaining valid squares skipped");
            break;
        }
        rep.merge_in(eval_valid(&v, None, seed, ctx.tier));
    }
    finish(&ctx, rep, spec);
}
