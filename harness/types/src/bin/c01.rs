//! C01 — Header validation binds signatures, validator set and DAH.   (engine E1)
//!
//! Space: honest multi-validator chains from the deterministic chain builder (every header
//! self-checked by the real `validate()`/`verify()`), and **every single-field mutation**
//! of every family named in the statement, at every position where it applies.
//! Oracle (from the statement): an unmutated header validates (also after an
//! encode/decode round trip); a mutated one must not — except mutations whose result is
//! itself an honestly signed header (a vote dropped to "absent", an absent validator's
//! genuine vote added), which must be accepted exactly when the remaining committing power
//! is above two thirds.
#[path = "../shared/chain.rs"]
mod chain;

use chain::*;
use celestia_types::nmt::{NamespacedHash, NamespacedHashExt};
use celestia_types::{DataAvailabilityHeader, ExtendedHeader};
use lv_core::*;
use serde::{Deserialize, Serialize};
use serde_json::json;
use std::collections::BTreeMap;
use std::time::Duration;
use tendermint::block::{CommitSig, Id as BlockId, parts};
use tendermint::hash::Hash;
use tendermint::validator::Info;
use tendermint::{Signature, account};
use tendermint_proto::Protobuf;

// ---------------------------------------------------------------------------------------
// chains

#[derive(Clone, Debug, Serialize, Deserialize, PartialEq)]
struct Cfg {
    n: usize,
    /// 0 equal, 1 one validator above 2/3, 2 one validator at exactly 2/3, 3 ramp 1..n
    fam: u8,
    app: u64,
    /// index into the DAH cycle for height 1
    dah0: usize,
}

const DAHS: [DahSpec; 7] = [
    DahSpec::Synthetic(2),
    DahSpec::Eds(1),
    DahSpec::Synthetic(4),
    DahSpec::Eds(2),
    DahSpec::Synthetic(8),
    DahSpec::Eds(4),
    DahSpec::Synthetic(16),
];
const HEIGHTS: usize = 3;

fn powers(n: usize, fam: u8) -> Vec<u64> {
    let rest = 10 * (n as u64 - 1);
    match fam {
        0 => vec![10; n],
        1 => {
            let mut v = vec![10; n];
            v[0] = 2 * rest + 1;
            v
        }
        2 => {
            let mut v = vec![10; n];
            v[0] = (2 * rest).max(1);
            v
        }
        _ => (1..=n as u64).collect(),
    }
}

/// Marks up to `want` validators (lowest power first) as not committing, as long as the
/// committing power stays above two thirds.
fn vote_plan(p: &[u64], kinds: &[VoteKind]) -> BTreeMap<u32, VoteKind> {
    let total: u128 = p.iter().map(|x| *x as u128).sum();
    let mut ids: Vec<usize> = (0..p.len()).collect();
    ids.sort_by_key(|i| (p[*i], std::cmp::Reverse(*i)));
    let mut committing = total;
    let mut out = BTreeMap::new();
    let mut k = 0;
    for i in ids {
        if k == kinds.len() {
            break;
        }
        if 3 * (committing - p[i] as u128) > 2 * total {
            committing -= p[i] as u128;
            out.insert(i as u32, kinds[k]);
            k += 1;
        }
    }
    out
}

fn plan_of(cfg: &Cfg) -> ChainPlan {
    let p = powers(cfg.n, cfg.fam);
    let set: Vec<(u32, u64)> = p.iter().enumerate().map(|(i, x)| (i as u32, *x)).collect();
    ChainPlan {
        chain_id: "lv-c01".into(),
        app: cfg.app,
        salt: 1,
        sets: vec![set; HEIGHTS + 1],
        votes: vec![
            BTreeMap::new(),
            vote_plan(&p, &[VoteKind::Nil]),
            vote_plan(&p, &[VoteKind::Absent, VoteKind::Nil]),
        ],
        dah: (0..HEIGHTS).map(|h| DAHS[(cfg.dah0 + h) % DAHS.len()]).collect(),
        block_secs: 12,
    }
}

fn configs(thorough: bool) -> Vec<Cfg> {
    let mut out: Vec<Cfg> = vec![];
    let nmax = if thorough { 8 } else { 5 };
    let mut k = 0usize;
    for n in 1..=nmax {
        for fam in 0..4u8 {
            if n == 1 && fam > 0 {
                continue; // a single validator: all families coincide
            }
            for app in 1..=7u64 {
                // quick: one DAH cycle offset per chain (all 7 offsets occur); thorough: all 7
                let offs: Vec<usize> = if thorough { (0..DAHS.len()).collect() } else { vec![(3 * k) % DAHS.len()] };
                for dah0 in offs {
                    out.push(Cfg { n, fam, app, dah0 });
                }
                k += 1;
            }
        }
    }
    out
}

// ---------------------------------------------------------------------------------------
// mutations

#[derive(Clone, Debug, Serialize, Deserialize, PartialEq)]
struct Mutation {
    family: String,
    idx: usize,
    variant: u32,
}

fn m(family: &str, idx: usize, variant: u32) -> Mutation {
    Mutation { family: family.into(), idx, variant }
}

#[derive(Clone, Copy, PartialEq, Debug)]
enum Slot {
    Honest(VoteKind),
    BadCommit,
    BadNil,
    AddrOnly,
}

enum Expect {
    Reject,
    /// the result is an honestly signed header: accept iff committing power > 2/3
    Variant(bool),
    /// not named by the statement: observed, nothing demanded
    Info,
}

struct Applied {
    eh: ExtendedHeader,
    expect: Expect,
    slots: Vec<Slot>,
}

fn flip_hash(h: Hash, pos: usize) -> Hash {
    match h {
        Hash::Sha256(mut b) => {
            b[pos % 32] ^= 1 << (pos % 8);
            Hash::Sha256(b)
        }
        Hash::None => Hash::Sha256([pos as u8 + 1; 32]),
    }
}

const HASH_POS: [usize; 3] = [0, 13, 31];

fn flip_addr(a: account::Id, pos: usize) -> account::Id {
    let mut b: [u8; 20] = a.as_bytes().try_into().unwrap();
    b[pos % 20] ^= 1 << (pos % 8);
    account::Id::new(b)
}

fn entry_parts(e: &CommitSig) -> Option<(VoteKind, account::Id, tendermint::Time, Option<Signature>)> {
    match e.clone() {
        CommitSig::BlockIdFlagAbsent => None,
        CommitSig::BlockIdFlagCommit { validator_address, timestamp, signature } => {
            Some((VoteKind::Commit, validator_address, timestamp, signature))
        }
        CommitSig::BlockIdFlagNil { validator_address, timestamp, signature } => {
            Some((VoteKind::Nil, validator_address, timestamp, signature))
        }
    }
}

fn entry_from(kind: VoteKind, a: account::Id, t: tendermint::Time, s: Option<Signature>) -> CommitSig {
    match kind {
        VoteKind::Commit => CommitSig::BlockIdFlagCommit { validator_address: a, timestamp: t, signature: s },
        VoteKind::Nil => CommitSig::BlockIdFlagNil { validator_address: a, timestamp: t, signature: s },
        VoteKind::Absent => CommitSig::BlockIdFlagAbsent,
    }
}

fn bad(kind: VoteKind) -> Slot {
    match kind {
        VoteKind::Commit => Slot::BadCommit,
        VoteKind::Nil => Slot::BadNil,
        VoteKind::Absent => Slot::Honest(VoteKind::Absent),
    }
}

fn dah_parts(d: &DataAvailabilityHeader) -> (Vec<NamespacedHash>, Vec<NamespacedHash>) {
    (d.row_roots().to_vec(), d.column_roots().to_vec())
}

/// All mutations applicable to `b`.
fn mutations(b: &Built) -> Vec<Mutation> {
    let mut out = vec![];
    let eh = &b.eh;
    // --- header fields
    out.push(m("hdr:version.block", 0, 0));
    for v in 0..4 {
        out.push(m("hdr:version.app", 0, v));
    }
    for v in 0..2 {
        out.push(m("hdr:chain_id", 0, v));
    }
    for v in 0..3 {
        out.push(m("hdr:height", 0, v));
    }
    for v in 0..2 {
        out.push(m("hdr:time", 0, v));
    }
    for v in 0..5 {
        out.push(m("hdr:last_block_id.hash", 0, v));
    }
    for v in 0..2 {
        out.push(m("hdr:last_block_id.parts", 0, v));
    }
    for f in [
        "hdr:last_commit_hash",
        "hdr:data_hash",
        "hdr:validators_hash",
        "hdr:next_validators_hash",
        "hdr:consensus_hash",
        "hdr:last_results_hash",
        "hdr:evidence_hash",
    ] {
        for v in 0..4 {
            out.push(m(f, 0, v));
        }
    }
    for v in 0..4 {
        out.push(m("hdr:app_hash", 0, v));
    }
    for v in 0..3 {
        out.push(m("hdr:proposer_address", 0, v));
    }
    // --- DAH
    let w = eh.dah.row_roots().len();
    for axis in 0..2usize {
        for i in 0..w {
            let idx = axis * w + i;
            for v in 0..4 {
                out.push(m("dah:root-bytes", idx, v)); // hash first/last byte, min ns, max ns
            }
            out.push(m("dah:root-remove", idx, 0));
            out.push(m("dah:root-duplicate", idx, 0));
            out.push(m("dah:root-swap-next", idx, 0));
        }
    }
    for i in 0..w {
        out.push(m("dah:row-col-exchange", i, 0));
    }
    out.push(m("dah:rows-cols-exchange", 0, 0));
    out.push(m("dah:append-both", 0, 0));
    out.push(m("dah:truncate-both", 0, 0));
    // --- validator set
    let n = b.order.len();
    for i in 0..n {
        for v in 0..2 {
            out.push(m("val:key", i, v));
        }
        for v in 0..4 {
            out.push(m("val:power", i, v));
        }
        out.push(m("val:remove", i, 0));
        out.push(m("val:swap-next", i, 0));
        out.push(m("info:val-address", i, 0));
    }
    for v in 0..2 {
        out.push(m("val:add", 0, v));
    }
    out.push(m("info:val-proposer", 0, 0));
    out.push(m("info:val-total-power", 0, 0));
    // --- commit
    for v in 0..4 {
        out.push(m("commit:block_id.hash", 0, v));
    }
    for v in 0..2 {
        out.push(m("commit:block_id.parts", 0, v));
    }
    for v in 0..2 {
        out.push(m("commit:height", 0, v));
    }
    out.push(m("commit:round", 0, 0));
    // --- commit signatures
    for i in 0..n {
        for v in 0..6 {
            out.push(m("sig:signature", i, v)); // byte 0, 31, 32, 63 flipped; none; signed by another
        }
        for v in 0..2 {
            out.push(m("sig:timestamp", i, v));
        }
        for v in 0..3 {
            out.push(m("sig:address", i, v));
        }
        for v in 0..4 {
            out.push(m("sig:flag", i, v));
        }
        out.push(m("sig:remove", i, 0));
        out.push(m("sig:duplicate", i, 0));
        out.push(m("sig:swap-next", i, 0));
    }
    out
}

/// Applies one mutation; `None` when it does not apply to this header or provably changes
/// nothing (counted as skipped).
fn apply(keys: &Keys, b: &Built, mu: &Mutation) -> Option<Applied> {
    let mut eh = b.eh.clone();
    let n = b.order.len();
    let mut slots: Vec<Slot> = b.order.iter().map(|id| Slot::Honest(b.vote_of(*id))).collect();
    let mut expect = Expect::Reject;
    let v = mu.variant;
    let i = mu.idx;
    let hdr = &mut eh.header;
    let opt_hash = |h: &mut Option<Hash>, v: u32| -> bool {
        match v {
            0..=2 => {
                *h = Some(flip_hash(h.unwrap_or_default(), HASH_POS[v as usize]));
                true
            }
            _ => {
                if h.unwrap_or_default() == Hash::None {
                    return false;
                }
                *h = None;
                true
            }
        }
    };
    let plain_hash = |h: &mut Hash, v: u32| -> bool {
        match v {
            0..=2 => {
                *h = flip_hash(*h, HASH_POS[v as usize]);
                true
            }
            _ => {
                if *h == Hash::None {
                    return false;
                }
                *h = Hash::None;
                true
            }
        }
    };
    match mu.family.as_str() {
        "hdr:version.block" => hdr.version.block += 1,
        "hdr:version.app" => {
            let new = match v {
                0 => hdr.version.app % 7 + 1,
                1 => 0,
                2 => 8,
                _ => u64::MAX,
            };
            hdr.version.app = new;
        }
        "hdr:chain_id" => {
            let s = if v == 0 { format!("{}x", hdr.chain_id) } else { "other-chain".to_string() };
            hdr.chain_id = s.try_into().ok()?;
        }
        "hdr:height" => {
            let h = hdr.height.value();
            let new = match v {
                0 => h + 1,
                1 => h.checked_sub(1)?,
                _ => h + 1000,
            };
            hdr.height = new.try_into().ok()?;
        }
        "hdr:time" => {
            hdr.time = if v == 0 {
                time_plus(hdr.time, Duration::from_nanos(1))
            } else {
                time_minus(hdr.time, Duration::from_secs(1))
            }
        }
        "hdr:last_block_id.hash" => match (hdr.last_block_id.as_mut(), v) {
            (Some(id), 0..=2) => id.hash = flip_hash(id.hash, HASH_POS[v as usize]),
            (Some(_), 3) => hdr.last_block_id = None,
            (None, 4) => {
                hdr.last_block_id = Some(BlockId {
                    hash: sha(keys.seed, 991),
                    part_set_header: parts::Header::new(1, sha(keys.seed, 992)).unwrap(),
                })
            }
            _ => return None,
        },
        "hdr:last_block_id.parts" => {
            let id = hdr.last_block_id.as_mut()?;
            if v == 0 {
                id.part_set_header = parts::Header::new(id.part_set_header.total + 1, id.part_set_header.hash).ok()?;
            } else {
                id.part_set_header = parts::Header::new(id.part_set_header.total, flip_hash(id.part_set_header.hash, 7)).ok()?;
            }
        }
        "hdr:last_commit_hash" => {
            if !opt_hash(&mut hdr.last_commit_hash, v) {
                return None;
            }
        }
        "hdr:data_hash" => {
            if !opt_hash(&mut hdr.data_hash, v) {
                return None;
            }
        }
        "hdr:last_results_hash" => {
            if !opt_hash(&mut hdr.last_results_hash, v) {
                return None;
            }
        }
        "hdr:evidence_hash" => {
            if !opt_hash(&mut hdr.evidence_hash, v) {
                return None;
            }
        }
        "hdr:validators_hash" => {
            if !plain_hash(&mut hdr.validators_hash, v) {
                return None;
            }
        }
        "hdr:next_validators_hash" => {
            if !plain_hash(&mut hdr.next_validators_hash, v) {
                return None;
            }
        }
        "hdr:consensus_hash" => {
            if !plain_hash(&mut hdr.consensus_hash, v) {
                return None;
            }
        }
        "hdr:app_hash" => {
            let mut bytes = hdr.app_hash.as_bytes().to_vec();
            match v {
                0 => bytes[0] ^= 1,
                1 => {
                    let l = bytes.len() - 1;
                    bytes[l] ^= 0x80
                }
                2 => {
                    bytes.pop();
                }
                _ => bytes.clear(),
            }
            hdr.app_hash = bytes.try_into().ok()?;
        }
        "hdr:proposer_address" => {
            hdr.proposer_address = match v {
                0 => flip_addr(hdr.proposer_address, 0),
                1 => flip_addr(hdr.proposer_address, 159),
                _ => {
                    if n < 2 {
                        return None;
                    }
                    keys.get(b.order[1]).addr
                }
            }
        }
        f if f.starts_with("dah:") => {
            let (mut rows, mut cols) = dah_parts(&eh.dah);
            let w = rows.len();
            let (axis, k) = (i / w, i % w);
            {
                let list = if axis == 0 { &mut rows } else { &mut cols };
                match f {
                    "dah:root-bytes" => {
                        let mut raw = list[k].to_array();
                        let pos = match v {
                            0 => 58,
                            1 => 89,
                            2 => 28,
                            _ => 57,
                        };
                        raw[pos] ^= 1;
                        list[k] = NamespacedHash::from_raw(&raw).ok()?;
                    }
                    "dah:root-remove" => {
                        list.remove(k);
                    }
                    "dah:root-duplicate" => {
                        let r = list[k].clone();
                        list.insert(k, r);
                    }
                    "dah:root-swap-next" => {
                        if k + 1 >= w || list[k] == list[k + 1] {
                            return None;
                        }
                        list.swap(k, k + 1);
                    }
                    _ => {}
                }
            }
            match f {
                "dah:row-col-exchange" => {
                    if rows[i] == cols[i] {
                        return None;
                    }
                    std::mem::swap(&mut rows[i], &mut cols[i]);
                }
                "dah:rows-cols-exchange" => {
                    if rows == cols {
                        return None;
                    }
                    std::mem::swap(&mut rows, &mut cols);
                }
                "dah:append-both" => {
                    let r = rows[w - 1].clone();
                    rows.push(r);
                    let c = cols[w - 1].clone();
                    cols.push(c);
                }
                "dah:truncate-both" => {
                    if w < 4 {
                        return None;
                    }
                    rows.truncate(w / 2);
                    cols.truncate(w / 2);
                }
                _ => {}
            }
            eh.dah = DataAvailabilityHeader::new_unchecked(rows, cols);
        }
        "val:key" => {
            let other = keys.get(300 + i as u32);
            let val = &mut eh.validator_set.validators[i];
            val.pub_key = other.pk;
            if v == 1 {
                val.address = other.addr;
            }
        }
        "val:power" => {
            let cur = eh.validator_set.validators[i].power.value();
            let new = if v % 2 == 0 { cur + 1 } else { cur.checked_sub(1).filter(|p| *p > 0)? };
            if v < 2 {
                eh.validator_set.validators[i].power = power(new);
            } else {
                let mut infos: Vec<Info> = eh.validator_set.validators.clone();
                infos[i].power = power(new);
                let prop = eh.validator_set.proposer.clone();
                eh.validator_set = celestia_types::ValidatorSet::new(infos, prop);
            }
        }
        "val:remove" => {
            if n < 2 {
                return None;
            }
            eh.validator_set.validators.remove(i);
        }
        "val:swap-next" => {
            if i + 1 >= n {
                return None;
            }
            eh.validator_set.validators.swap(i, i + 1);
        }
        "val:add" => {
            let extra = Info::new(keys.get(400).pk, power(1));
            if v == 0 {
                eh.validator_set.validators.push(extra);
            } else {
                let mut infos: Vec<Info> = eh.validator_set.validators.clone();
                infos.push(extra);
                let prop = eh.validator_set.proposer.clone();
                eh.validator_set = celestia_types::ValidatorSet::new(infos, prop);
            }
        }
        "info:val-address" => {
            eh.validator_set.validators[i].address = flip_addr(eh.validator_set.validators[i].address, 3);
            expect = Expect::Info;
        }
        "info:val-proposer" => {
            let mut p = eh.validator_set.proposer.clone()?;
            p.power = power(p.power.value() + 1);
            eh.validator_set.proposer = Some(p);
            expect = Expect::Info;
        }
        "info:val-total-power" => {
            eh.validator_set.total_voting_power = power(eh.validator_set.total_voting_power.value() * 3);
            expect = Expect::Info;
        }
        "commit:block_id.hash" => {
            if !plain_hash(&mut eh.commit.block_id.hash, v) {
                return None;
            }
        }
        "commit:block_id.parts" => {
            let p = eh.commit.block_id.part_set_header;
            eh.commit.block_id.part_set_header = if v == 0 {
                parts::Header::new(p.total + 1, p.hash).ok()?
            } else {
                parts::Header::new(p.total, flip_hash(p.hash, 21)).ok()?
            };
        }
        "commit:height" => {
            let h = eh.commit.height.value();
            let new = if v == 0 { h + 1 } else { h.checked_sub(1).filter(|x| *x > 0)? };
            eh.commit.height = new.try_into().ok()?;
        }
        "commit:round" => {
            eh.commit.round = (eh.commit.round.value() as u16 + 1).into();
        }
        f if f.starts_with("sig:") => {
            let me = keys.get(b.order[i]);
            let cur = eh.commit.signatures[i].clone();
            match f {
                "sig:signature" => {
                    let (kind, a, t, s) = entry_parts(&cur)?;
                    let new_sig = match v {
                        0..=3 => {
                            let mut bytes = s?.into_bytes();
                            bytes[[0usize, 31, 32, 63][v as usize]] ^= 0x04;
                            Some(Signature::new(bytes).ok()??)
                        }
                        4 => None,
                        _ => {
                            // the same canonical vote, signed by somebody else's key
                            let other = keys.get(500 + i as u32);
                            let bid = if kind == VoteKind::Commit { Some(eh.commit.block_id) } else { None };
                            let msg = sign_bytes(&eh.header.chain_id, eh.commit.height, eh.commit.round.value() as u16, bid, t, &other, i);
                            Some(sign(&other, &msg))
                        }
                    };
                    eh.commit.signatures[i] = entry_from(kind, a, t, new_sig);
                    slots[i] = bad(kind);
                }
                "sig:timestamp" => {
                    let (kind, a, t, s) = entry_parts(&cur)?;
                    let t2 = if v == 0 { time_plus(t, Duration::from_nanos(1)) } else { time_minus(t, Duration::from_millis(1)) };
                    eh.commit.signatures[i] = entry_from(kind, a, t2, s);
                    slots[i] = bad(kind);
                }
                "sig:address" => {
                    let (kind, a, t, s) = entry_parts(&cur)?;
                    let a2 = match v {
                        0 => flip_addr(a, 0),
                        1 => {
                            if n < 2 {
                                return None;
                            }
                            keys.get(b.order[(i + 1) % n]).addr
                        }
                        _ => keys.get(600).addr,
                    };
                    eh.commit.signatures[i] = entry_from(kind, a2, t, s);
                    slots[i] = Slot::AddrOnly;
                }
                "sig:flag" => {
                    let honest = b.vote_of(b.order[i]);
                    match (entry_parts(&cur), v) {
                        // commit -> nil / nil -> commit, signature kept
                        (Some((kind, a, t, s)), 0) => {
                            let to = if kind == VoteKind::Commit { VoteKind::Nil } else { VoteKind::Commit };
                            eh.commit.signatures[i] = entry_from(to, a, t, s);
                            slots[i] = bad(to);
                        }
                        // -> absent: an honest header in which this validator's vote is missing
                        (Some(_), 1) => {
                            eh.commit.signatures[i] = CommitSig::BlockIdFlagAbsent;
                            slots[i] = Slot::Honest(VoteKind::Absent);
                        }
                        // absent -> the validator's genuine commit vote
                        (None, 2) => {
                            eh.commit.signatures[i] = commit_entry(&eh, &me, i, VoteKind::Commit);
                            slots[i] = Slot::Honest(VoteKind::Commit);
                        }
                        // absent -> commit entry with a made-up signature
                        (None, 3) => {
                            let t = vote_time(eh.header.time, me.id);
                            let s = Signature::new(Fill::new(keys.seed, 77 + i as u64).bytes(64)).ok()?;
                            eh.commit.signatures[i] = entry_from(VoteKind::Commit, me.addr, t, s);
                            slots[i] = Slot::BadCommit;
                        }
                        _ => return None,
                    }
                    let _ = honest;
                }
                "sig:remove" => {
                    eh.commit.signatures.remove(i);
                    slots[i] = Slot::BadCommit;
                }
                "sig:duplicate" => {
                    eh.commit.signatures.insert(i, cur);
                    slots[i] = Slot::BadCommit;
                }
                "sig:swap-next" => {
                    if i + 1 >= n || eh.commit.signatures[i] == eh.commit.signatures[i + 1] {
                        return None;
                    }
                    eh.commit.signatures.swap(i, i + 1);
                    for k in [i, i + 1] {
                        slots[k] = match entry_parts(&eh.commit.signatures[k]) {
                            None => Slot::Honest(VoteKind::Absent),
                            Some((kind, ..)) => bad(kind),
                        };
                    }
                }
                _ => return None,
            }
            // a commit whose entries are all honest is itself an honest header
            if matches!(f, "sig:flag") && slots.iter().all(|s| matches!(s, Slot::Honest(_))) {
                let total: u128 = b.total();
                let committing: u128 = slots
                    .iter()
                    .zip(b.order.iter())
                    .filter(|(s, _)| **s == Slot::Honest(VoteKind::Commit))
                    .map(|(_, id)| b.power_of(*id).unwrap() as u128)
                    .sum();
                expect = Expect::Variant(3 * committing > 2 * total);
            }
        }
        _ => return None,
    }
    if eh == b.eh {
        return None;
    }
    Some(Applied { eh, expect, slots })
}

/// Names the failure when a mutated header was accepted.
fn accept_key(mu: &Mutation, b: &Built, slots: &[Slot]) -> String {
    if !mu.family.starts_with("sig:") || matches!(mu.family.as_str(), "sig:remove" | "sig:duplicate") {
        return format!("mutation-accepted:{}", mu.family);
    }
    let total = b.total();
    let mut tally: u128 = 0;
    let mut surplus_bad = false;
    let mut nil_bad = false;
    let mut addr = false;
    for (s, id) in slots.iter().zip(b.order.iter()) {
        let p = b.power_of(*id).unwrap() as u128;
        match s {
            Slot::Honest(VoteKind::Commit) => tally += p,
            Slot::Honest(_) => {}
            Slot::BadCommit => {
                if 3 * tally > 2 * total {
                    surplus_bad = true;
                } else {
                    // a light verifier walking the entries in order meets this one
                    return format!("mutation-accepted:{}", mu.family);
                }
            }
            Slot::BadNil => nil_bad = true,
            Slot::AddrOnly => addr = true,
        }
    }
    if addr {
        "commit-sig-address-unchecked".into()
    } else if surplus_bad {
        "surplus-commit-sig-unverified".into()
    } else if nil_bad {
        "nil-vote-unverified".into()
    } else {
        format!("mutation-accepted:{}", mu.family)
    }
}

fn roundtrip(eh: &ExtendedHeader) -> Result<Result<ExtendedHeader, String>, String> {
    guard(|| {
        let bytes = eh.clone().encode_vec();
        ExtendedHeader::decode_and_validate(&bytes).map_err(|e| e.to_string())
    })
}

fn eval_honest(cfg: &Cfg, h: usize, b: &Built, seed: u64, rep: &mut Report) {
    let case = json!({"cfg": cfg, "height": h + 1, "mutation": null, "seed": seed});
    let key = fnv64(format!("{cfg:?}/{h}/honest").as_bytes());
    let r1 = guard(|| b.eh.validate());
    let r2 = roundtrip(&b.eh);
    let ok = matches!(r1, Ok(Ok(()))) && matches!(&r2, Ok(Ok(d)) if *d == b.eh);
    rep.case(key, if ok { "honest:accept" } else { "honest:reject" }, true);
    if !ok {
        rep.violation(
            "honest-header-rejected",
            format!("honest header: validate = {:?}, decode_and_validate(encode) ok+equal = {}", r1.map(|r| r.map_err(|e| e.to_string())), matches!(&r2, Ok(Ok(d)) if *d == b.eh)),
            case,
        );
    }
}

fn eval_mutation(cfg: &Cfg, h: usize, b: &Built, keys: &Keys, mu: &Mutation, rep: &mut Report) {
    let key = fnv64(format!("{cfg:?}/{h}/{mu:?}").as_bytes());
    let Some(ap) = apply(keys, b, mu) else {
        rep.case(key, "skip:not-applicable-or-no-op", false);
        return;
    };
    let case = json!({"cfg": cfg, "height": h + 1, "mutation": mu, "seed": keys.seed});
    let r1 = guard(|| ap.eh.validate());
    let r2 = roundtrip(&ap.eh);
    let fam = mu.family.split(':').next().unwrap_or("?");
    let (accepted, class) = match &r1 {
        Err(_) => (false, format!("{fam}:panic")),
        Ok(Ok(())) => (true, format!("{fam}:accept")),
        Ok(Err(e)) => (false, format!("{fam}:reject:{}", err_class(e))),
    };
    let class = match ap.expect {
        Expect::Variant(_) => format!("variant:{}", if accepted { "accept" } else { "reject" }),
        Expect::Info => format!("{}:{}", mu.family, if accepted { "accept" } else { "reject" }),
        Expect::Reject => class,
    };
    rep.case(key, &class, !matches!(ap.expect, Expect::Info));
    if rep.wants_sample() && mu.idx == 1 && mu.variant == 1 {
        rep.sample(|| json!({"case": case, "result": class}));
    }
    if let Err(p) = &r1 {
        rep.violation("validate-panicked", format!("validate() panicked on a mutated header: {p}"), case.clone());
        return;
    }
    // decode_and_validate(encode(x)) may only succeed with x itself if validate(x) succeeds
    if let Ok(Ok(d)) = &r2 {
        if *d == ap.eh && !accepted {
            rep.violation("decode-accepts-what-validate-rejects", "decode_and_validate(encode(x)) == x although validate(x) fails".into(), case.clone());
        }
    }
    if accepted && !matches!(&r2, Ok(Ok(d)) if *d == ap.eh) && matches!(ap.expect, Expect::Variant(true)) {
        rep.violation("honest-header-rejected", "honest variant accepted by validate() but not by decode_and_validate(encode())".into(), case.clone());
    }
    match ap.expect {
        Expect::Info => {}
        Expect::Reject => {
            if accepted {
                let k = accept_key(mu, b, &ap.slots);
                rep.violation(&k, format!("header still validates after mutation {} idx {} variant {}", mu.family, mu.idx, mu.variant), case);
            }
        }
        Expect::Variant(want) => {
            if accepted != want {
                let k = if want { "honest-header-rejected" } else { "accepted-without-two-thirds" };
                rep.violation(k, format!("honest variant ({} idx {}): expected accept={want}, got accept={accepted}", mu.family, mu.idx), case);
            }
        }
    }
}

fn main() {
    let ctx = Ctx::from_args("C01");
    let thorough = !ctx.quick();
    let rep = if let Some(c) = ctx.replay_case() {
        let seed = c["seed"].as_u64().unwrap_or(ctx.seed);
        let keys = Keys::new(seed, 16);
        let cfg: Cfg = serde_json::from_value(c["cfg"].clone()).unwrap();
        let h = c["height"].as_u64().unwrap() as usize - 1;
        let chain = build_chain("C01", &keys, &plan_of(&cfg));
        let mut rep = Report::new();
        if c["mutation"].is_null() {
            eval_honest(&cfg, h, &chain[h], seed, &mut rep);
        } else {
            let mu: Mutation = serde_json::from_value(c["mutation"].clone()).unwrap();
            eval_mutation(&cfg, h, &chain[h], &keys, &mu, &mut rep);
        }
        rep
    } else {
        let keys = Keys::new(ctx.seed, 16);
        let cfgs = configs(thorough);
        let mut rep = par_cases(cfgs.clone(), |cfg, rep| {
            let chain = build_chain("C01", &keys, &plan_of(&cfg));
            for (h, b) in chain.iter().enumerate() {
                eval_honest(&cfg, h, b, keys.seed, rep);
                for mu in mutations(b) {
                    eval_mutation(&cfg, h, b, &keys, &mu, rep);
                }
            }
        });
        rep.extra("chains", json!(cfgs.len()));
        rep.extra("headers", json!(cfgs.len() * HEIGHTS));
        rep
    };
    finish(
        &ctx,
        rep,
        Spec {
            rule: "chains: n validators (quick 1..5, thorough 1..8) x power family {equal, one above 2/3, one at exactly 2/3, ramp} x app version 1..7 x DAH cycle offset (quick: one per chain, thorough: all 7), 3 heights each (height 1 all commit; height 2 one nil vote; height 3 one absent + one nil where the power allows), DAH per height cycling through synthetic widths 2/4/8/16 and real EDS widths 2/4/8. Per header: the unmutated header, and every mutation of: 16 hashed header fields (bit flips at 3 positions, None/empty, +-1, other value); every DAH row/column root (hash, min-ns, max-ns byte; removal; duplication; swap with next; row<->column exchange; append/truncate both); every validator (key, key+address, power +-1 in place and re-sorted, removal, swap, addition); commit block id hash/parts, height, round; every commit entry (signature bytes 0/31/32/63, signature dropped, signed by another key, timestamp +1ns/-1ms, address bit/other validator/stranger, flag commit<->nil, ->absent, absent->genuine vote, absent->made-up vote, removal, duplication, swap with next). distinct = (chain, height, family, index, variant); non-trivial = applicable mutations of parts named by the statement (no-ops skipped; validator address/proposer/total-power fields are observed only)",
            assumptions: &[
                "VERIF_SEED selects key material and hash payloads only",
                "header times lie in 2024 (validate() does not read the clock)",
                "a mutation whose result is itself an honestly signed header (vote dropped to absent, genuine vote of an absent validator added) is judged by the first sentence of the statement: accepted iff the committing power stays above 2/3",
                "bit flips are applied at 3 byte positions per 32-byte hash and 4 per signature, not at all 256/512 bit positions",
            ],
            required_classes: &[
                "honest:accept",
                // per mutation family, whatever error the code reports (the statement only says
                // "validation fails"; requiring particular error kinds would make a change of
                // an error variant look like a vacuous run)
                "hdr:reject*",
                "dah:reject*",
                "val:reject*",
                "commit:reject*",
                "sig:reject*",
                "variant:accept",
                "variant:reject",
            ],
            exhaustive: true,
        },
    );
}
