//! C05 — Row retrieval returns exactly the committed row.   (engine E1)
//!
//! Space (per square = width x namespace layout, payload bytes from VERIF_SEED):
//!   for EVERY row index i (ODS rows and parity rows) and three presentations
//!   "full" (the `Row` struct with all shares), "left" (wire: `RawRow` with the left half, what
//!   `From<Row> for RawRow` / `Row::encode` produce) and "right" (wire: `RawRow` built by the
//!   harness from the right half, `half_side = RIGHT`, original data must be reconstructed):
//!   * honest  : row i for index i — must verify, and decoding must give back exactly row i;
//!   * reindex : row i presented for every other index j;
//!   * mutation of row i presented for i: a share replaced by the share of another row at the
//!     same column (every column x a set of other rows), two shares swapped, the half rotated /
//!     reversed, one byte flipped (4 positions x every share), half truncated / extended by one
//!     share / emptied, `half_side` flipped or invalid, a share of wrong length.
//! Oracle (from the statement): `Row::verify(id(j))` may return Ok only if the row's share bytes
//! equal the brute-force row `cells[j]`; honest rows must decode to exactly `Row::new(i)`'s
//! shares (bytes and parity flags) and verify.  A panic is never an acceptable verdict.
#[path = "../shared/eds_fix.rs"]
mod eds_fix;

use bytes::BytesMut;
use celestia_proto::shwap::{Row as RawRow, Share as RawShare};
use celestia_types::Share;
use celestia_types::row::{Row, RowId};
use eds_fix::*;
use lv_core::*;
use prost::Message;
use serde::{Deserialize, Serialize};
use serde_json::json;

#[derive(Clone, Debug, Serialize, Deserialize, PartialEq)]
enum Mut {
    None,
    /// share at `col` (index inside the presented part) replaced by the one of `row`
    Replace { col: usize, row: usize },
    Swap { a: usize, b: usize },
    Rotate,
    Reverse,
    /// xor 1 into byte `pos` of share `col`
    Flip { col: usize, pos: usize },
    Truncate,
    Extend,
    Empty,
    SideFlip,
    SideSet { value: i32 },
    ShareLen { col: usize, len: usize },
}

impl Mut {
    fn family(&self) -> &'static str {
        match self {
            Mut::None => "None",
            Mut::Replace { .. } => "Replace",
            Mut::Swap { .. } => "Swap",
            Mut::Rotate => "Rotate",
            Mut::Reverse => "Reverse",
            Mut::Flip { .. } => "Flip",
            Mut::Truncate => "Truncate",
            Mut::Extend => "Extend",
            Mut::Empty => "Empty",
            Mut::SideFlip => "SideFlip",
            Mut::SideSet { .. } => "SideSet",
            Mut::ShareLen { .. } => "ShareLen",
        }
    }
}

#[derive(Clone, Debug, Serialize, Deserialize)]
struct Case {
    seed: u64,
    width: usize,
    layout: usize,
    /// requested row index
    req: u16,
    /// row the data comes from
    src: u16,
    /// "full" | "left" | "right"
    form: String,
    mutation: Mut,
}

enum Verdict {
    /// verify returned Ok: the share bytes of the accepted row (+ the shares for equality)
    Accept(Vec<Share>),
    Reject(String),
    Panic(String),
    Unbuildable,
}

/// Column range of the presented part.
fn part(form: &str, w: usize) -> std::ops::Range<usize> {
    match form {
        "full" => 0..w,
        "left" => 0..w / 2,
        "right" => w / 2..w,
        other => panic!("unknown form {other}"),
    }
}

fn run(fx: &Fixture, case: &Case) -> Option<Verdict> {
    let w = fx.width;
    let cols = part(&case.form, w);
    let src = case.src as usize;
    // the presented shares as raw bytes, taken from the brute-force view
    let mut shares: Vec<Vec<u8>> = cols.clone().map(|c| fx.cells[src][c].clone()).collect();
    // parity flags for the "full" (struct) form: as the honest Row of `src` has them
    let mut parity: Vec<bool> = cols.clone().map(|c| !fx.in_ods(src, c)).collect();
    let mut side: i32 = if case.form == "right" { 1 } else { 0 };
    let n = shares.len();
    match &case.mutation {
        Mut::None => {}
        Mut::Replace { col, row } => {
            let c = cols.start + *col;
            if *col >= n || fx.cells[*row][c] == shares[*col] {
                return None;
            }
            shares[*col] = fx.cells[*row][c].clone();
        }
        Mut::Swap { a, b } => {
            if *a >= n || *b >= n || shares[*a] == shares[*b] {
                return None;
            }
            shares.swap(*a, *b);
            parity.swap(*a, *b);
        }
        Mut::Rotate => {
            let before = shares.clone();
            shares.rotate_left(1);
            if before == shares {
                return None;
            }
        }
        Mut::Reverse => {
            let before = shares.clone();
            shares.reverse();
            if before == shares {
                return None;
            }
        }
        Mut::Flip { col, pos } => {
            if *col >= n {
                return None;
            }
            shares[*col][*pos] ^= 1;
        }
        Mut::Truncate => {
            shares.pop();
            parity.pop();
        }
        Mut::Extend => {
            shares.push(shares[n - 1].clone());
            parity.push(parity[n - 1]);
        }
        Mut::Empty => {
            shares.clear();
            parity.clear();
        }
        Mut::SideFlip => {
            if case.form == "full" {
                return None;
            }
            side ^= 1;
        }
        Mut::SideSet { value } => {
            if case.form == "full" {
                return None;
            }
            side = *value;
        }
        Mut::ShareLen { col, len } => {
            if case.form == "full" || *col >= n {
                return None;
            }
            shares[*col].resize(*len, 0xAB);
        }
    }
    let id = RowId::new(case.req, HEIGHT).expect("row id");
    let dah = &fx.dah;
    Some(if case.form == "full" {
        let built: Option<Vec<Share>> = shares
            .iter()
            .zip(&parity)
            .map(|(b, p)| if *p { Share::parity(b) } else { Share::from_raw(b) }.ok())
            .collect();
        let Some(built) = built else { return Some(Verdict::Unbuildable) };
        let row = if case.mutation == Mut::None {
            // the honest struct comes from the real constructor
            match Row::new(case.src, &fx.eds) {
                Ok(r) => r,
                Err(e) => return Some(Verdict::Reject(format!("new:{}", err_kind2(&e)))),
            }
        } else {
            Row { shares: built }
        };
        match guard(|| row.verify(id, dah)) {
            Err(p) => Verdict::Panic(p),
            Ok(Ok(())) => Verdict::Accept(row.shares),
            Ok(Err(e)) => Verdict::Reject(format!("verify:{}", err_kind2(&e))),
        }
    } else {
        let bytes: Vec<u8> = if case.mutation == Mut::None && case.form == "left" {
            // the statement's "encoding a row": the real encoder
            let row = Row::new(case.src, &fx.eds).expect("Row::new");
            let mut b = BytesMut::new();
            row.encode(&mut b);
            b.to_vec()
        } else {
            RawRow { shares_half: shares.into_iter().map(|data| RawShare { data }).collect(), half_side: side }.encode_to_vec()
        };
        match guard(|| match Row::decode(id, &bytes) {
            Err(e) => Err(format!("decode:{}", err_kind2(&e))),
            Ok(row) => match row.verify(id, dah) {
                Ok(()) => Ok(row.shares),
                Err(e) => Err(format!("verify:{}", err_kind2(&e))),
            },
        }) {
            Err(p) => Verdict::Panic(p),
            Ok(Ok(s)) => Verdict::Accept(s),
            Ok(Err(e)) => Verdict::Reject(e),
        }
    })
}

fn eval(fx: &Fixture, case: &Case, rep: &mut Report) {
    let Some(v) = run(fx, case) else { return };
    let honest = case.src == case.req && case.mutation == Mut::None;
    let family = if honest {
        format!("honest/{}", case.form)
    } else if case.src != case.req {
        "reindex".to_string()
    } else {
        format!("mut/{}", case.mutation.family())
    };
    let cj = || serde_json::to_value(case).unwrap();
    let want = &fx.cells[case.req as usize];
    match v {
        Verdict::Unbuildable => rep.case_nokey(&format!("{family}:unbuildable")),
        Verdict::Panic(p) => {
            rep.case_nokey(&format!("{family}:panic"));
            rep.violation("panic", format!("{} form panicked instead of returning a verdict: {p}", case.form), cj());
        }
        Verdict::Reject(e) => {
            rep.case_nokey(&format!("{family}:reject:{e}"));
            if honest {
                rep.violation("honest-row-rejected", format!("honest row {} ({} form) rejected: {e}; {}", case.req, case.form, fx.describe()), cj());
            }
        }
        Verdict::Accept(shares) => {
            let equal = shares.len() == want.len() && shares.iter().zip(want).all(|(s, b)| s.data()[..] == b[..]);
            if honest {
                rep.case_nokey(&format!("{family}:accept"));
                // round trip: exactly the row the square gives (bytes and parity flags)
                let same = Row::new(case.req, &fx.eds).map(|r| r.shares == shares).unwrap_or(false);
                if !equal || !same {
                    rep.violation(
                        "roundtrip-mismatch",
                        format!("row {} decoded from its {} form differs from the row of the square (bytes equal: {equal}, shares equal: {same}); {}", case.req, case.form, fx.describe()),
                        cj(),
                    );
                }
                if rep.wants_sample() && case.req == 1 {
                    rep.sample(|| json!({"case": cj(), "result": "accept, equal to the square's row"}));
                }
            } else if equal {
                rep.case_nokey(&format!("{family}:accept-equal-row"));
            } else {
                rep.case_nokey(&format!("{family}:ACCEPT-WRONG-ROW"));
                let key = if case.src != case.req { "row-accepted-for-other-index" } else { "mutated-row-accepted" };
                rep.violation(
                    key,
                    format!(
                        "verify(row id {}) returned Ok for shares that are not row {} of the square: data of row {}, {} form, mutation {:?}; {}",
                        case.req, case.req, case.src, case.form, case.mutation, fx.describe()
                    ),
                    cj(),
                );
            }
        }
    }
}

const FORMS: [&str; 3] = ["full", "left", "right"];

fn mutations(fx: &Fixture, i: usize, form: &str) -> Vec<Mut> {
    let w = fx.width;
    let n = part(form, w).len();
    let mut other_rows: Vec<usize> =
        if w <= 16 { (0..w).filter(|r| *r != i).collect() } else { vec![(i + w - 1) % w, (i + 1) % w, (i + w / 2) % w, 0, w - 1] };
    other_rows.sort();
    other_rows.dedup();
    other_rows.retain(|r| *r != i);
    // every column of the part up to 32 shares; beyond that 16 evenly spaced columns plus the
    // two at each end and the two in the middle
    let cols: Vec<usize> = if n <= 32 {
        (0..n).collect()
    } else {
        let mut c: Vec<usize> = (0..16).map(|i| i * n / 16).collect();
        c.extend([1, n / 2 - 1, n / 2, n - 2, n - 1]);
        c.sort();
        c.dedup();
        c
    };
    let mut v = vec![];
    for &col in &cols {
        for &row in &other_rows {
            v.push(Mut::Replace { col, row });
        }
    }
    if n <= 16 {
        for a in 0..n {
            for b in a + 1..n {
                v.push(Mut::Swap { a, b });
            }
        }
    } else {
        for &a in &cols {
            if a + 1 < n {
                v.push(Mut::Swap { a, b: a + 1 });
            }
        }
        v.push(Mut::Swap { a: 0, b: n - 1 });
        v.push(Mut::Swap { a: 0, b: n / 2 });
    }
    v.push(Mut::Rotate);
    v.push(Mut::Reverse);
    for &col in &cols {
        for pos in [0usize, 29, 30, 511] {
            v.push(Mut::Flip { col, pos });
        }
    }
    v.push(Mut::Truncate);
    v.push(Mut::Extend);
    v.push(Mut::Empty);
    v.push(Mut::SideFlip);
    v.push(Mut::SideSet { value: 2 });
    v.push(Mut::SideSet { value: -1 });
    for len in [0usize, 511, 513] {
        v.push(Mut::ShareLen { col: 0, len });
        v.push(Mut::ShareLen { col: n - 1, len });
    }
    v
}

fn explore(fx: &Fixture, ctx: &Ctx, cap: f64) -> Report {
    let w = fx.width;
    par_cases((0..w).collect::<Vec<_>>(), |i, rep| {
        if ctx.elapsed_s() > cap {
            rep.cap_hit(&format!("wall cap {cap}s inside w={w} layout={}", fx.layout));
            return;
        }
        let base = |req: usize, form: &str, mutation: Mut| Case {
            seed: fx.seed,
            width: w,
            layout: fx.layout,
            req: req as u16,
            src: i as u16,
            form: form.to_string(),
            mutation,
        };
        for form in FORMS {
            eval(fx, &base(i, form, Mut::None), rep);
        }
        let mut others: Vec<usize> = (0..w).filter(|j| *j != i).collect();
        others.sort_by_key(|j| (*j as i64 - i as i64).abs());
        for j in others {
            for form in FORMS {
                eval(fx, &base(j, form, Mut::None), rep);
            }
        }
        for form in FORMS {
            for m in mutations(fx, i, form) {
                eval(fx, &base(i, form, m), rep);
            }
        }
    })
}

fn main() {
    let ctx = Ctx::from_args("C05");
    let mut rep = Report::new();
    rep.sample_cap = 8;
    if let Some(c) = ctx.replay_case() {
        let case: Case = serde_json::from_value(c).unwrap_or_else(|e| machinery_error(&ctx.id, &format!("bad replay case: {e}")));
        let fx = Fixture::build(case.width, case.layout, case.seed).unwrap_or_else(|e| machinery_error(&ctx.id, &e));
        eval(&fx, &case, &mut rep);
    } else {
        // 256 is the widest square the codec supports (leopard GF(2^8): at most 256 shards)
        let plan: Vec<(usize, Vec<usize>)> = if ctx.quick() {
            vec![(2, vec![0, 1, 2]), (4, vec![0, 1, 2]), (8, vec![0, 1, 2]), (16, vec![0, 1, 2]), (32, vec![0])]
        } else {
            vec![
                (2, vec![0, 1, 2]),
                (4, vec![0, 1, 2]),
                (8, vec![0, 1, 2]),
                (16, vec![0, 1, 2]),
                (32, vec![0, 1, 2]),
                (64, vec![0, 1, 2]),
                (128, vec![0, 1]),
                (256, vec![0]),
            ]
        };
        let cap = ctx.tier.pick(50.0, 840.0);
        let mut squares = vec![];
        'outer: for (w, layouts) in plan {
            for l in layouts {
                if ctx.elapsed_s() > cap {
                    rep.cap_hit(&format!("wall cap {cap}s before w={w} layout={l}"));
                    break 'outer;
                }
                let fx = Fixture::build(w, l, ctx.seed).unwrap_or_else(|e| machinery_error(&ctx.id, &e));
                let r = explore(&fx, &ctx, cap);
                squares.push(json!({"width": w, "layout": LAYOUTS[l], "evaluations": r.evaluations}));
                rep.merge_in(r);
            }
        }
        rep.extra("squares", json!(squares));
        let nontrivial: u64 = rep.classes.iter().filter(|(k, _)| !k.starts_with("honest") && !k.contains("unbuildable")).map(|(_, v)| *v).sum();
        rep.extra("distinct_by_construction", json!(rep.evaluations));
        rep.extra("distinct_nontrivial_by_construction", json!(nontrivial));
    }
    finish(
        &ctx,
        rep,
        Spec {
            rule: "squares = EDS widths {2,4,8,16}x3 layouts + 32x'structured' (quick) / {2,..,64}x3 layouts + 128x2 + 256x1 (thorough; 256 is the codec's maximum); per square: every source row i x forms {full struct, left-half wire, right-half wire} x { honest for index i; presented for every other index j; every listed mutation presented for i: share at every column (parts of <=32 shares; beyond that 16 evenly spaced columns + both ends + middle) replaced by the same column of another row (all rows for w<=16, else 5 rows), swaps (all pairs for parts <=16 shares, else adjacent pairs at the chosen columns + 2), rotate, reverse, 4 byte flips x every chosen share, truncate/extend/empty, half_side flip/invalid, 2x3 wrong share lengths }. Cases are distinct by construction; mutations that leave the bytes unchanged (identical padding shares) are skipped; non-trivial = every non-honest candidate",
            assumptions: &[
                "payload bytes come from VERIF_SEED (Fill); layouts, widths, indices and mutations are enumerated, never sampled",
                "the square is what ExtendedDataSquare::from_ods produced; the brute-force view is copied from its flat share list and its DAH is re-derived by an independent NMT implementation at fixture build time",
                "rows with identical bytes (all-padding rows) may legitimately verify for each other's index",
            ],
            required_classes: &[
                "honest/full:accept",
                "honest/left:accept",
                "honest/right:accept",
                "reindex:reject*",
                "mut/Replace:reject*",
                "mut/Swap:reject*",
                "mut/Flip:reject*",
                "mut/Rotate:reject*",
                "mut/Truncate:*",
                "mut/Extend:*",
                "mut/Empty:*",
                "mut/SideFlip:reject*",
                "mut/ShareLen:reject*",
            ],
            exhaustive: true,
        },
    );
}
