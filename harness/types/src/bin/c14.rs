//! C14 — Namespaces are validated, ordered and round-trip.   (engine E1)
//!
//! Every constructor of `celestia_types::nmt::Namespace` that takes raw bytes
//! (`from_raw`, `new`, `new_v0`, `new_v255`, serde) is driven over an explicit byte-level
//! space; the oracle is the predicate of the statement written on plain byte arrays
//! (nothing of /repo is used to decide validity, order or reservedness).
use celestia_types::nmt::Namespace;
use lv_core::*;
use serde_json::json;
use std::collections::BTreeSet;

const NS: usize = 29;

// ------------------------------------------------------------------ oracle (bytes only)

/// The statement's predicate on a raw byte string.
fn valid_raw(b: &[u8]) -> bool {
    b.len() == NS && ((b[0] == 0 && b[1..19].iter().all(|x| *x == 0)) || (b[0] == 255 && b[1..28].iter().all(|x| *x == 0xff)))
}

/// What `new(version, id)` must produce: the 29 bytes, or nothing.
fn expect_new(version: u8, id: &[u8]) -> Option<[u8; NS]> {
    let mut out = [0u8; NS];
    match version {
        0 if id.len() == 28 => {
            out[1..].copy_from_slice(id);
        }
        // version-0 shorthand: up to 10 bytes, left-padded with zeros
        0 if id.len() <= 10 => {
            out[NS - id.len()..].copy_from_slice(id);
        }
        255 if id.len() == 28 => {
            out[0] = 255;
            out[1..].copy_from_slice(id);
        }
        _ => return None,
    }
    if valid_raw(&out) { Some(out) } else { None }
}

fn max_primary_reserved() -> [u8; NS] {
    let mut b = [0u8; NS];
    b[NS - 1] = 0xff;
    b
}
fn min_secondary_reserved() -> [u8; NS] {
    let mut b = [0xffu8; NS];
    b[NS - 1] = 0;
    b
}
fn reserved(b: &[u8; NS]) -> bool {
    b[..] <= max_primary_reserved()[..] || b[..] >= min_secondary_reserved()[..]
}

fn b64(data: &[u8]) -> String {
    const A: &[u8; 64] = b"ABCDEFGHIJKLMNOPQRSTUVWXYZabcdefghijklmnopqrstuvwxyz0123456789+/";
    let mut s = String::new();
    for c in data.chunks(3) {
        let n = (c[0] as u32) << 16 | (*c.get(1).unwrap_or(&0) as u32) << 8 | *c.get(2).unwrap_or(&0) as u32;
        s.push(A[(n >> 18) as usize & 63] as char);
        s.push(A[(n >> 12) as usize & 63] as char);
        s.push(if c.len() > 1 { A[(n >> 6) as usize & 63] as char } else { '=' });
        s.push(if c.len() > 2 { A[n as usize & 63] as char } else { '=' });
    }
    s
}

// ------------------------------------------------------------------ cases

#[derive(Clone, Debug, serde::Serialize, serde::Deserialize)]
#[serde(tag = "op")]
enum Op {
    FromRaw { bytes: String },
    New { version: u8, id: String },
    NewV0 { id: String },
    NewV255 { id: String },
    ConstV0 { id: String },
    ConstV255 { id: u8 },
    /// serde round trip of the namespace with these (valid) bytes
    SerdeRound { bytes: String },
    /// deserialisation of an arbitrary JSON document
    SerdeIn { json: String },
    Order { a: String, b: String },
    Reserved { bytes: String },
}

fn hx(b: &[u8]) -> String {
    hex::encode(b)
}
fn un(s: &str) -> Vec<u8> {
    hex::decode(s).expect("hex")
}

struct Out<'a> {
    rep: &'a mut Report,
    key: u64,
    op: &'a Op,
}
impl Out<'_> {
    fn case(&mut self, class: &str, nontrivial: bool) {
        self.rep.case(self.key, class, nontrivial);
        if self.rep.wants_sample() && self.key % 4099 == 11 {
            let op = serde_json::to_value(self.op).unwrap();
            self.rep.sample(|| json!({"case": op, "result": class}));
        }
    }
    fn viol(&mut self, key: &str, what: String) {
        self.rep.violation(key, what, serde_json::to_value(self.op).unwrap());
    }
}

/// Checks every accessor of a namespace the real code constructed against the bytes the
/// oracle expects.
fn check_value(ns: &Namespace, want: &[u8; NS], o: &mut Out) {
    if ns.as_bytes() != &want[..] {
        o.viol("bytes-roundtrip-mismatch", format!("as_bytes() = {} but expected {}", hx(ns.as_bytes()), hx(want)));
    }
    if ns.version() != want[0] || ns.id() != &want[1..] {
        o.viol("bytes-roundtrip-mismatch", format!("version()/id() = {}/{} for bytes {}", ns.version(), hx(ns.id()), hx(want)));
    }
    let want_v0 = if want[0] == 0 { Some(&want[19..]) } else { None };
    if ns.id_v0() != want_v0 {
        o.viol("shorthand-roundtrip-mismatch", format!("id_v0() = {:?} for bytes {}", ns.id_v0().map(hx), hx(want)));
    }
}

fn eval(op: &Op, rep: &mut Report) {
    let key = fnv64(serde_json::to_string(op).unwrap().as_bytes());
    let mut o = Out { rep, key, op };
    match op {
        Op::FromRaw { bytes } => {
            let b = un(bytes);
            let want = valid_raw(&b);
            // non-trivial: right length, i.e. the verdict depends on version / prefix bytes
            let nt = b.len() == NS;
            match guard(|| Namespace::from_raw(&b)) {
                Err(p) => {
                    o.case("from_raw:panic", nt);
                    o.viol("panic", format!("from_raw panicked: {p}"));
                }
                Ok(Ok(ns)) => {
                    o.case("from_raw:accept", nt);
                    if !want {
                        o.viol("invalid-namespace-constructed", format!("from_raw accepted {} ({} bytes)", bytes, b.len()));
                    } else {
                        let w: [u8; NS] = b.clone().try_into().unwrap();
                        check_value(&ns, &w, &mut o);
                        // byte form round trip
                        match guard(|| Namespace::from_raw(ns.as_bytes())) {
                            Ok(Ok(again)) if again == ns => {}
                            other => o.viol("bytes-roundtrip-mismatch", format!("from_raw(as_bytes()) = {other:?}")),
                        }
                    }
                }
                Ok(Err(e)) => {
                    o.case(&format!("from_raw:reject:{}", err_kind(&e.to_string())), nt);
                    if want {
                        o.viol("valid-namespace-rejected", format!("from_raw rejected the valid namespace {bytes}: {e}"));
                    }
                }
            }
        }
        Op::New { .. } | Op::NewV0 { .. } | Op::NewV255 { .. } => {
            let (name, version, id) = match op {
                Op::New { version, id } => ("new", *version, un(id)),
                Op::NewV0 { id } => ("new_v0", 0, un(id)),
                Op::NewV255 { id } => ("new_v255", 255, un(id)),
                _ => unreachable!(),
            };
            let want = expect_new(version, &id);
            let got = guard(|| match op {
                Op::New { .. } => Namespace::new(version, &id),
                Op::NewV0 { .. } => Namespace::new_v0(&id),
                _ => Namespace::new_v255(&id),
            });
            // non-trivial: a supported version and an id of an admissible length
            let nt = (version == 0 && (id.len() == 28 || id.len() <= 10)) || (version == 255 && id.len() == 28);
            match got {
                Err(p) => {
                    o.case(&format!("{name}:panic"), nt);
                    o.viol("panic", format!("{name} panicked: {p}"));
                }
                Ok(Ok(ns)) => {
                    let short = version == 0 && id.len() <= 10;
                    o.case(&format!("{name}:accept{}", if short { ":shorthand" } else { "" }), nt);
                    match want {
                        None => o.viol("invalid-namespace-constructed", format!("{name}({version}, {}) accepted -> {}", hx(&id), hx(ns.as_bytes()))),
                        Some(w) => {
                            check_value(&ns, &w, &mut o);
                            if version == 0 {
                                // version-0 shorthand round trip
                                match guard(|| Namespace::new_v0(ns.id_v0().unwrap_or(&[]))) {
                                    Ok(Ok(again)) if again == ns => {}
                                    other => o.viol("shorthand-roundtrip-mismatch", format!("new_v0(id_v0()) = {other:?}")),
                                }
                            }
                        }
                    }
                }
                Ok(Err(e)) => {
                    o.case(&format!("{name}:reject:{}", err_kind(&e.to_string())), nt);
                    if let Some(w) = want {
                        o.viol("valid-namespace-rejected", format!("{name}({version}, {}) rejected, expected {}: {e}", hx(&id), hx(&w)));
                    }
                }
            }
        }
        Op::ConstV0 { id } => {
            let idb: [u8; 10] = un(id).try_into().unwrap();
            let want = expect_new(0, &idb).unwrap();
            match guard(|| Namespace::const_v0(idb)) {
                Ok(ns) => {
                    o.case("const_v0", true);
                    check_value(&ns, &want, &mut o);
                }
                Err(p) => {
                    o.case("const_v0:panic", true);
                    o.viol("panic", format!("const_v0 panicked: {p}"));
                }
            }
        }
        Op::ConstV255 { id } => {
            let mut want = [0xffu8; NS];
            want[NS - 1] = *id;
            match guard(|| Namespace::const_v255(*id)) {
                Ok(ns) => {
                    o.case("const_v255", true);
                    check_value(&ns, &want, &mut o);
                }
                Err(p) => {
                    o.case("const_v255:panic", true);
                    o.viol("panic", format!("const_v255 panicked: {p}"));
                }
            }
        }
        Op::SerdeRound { bytes } => {
            let b = un(bytes);
            let Ok(Ok(ns)) = guard(|| Namespace::from_raw(&b)) else {
                o.case("serde:fixture-rejected", false);
                o.viol("valid-namespace-rejected", format!("from_raw rejected {bytes}"));
                return;
            };
            let want = format!("\"{}\"", b64(&b));
            match guard(|| serde_json::to_string(&ns)) {
                Ok(Ok(s)) => {
                    if s != want {
                        o.case("serde:out-differs", true);
                        o.viol("serde-roundtrip-mismatch", format!("serialised as {s}, expected {want}"));
                        return;
                    }
                    match guard(|| serde_json::from_str::<Namespace>(&s)) {
                        Ok(Ok(back)) if back == ns => o.case("serde:roundtrip", true),
                        other => {
                            o.case("serde:roundtrip-FAILS", true);
                            o.viol("serde-roundtrip-mismatch", format!("deserialising {s} gave {other:?}"));
                        }
                    }
                }
                other => {
                    o.case("serde:serialise-FAILS", true);
                    o.viol("serde-roundtrip-mismatch", format!("serialisation failed: {other:?}"));
                }
            }
        }
        Op::SerdeIn { json: doc } => {
            // expected: accepted iff the document is a JSON string holding the padded standard
            // base64 of a valid raw namespace (the family only contains such strings, base64 of
            // invalid raw forms, and non-base64 / non-string documents)
            let want: Option<Vec<u8>> = serde_json::from_str::<String>(doc).ok().and_then(|s| strict_b64_decode(&s)).filter(|b| valid_raw(b));
            match guard(|| serde_json::from_str::<Namespace>(doc)) {
                Err(p) => {
                    o.case("serde_in:panic", true);
                    o.viol("panic", format!("deserialising {doc} panicked: {p}"));
                }
                Ok(Ok(ns)) => {
                    o.case("serde_in:accept", true);
                    match want {
                        Some(w) if ns.as_bytes() == &w[..] => {}
                        Some(w) => o.viol("serde-roundtrip-mismatch", format!("{doc} decoded to {} instead of {}", hx(ns.as_bytes()), hx(&w))),
                        // not the canonical padded-base64 form of a valid raw namespace: the
                        // statement fixes which byte strings are namespaces, not which textual
                        // encodings a deserializer may additionally understand (e.g. unpadded
                        // base64) - whatever it accepts must be a valid namespace, though
                        None if valid_raw(ns.as_bytes()) => o.case("serde_in:accept:non-canonical-encoding-of-valid-namespace", true),
                        None => o.viol("invalid-namespace-constructed", format!("serde accepted {doc} -> {}", hx(ns.as_bytes()))),
                    }
                }
                Ok(Err(_)) => {
                    o.case("serde_in:reject", true);
                    if want.is_some() {
                        o.viol("valid-namespace-rejected", format!("serde rejected {doc}"));
                    }
                }
            }
        }
        Op::Order { a, b } => {
            let (ab, bb) = (un(a), un(b));
            let (Ok(Ok(x)), Ok(Ok(y))) = (guard(|| Namespace::from_raw(&ab)), guard(|| Namespace::from_raw(&bb))) else {
                o.case("order:fixture-rejected", false);
                o.viol("valid-namespace-rejected", format!("from_raw rejected {a} or {b}"));
                return;
            };
            let want = ab.cmp(&bb);
            let got = guard(|| (x.cmp(&y), x.partial_cmp(&y), x == y, x < y, x <= y, x > y, x >= y));
            o.case(&format!("order:{want:?}"), a != b);
            let expect = (want, Some(want), want.is_eq(), want.is_lt(), want.is_le(), want.is_gt(), want.is_ge());
            if got != Ok(expect) {
                o.viol("order-not-lexicographic", format!("{a} vs {b}: expected {expect:?}, got {got:?}"));
            }
        }
        Op::Reserved { bytes } => {
            let b = un(bytes);
            let Ok(Ok(ns)) = guard(|| Namespace::from_raw(&b)) else {
                o.case("reserved:fixture-rejected", false);
                o.viol("valid-namespace-rejected", format!("from_raw rejected {bytes}"));
                return;
            };
            let w: [u8; NS] = b.try_into().unwrap();
            let want = reserved(&w);
            let got = guard(|| ns.is_reserved());
            o.case(if want { "reserved:yes" } else { "reserved:no" }, true);
            if got != Ok(want) {
                o.viol("reserved-mismatch", format!("is_reserved({bytes}) = {got:?}, expected {want}"));
            }
        }
    }
}

fn err_kind(e: &str) -> &'static str {
    let e = e.to_ascii_lowercase();
    if e.contains("size") || e.contains("length") {
        "size"
    } else if e.contains("unsupported") || e.contains("version") && !e.contains("v0") && !e.contains("v255") {
        "version"
    } else if e.contains("v255") || e.contains("255") {
        "v255-prefix"
    } else if e.contains("v0") || e.contains("0") {
        "v0-prefix"
    } else {
        "other"
    }
}

/// Padded standard-alphabet base64, strict (what `b64` produces).
fn strict_b64_decode(s: &str) -> Option<Vec<u8>> {
    const A: &[u8; 64] = b"ABCDEFGHIJKLMNOPQRSTUVWXYZabcdefghijklmnopqrstuvwxyz0123456789+/";
    let b = s.as_bytes();
    if b.len() % 4 != 0 {
        return None;
    }
    let mut out = vec![];
    for (ci, c) in b.chunks(4).enumerate() {
        let last = ci + 1 == b.len() / 4;
        let pad = c.iter().rev().take_while(|x| **x == b'=').count();
        if pad > 2 || (pad > 0 && !last) {
            return None;
        }
        let mut n = 0u32;
        for x in &c[..4 - pad] {
            n = n << 6 | A.iter().position(|a| a == x)? as u32;
        }
        n <<= 6 * pad as u32;
        let bytes = [(n >> 16) as u8, (n >> 8) as u8, n as u8];
        // canonical: the unused low bits must be zero
        if (pad == 1 && bytes[2] != 0) || (pad == 2 && (bytes[1] != 0 || bytes[2] != 0)) {
            return None;
        }
        out.extend_from_slice(&bytes[..3 - pad]);
    }
    Some(out)
}

// ------------------------------------------------------------------ the space

fn v0_bytes(suffix: &[u8]) -> [u8; NS] {
    let mut b = [0u8; NS];
    b[NS - suffix.len()..].copy_from_slice(suffix);
    b
}
fn v255_bytes(last: u8) -> [u8; NS] {
    let mut b = [0xffu8; NS];
    b[NS - 1] = last;
    b
}

/// The family used for ordering / reserved / serde: every v0 suffix 2^k-1, 2^k, 2^k+1
/// (k = 0..=79, as 80-bit big-endian numbers), the extremes, and v255 ids.
fn family() -> Vec<[u8; NS]> {
    let mut set: BTreeSet<[u8; NS]> = BTreeSet::new();
    let num = |v: u128| -> [u8; NS] { v0_bytes(&v.to_be_bytes()[6..]) };
    let max: u128 = (1u128 << 80) - 1;
    for k in 0..=79u32 {
        let p = 1u128 << k;
        for v in [p - 1, p, p + 1] {
            if v <= max {
                set.insert(num(v));
            }
        }
    }
    for v in [0, 1, 2, 3, 4, 0xfe, 0xff, 0x100, 0x101, max - 1, max] {
        set.insert(num(v));
    }
    for l in [0u8, 1, 2, 0x7f, 0x80, 0xfd, 0xfe, 0xff] {
        set.insert(v255_bytes(l));
    }
    set.into_iter().collect()
}

/// The cases of one block of the space (blocks: 0 = everything except the per-version
/// family, 1000 + v = the 29-byte strings of version v); generated inside the workers.
fn ops(thorough: bool, seed: u64, block: usize) -> Vec<Op> {
    let mut ops: Vec<Op> = vec![];
    let mut fill = Fill::new(seed, 0xC14);
    let pat: [u8; 28] = {
        let mut p = [0u8; 28];
        p[18..].copy_from_slice(&fill.bytes(10));
        p
    };
    let vals: Vec<u8> = if thorough { (0..=255).collect() } else { vec![0x00, 0x01, 0x7f, 0x80, 0xff] };
    let max_len = if thorough { 64 } else { 40 };

    if block == 0 {
    // from_raw: every length, four fillings
    for len in 0..=max_len {
        for f in 0..4 {
            let mut b: Vec<u8> = match f {
                0 => vec![0; len],
                1 => vec![0xff; len],
                2 => std::iter::once(0).chain(pat.iter().copied().cycle()).take(len).collect(),
                _ => fill.bytes(len),
            };
            if f == 3 && !b.is_empty() {
                b[0] = if len % 2 == 0 { 0 } else { 255 };
            }
            ops.push(Op::FromRaw { bytes: hx(&b) });
        }
    }
    }
    // from_raw / new: every version x {valid v0 id, valid v255 id, zeros, id with every single
    // byte position set to each value of `vals`}
    let v0_id = pat;
    let mut v255_id = [0xffu8; 28];
    v255_id[27] = 0x5a;
    for version in (0..=255u8).filter(|v| block == 1000 + *v as usize) {
        let all_positions = version == 0 || version == 255 || thorough;
        let mut ids: Vec<[u8; 28]> = vec![v0_id, v255_id, [0; 28], [0xff; 28]];
        for base in [v0_id, v255_id] {
            let positions: Vec<usize> = if all_positions { (0..28).collect() } else { vec![0, 17, 18, 26, 27] };
            for p in positions {
                for v in &vals {
                    let mut id = base;
                    id[p] = *v;
                    ids.push(id);
                }
            }
        }
        let ids: BTreeSet<[u8; 28]> = ids.into_iter().collect();
        for id in ids {
            let mut raw = vec![version];
            raw.extend_from_slice(&id);
            ops.push(Op::FromRaw { bytes: hx(&raw) });
            ops.push(Op::New { version, id: hx(&id) });
            if version == 0 {
                ops.push(Op::NewV0 { id: hx(&id) });
            }
            if version == 255 {
                ops.push(Op::NewV255 { id: hx(&id) });
            }
        }
    }
    if block == 0 {
    // new / new_v0 / new_v255: ids of every length 0..=max_len, fillings zeros / ff / 01.. / seeded
    for len in 0..=max_len {
        for f in 0..5 {
            let id: Vec<u8> = match f {
                0 => vec![0; len],
                1 => vec![0xff; len],
                2 => (1..=len as u8).collect(),
                3 => std::iter::repeat_n(0u8, len.min(18)).chain(fill.bytes(len.saturating_sub(18))).collect(),
                _ => std::iter::repeat_n(0xffu8, len.min(27)).chain(fill.bytes(len.saturating_sub(27))).collect(),
            };
            for version in [0u8, 1, 2, 127, 128, 254, 255] {
                ops.push(Op::New { version, id: hx(&id) });
            }
            ops.push(Op::NewV0 { id: hx(&id) });
            ops.push(Op::NewV255 { id: hx(&id) });
        }
    }
    // shorthand ids of length 0..=10 with boundary bytes at each position
    for len in 0..=10usize {
        for p in 0..len.max(1) {
            for v in [0x00u8, 0x01, 0x7f, 0x80, 0xff] {
                let mut id = vec![0u8; len];
                if len > 0 {
                    id[p] = v;
                }
                ops.push(Op::NewV0 { id: hx(&id) });
                ops.push(Op::New { version: 0, id: hx(&id) });
                let mut id2 = vec![0xffu8; len];
                if len > 0 {
                    id2[p] = v;
                }
                ops.push(Op::NewV0 { id: hx(&id2) });
            }
        }
    }
    let fam = family();
    for b in &fam {
        ops.push(Op::FromRaw { bytes: hx(b) });
        ops.push(Op::SerdeRound { bytes: hx(b) });
        ops.push(Op::Reserved { bytes: hx(b) });
        if b[0] == 0 {
            ops.push(Op::ConstV0 { id: hx(&b[19..]) });
        }
    }
    for id in 0..=255u8 {
        ops.push(Op::ConstV255 { id });
        ops.push(Op::Reserved { bytes: hx(&v255_bytes(id)) });
        ops.push(Op::SerdeRound { bytes: hx(&v255_bytes(id)) });
    }
    // serde input: base64 of raw strings of every length, invalid versions / prefixes, junk
    for len in 0..=max_len.max(100) {
        for f in 0..3 {
            let b: Vec<u8> = match f {
                0 => vec![0; len],
                1 => vec![0xff; len],
                _ => std::iter::once(0).chain(pat.iter().copied().cycle()).take(len).collect(),
            };
            ops.push(Op::SerdeIn { json: format!("\"{}\"", b64(&b)) });
        }
    }
    for version in 0..=255u8 {
        for id in [v0_id, v255_id] {
            let mut raw = vec![version];
            raw.extend_from_slice(&id);
            ops.push(Op::SerdeIn { json: format!("\"{}\"", b64(&raw)) });
            for p in [0usize, 17, 18, 26, 27] {
                let mut r = raw.clone();
                r[1 + p] ^= 0x01;
                ops.push(Op::SerdeIn { json: format!("\"{}\"", b64(&r)) });
            }
        }
    }
    let good = b64(&v0_bytes(&[1, 2, 3]));
    for doc in [
        "null".to_string(),
        "0".to_string(),
        "[]".to_string(),
        "\"\"".to_string(),
        "\"!!!!\"".to_string(),
        format!("\"{}\"", &good[..good.len() - 1]),
        format!("\"{}=\"", good),
        format!("\"{} \"", good),
        format!("\"{}\"", good.replace('A', "-")),
        format!("[\"{good}\"]"),
        format!("\"{}\"", "A".repeat(1000)),
        format!("\"{}\"", "/".repeat(80)),
    ] {
        ops.push(Op::SerdeIn { json: doc });
    }
    // ordering: all ordered pairs of the family
    for a in &fam {
        for b in &fam {
            ops.push(Op::Order { a: hx(a), b: hx(b) });
        }
    }
    }
    ops
}

fn main() {
    let ctx = Ctx::from_args("C14");
    let rep = if let Some(c) = ctx.replay_case() {
        let op: Op = serde_json::from_value(c).unwrap_or_else(|e| machinery_error("C14", &format!("bad replay case: {e}")));
        let mut rep = Report::new();
        eval(&op, &mut rep);
        rep
    } else {
        // constants of the statement, written out independently
        let mut rep = Report::new();
        for (name, got, want) in [
            ("MAX_PRIMARY_RESERVED", Namespace::MAX_PRIMARY_RESERVED, max_primary_reserved()),
            ("MIN_SECONDARY_RESERVED", Namespace::MIN_SECONDARY_RESERVED, min_secondary_reserved()),
            ("PRIMARY_RESERVED_PADDING", Namespace::PRIMARY_RESERVED_PADDING, max_primary_reserved()),
            ("TRANSACTION", Namespace::TRANSACTION, v0_bytes(&[1])),
            ("PAY_FOR_BLOB", Namespace::PAY_FOR_BLOB, v0_bytes(&[4])),
            ("TAIL_PADDING", Namespace::TAIL_PADDING, v255_bytes(0xfe)),
            ("PARITY_SHARE", Namespace::PARITY_SHARE, v255_bytes(0xff)),
        ] {
            rep.case(fnv64(name.as_bytes()), "constant", true);
            if got.as_bytes() != &want[..] || !got.is_reserved() {
                rep.violation("reserved-mismatch", format!("constant {name} = {} (reserved {}), expected {}", hx(got.as_bytes()), got.is_reserved(), hx(&want)), json!({"constant": name}));
            }
        }
        rep.extra("family_size", json!(family().len()));
        let thorough = !ctx.quick();
        let seed = ctx.seed;
        let blocks: Vec<usize> = std::iter::once(0).chain((0..256).map(|v| 1000 + v)).collect();
        let r2 = par_cases(blocks, |block, rep| {
            let all = ops(thorough, seed, block);
            if block == 0 {
                // the big block: evaluate its cases in parallel as well
                let r = par_cases(all, |op, rep| eval(&op, rep));
                rep.merge_in(r);
            } else {
                for op in &all {
                    eval(op, rep);
                }
            }
        });
        rep.merge(r2)
    };
    finish(
        &ctx,
        rep,
        Spec {
            rule: "from_raw: lengths 0..=40 (64 thorough) x 4 fillings; 29-byte strings = every version 0..=255 x {valid v0 id, valid v255 id, zeros, ff, each of the two valid ids with one byte position (all 28 for versions 0 and 255, {0,17,18,26,27} otherwise; all 28 for all versions thorough) set to each of {00,01,7f,80,ff} (all 256 values thorough)}; the same (version,id) through new / new_v0 / new_v255; ids of every length 0..=40 (64) x 5 fillings x versions {0,1,2,127,128,254,255}; shorthand ids of length 0..=10 with each position set to {00,01,7f,80,ff} over zeros and over ff; const_v0 over the family, const_v255 over all 256 ids; serde: round trip of the family and all v255 ids, input documents = base64 of strings of length 0..=100 x 3 fillings, every version x 2 ids x {intact, 5 prefix bit flips}, 12 malformed documents; order: all ordered pairs of the family (v0 suffixes 2^k-1, 2^k, 2^k+1 for k=0..=79, extremes, 8 v255 ids); reserved: family + all v255 ids + the 7 named constants. distinct = distinct operation+arguments; non-trivial = arguments of an admissible length / supported version (from_raw: 29 bytes), all serde, order (a != b) and reserved cases",
            assumptions: &[
                "the 10 free bytes of the valid v0 pattern come from VERIF_SEED; validity depends only on version and prefix bytes",
                "`From<nmt_rs::NamespaceId>` (an unchecked type conversion, not a constructor from raw bytes) is outside the statement",
                "serde input is checked for the padded standard base64 alphabet only (what the serializer emits); other base64 dialects are not part of the space",
            ],
            required_classes: &[
                "from_raw:accept",
                "from_raw:reject*",
                "new:accept",
                "new:accept:shorthand",
                "new:reject*",
                "new_v0:accept",
                "new_v0:reject*",
                "new_v255:accept",
                "new_v255:reject*",
                "serde:roundtrip",
                "serde_in:accept",
                "serde_in:reject",
                "order:Less",
                "order:Equal",
                "order:Greater",
                "reserved:yes",
                "reserved:no",
                "const_v0",
                "const_v255",
            ],
            exhaustive: true,
        },
    );
}
