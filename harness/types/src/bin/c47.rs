//! C47 — Bech32 addresses round-trip and reject wrong kinds.   (engine E1)
//!
//! Oracle: a from-scratch BIP-173 bech32 codec (polymod, charset, 8<->5 bit regrouping with
//! the padding rule) and the three Celestia prefixes, all written here.  Every string of the
//! space is parsed with the four real parsers (`AccAddress`, `ValAddress`, `ConsAddress`,
//! `Address`) and the verdicts compared.
use celestia_types::state::{AccAddress, Address, AddressKind, AddressTrait, ConsAddress, Id, ValAddress};
use lv_core::*;
use serde::{Deserialize, Serialize};
use serde_json::json;
use std::collections::BTreeSet;

// ------------------------------------------------------------------ oracle: BIP-173

const CHARSET: &[u8; 32] = b"qpzry9x8gf2tvdw0s3jn54khce6mua7l";
const BECH32: u32 = 1;
const BECH32M: u32 = 0x2bc830a3;
const PREFIXES: [&str; 3] = ["celestia", "celestiavaloper", "celestiavalcons"];

fn polymod(values: impl Iterator<Item = u8>) -> u32 {
    const GEN: [u32; 5] = [0x3b6a57b2, 0x26508e6d, 0x1ea119fa, 0x3d4233dd, 0x2a1462b3];
    let mut chk: u32 = 1;
    for v in values {
        let b = chk >> 25;
        chk = (chk & 0x1ffffff) << 5 ^ v as u32;
        for (i, g) in GEN.iter().enumerate() {
            if (b >> i) & 1 == 1 {
                chk ^= g;
            }
        }
    }
    chk
}

fn hrp_expand(hrp: &str) -> Vec<u8> {
    let mut v: Vec<u8> = hrp.bytes().map(|c| c >> 5).collect();
    v.push(0);
    v.extend(hrp.bytes().map(|c| c & 31));
    v
}

fn to5(bytes: &[u8]) -> Vec<u8> {
    let (mut acc, mut bits, mut out) = (0u32, 0u32, vec![]);
    for b in bytes {
        acc = acc << 8 | *b as u32;
        bits += 8;
        while bits >= 5 {
            bits -= 5;
            out.push((acc >> bits) as u8 & 31);
        }
    }
    if bits > 0 {
        out.push((acc << (5 - bits)) as u8 & 31);
    }
    out
}

/// 5-bit groups to bytes; `None` if a whole unused group or non-zero padding remains.
fn from5(data: &[u8]) -> Option<Vec<u8>> {
    let (mut acc, mut bits, mut out) = (0u32, 0u32, vec![]);
    for d in data {
        acc = (acc << 5 | *d as u32) & 0xfff;
        bits += 5;
        if bits >= 8 {
            bits -= 8;
            out.push((acc >> bits) as u8);
        }
    }
    if bits >= 5 || acc & ((1 << bits) - 1) != 0 {
        return None;
    }
    Some(out)
}

fn encode5(hrp: &str, data5: &[u8], constant: u32) -> String {
    let mut values = hrp_expand(hrp);
    values.extend_from_slice(data5);
    values.extend_from_slice(&[0; 6]);
    let pm = polymod(values.into_iter()) ^ constant;
    let mut s = format!("{hrp}1");
    for d in data5 {
        s.push(CHARSET[*d as usize] as char);
    }
    for i in 0..6 {
        s.push(CHARSET[(pm >> (5 * (5 - i))) as usize & 31] as char);
    }
    s
}

fn encode(hrp: &str, bytes: &[u8]) -> String {
    encode5(hrp, &to5(bytes), BECH32)
}

/// BIP-173 decoding: (lower-case hrp, payload bytes, checksum constant that matched).
fn decode(s: &str) -> Option<(String, Vec<u8>, u32)> {
    if !s.bytes().all(|c| (33..=126).contains(&c)) {
        return None;
    }
    let has_lower = s.bytes().any(|c| c.is_ascii_lowercase());
    let has_upper = s.bytes().any(|c| c.is_ascii_uppercase());
    if has_lower && has_upper {
        return None;
    }
    let s = s.to_ascii_lowercase();
    let pos = s.rfind('1')?;
    if pos == 0 || pos + 7 > s.len() {
        return None;
    }
    let hrp = &s[..pos];
    let mut data = vec![];
    for c in s[pos + 1..].bytes() {
        data.push(CHARSET.iter().position(|x| *x == c)? as u8);
    }
    let pm = polymod(hrp_expand(hrp).into_iter().chain(data.iter().copied()));
    if pm != BECH32 && pm != BECH32M {
        return None;
    }
    let payload = from5(&data[..data.len() - 6])?;
    Some((hrp.to_string(), payload, pm))
}

/// What the statement expects of a parser for `want_kind` (None = the `Address` enum).
#[derive(Debug, PartialEq, Clone)]
enum Expect {
    Accept(usize, [u8; 20]),
    Reject(&'static str),
}

fn expect(s: &str, want_kind: Option<usize>) -> Expect {
    let Some((hrp, payload, constant)) = decode(s) else { return Expect::Reject("not-bech32") };
    if constant != BECH32 {
        return Expect::Reject("bech32m-checksum");
    }
    let Some(kind) = PREFIXES.iter().position(|p| *p == hrp) else { return Expect::Reject("prefix") };
    let Ok(id) = <[u8; 20]>::try_from(&payload[..]) else { return Expect::Reject("length") };
    match want_kind {
        Some(k) if k != kind => Expect::Reject("other-kind"),
        _ => Expect::Accept(kind, id),
    }
}

// ------------------------------------------------------------------ real code

fn kind_no(k: AddressKind) -> usize {
    match k {
        AddressKind::Account => 0,
        AddressKind::Validator => 1,
        AddressKind::Consensus => 2,
    }
}

/// Parses `s` with parser number p (0..3 typed, 3 = `Address`): Ok((kind, id)) or the error.
fn real_parse(s: &str, p: usize) -> Result<(usize, [u8; 20]), String> {
    fn fin<A: AddressTrait>(a: A) -> (usize, [u8; 20]) {
        (kind_no(a.kind()), a.as_bytes().try_into().expect("20 bytes"))
    }
    match p {
        0 => s.parse::<AccAddress>().map(fin).map_err(|e| e.to_string()),
        1 => s.parse::<ValAddress>().map(fin).map_err(|e| e.to_string()),
        2 => s.parse::<ConsAddress>().map(fin).map_err(|e| e.to_string()),
        _ => s.parse::<Address>().map(fin).map_err(|e| e.to_string()),
    }
}

fn real_display(kind: usize, id: [u8; 20]) -> (String, String, &'static str) {
    match kind {
        0 => {
            let a = AccAddress::new(Id::new(id));
            (a.to_string(), Address::from(a).to_string(), a.prefix())
        }
        1 => {
            let a = ValAddress::new(Id::new(id));
            (a.to_string(), Address::from(a).to_string(), a.prefix())
        }
        _ => {
            let a = ConsAddress::new(Id::new(id));
            (a.to_string(), Address::from(a).to_string(), a.prefix())
        }
    }
}

// ------------------------------------------------------------------ cases

#[derive(Clone, Debug, Serialize, Deserialize)]
#[serde(tag = "op")]
enum Op {
    /// display of (kind, id) and the parse-back through all four parsers
    Round { kind: usize, id: String },
    /// an arbitrary string through all four parsers
    Parse { s: String, family: String },
}

const PARSER: [&str; 4] = ["acc", "val", "cons", "any"];

fn eval(op: &Op, rep: &mut Report) {
    let base = fnv64(serde_json::to_string(op).unwrap().as_bytes());
    let case = serde_json::to_value(op).unwrap();
    match op {
        Op::Round { kind, id } => {
            let idb: [u8; 20] = hex::decode(id).unwrap().try_into().unwrap();
            let want = encode(PREFIXES[*kind], &idb);
            match guard(|| real_display(*kind, idb)) {
                Ok((s, s_enum, prefix)) => {
                    let ok = s == want && s_enum == want && prefix == PREFIXES[*kind];
                    rep.case(base, if ok { "display:bech32-own-prefix" } else { "display:WRONG" }, true);
                    if !ok {
                        rep.violation("display-not-bech32-with-own-prefix", format!("display = {s} / {s_enum} (prefix {prefix}), expected {want}"), case.clone());
                    }
                }
                Err(p) => {
                    rep.case(base, "display:panic", true);
                    rep.violation("panic", format!("display panicked: {p}"), case.clone());
                }
            }
            // the parse-back of the expected string is covered by Parse{family: honest}
        }
        Op::Parse { s, family } => {
            let upper = s.bytes().any(|c| c.is_ascii_uppercase());
            for p in 0..4 {
                let key = base ^ (p as u64 + 1).wrapping_mul(0x9E3779B97F4A7C15);
                let want = expect(s, if p < 3 { Some(p) } else { None });
                let got = guard(|| real_parse(s, p));
                let nt = family != "honest";
                match (&got, &want) {
                    (Err(pn), _) => {
                        rep.case(key, &format!("parse:panic:{family}"), nt);
                        rep.violation("panic", format!("parsing {s:?} as {} panicked: {pn}", PARSER[p]), case.clone());
                    }
                    (Ok(Ok(v)), Expect::Accept(k, id)) => {
                        rep.case(key, if family == "honest" { "parse:accept:roundtrip" } else if upper { "parse:accept:uppercase-form" } else { "parse:accept:valid-encoding" }, nt);
                        if v != &(*k, *id) {
                            rep.violation("roundtrip-mismatch", format!("{s:?} parsed as {} to kind {} id {}, expected kind {k} id {}", PARSER[p], v.0, hex::encode(v.1), hex::encode(id)), case.clone());
                        }
                    }
                    (Ok(Ok(v)), Expect::Reject(why)) => {
                        rep.case(key, &format!("parse:ACCEPTED:{why}:{family}"), nt);
                        let vk = match *why {
                            "other-kind" => "other-kind-accepted".to_string(),
                            "prefix" => "other-prefix-accepted".to_string(),
                            "length" => "wrong-length-accepted".to_string(),
                            "bech32m-checksum" => "bech32m-checksum-accepted".to_string(),
                            _ => format!("corrupted-string-accepted:{family}"),
                        };
                        rep.violation(&vk, format!("{s:?} ({family}; oracle: {why}) parsed as {} to kind {} id {}", PARSER[p], v.0, hex::encode(v.1)), case.clone());
                    }
                    (Ok(Err(e)), Expect::Accept(..)) => {
                        if upper {
                            // BIP-173 allows the all-upper-case form; the statement does not demand it
                            rep.case(key, "parse:reject:uppercase-form(not-demanded)", nt);
                        } else {
                            rep.case(key, &format!("parse:REJECTED-valid:{family}"), nt);
                            rep.violation("valid-address-rejected", format!("{s:?} rejected by {}: {e}", PARSER[p]), case.clone());
                        }
                    }
                    (Ok(Err(_)), Expect::Reject(why)) => rep.case(key, &format!("parse:reject:{why}:{family}"), nt),
                }
            }
            if rep.wants_sample() && base % 9973 == 1 {
                rep.sample(|| json!({"case": case, "expected": format!("{:?}", expect(s, None))}));
            }
        }
    }
}

// ------------------------------------------------------------------ the space

fn ids(seed: u64) -> Vec<[u8; 20]> {
    let mut v = vec![[0u8; 20], [0xff; 20]];
    for bit in 0..160 {
        let mut id = [0u8; 20];
        id[bit / 8] = 0x80 >> (bit % 8);
        v.push(id);
    }
    let mut f = Fill::new(seed, 0xC47);
    for _ in 0..16 {
        v.push(f.array());
    }
    v
}

fn corruptions(kind: usize, id: &[u8; 20], out: &mut Vec<Op>) {
    let hrp = PREFIXES[kind];
    let s = encode(hrp, id);
    let mut push = |s: String, family: &str| out.push(Op::Parse { s, family: family.into() });
    // every position x every other bech32 character (+ the characters bech32 excludes, a
    // space, and the case flip)
    let mut alphabet: Vec<u8> = CHARSET.to_vec();
    alphabet.extend_from_slice(b"bio1 ");
    for pos in 0..s.len() {
        let orig = s.as_bytes()[pos];
        for &c in &alphabet {
            if c != orig {
                let mut b = s.clone().into_bytes();
                b[pos] = c;
                push(String::from_utf8(b).unwrap(), "substitution");
            }
        }
        if orig.is_ascii_lowercase() {
            let mut b = s.clone().into_bytes();
            b[pos] = orig.to_ascii_uppercase();
            push(String::from_utf8(b).unwrap(), "case-flip");
        }
        // deletion / duplication of one character
        let mut b = s.clone().into_bytes();
        b.remove(pos);
        push(String::from_utf8(b).unwrap(), "deletion");
        let mut b = s.clone().into_bytes();
        b.insert(pos, orig);
        push(String::from_utf8(b).unwrap(), "duplication");
        if pos + 1 < s.len() && s.as_bytes()[pos + 1] != orig {
            let mut b = s.clone().into_bytes();
            b.swap(pos, pos + 1);
            push(String::from_utf8(b).unwrap(), "transposition");
        }
    }
    push(s.to_ascii_uppercase(), "uppercase");
    push(format!(" {s}"), "whitespace");
    push(format!("{s} "), "whitespace");
    push(format!("{s}\n"), "whitespace");
    push(format!("{s}q"), "appended");
    push(String::new(), "empty");
    // valid checksums over something else
    push(encode5(hrp, &to5(id), BECH32M), "bech32m");
    for other in ["cosmos", "celestiapub", "celestiavaloperpub", "celestiavalconspub", "celesti", "celestiaa", "celestiavalope", "celestiavaloperr", "c", "celestiavalconss"] {
        push(encode(&other.to_ascii_lowercase(), id), "other-prefix");
    }
    for k in 0..3 {
        if k != kind {
            push(encode(PREFIXES[k], id), "other-kind-prefix");
        }
    }
    for len in [0usize, 1, 19, 21, 32, 33] {
        let mut payload = id.to_vec();
        payload.resize(len, 0xa5);
        push(encode(hrp, &payload), "payload-length");
    }
    // 20 bytes followed by one more 5-bit group, or a shorter payload with non-zero padding
    for extra in [0u8, 1, 31] {
        let mut d = to5(id);
        d.push(extra);
        push(encode5(hrp, &d, BECH32), "extra-5bit-group");
    }
    let mut d = to5(&id[..19]);
    *d.last_mut().unwrap() |= 1;
    push(encode5(hrp, &d, BECH32), "nonzero-padding");
    // no checksum / truncated checksum
    let body = &s[..s.len() - 6];
    push(body.to_string(), "checksum-missing");
    push(s[..s.len() - 1].to_string(), "checksum-truncated");
    push(format!("{body}qqqqqq"), "checksum-zero");
    // separator
    push(s.replacen('1', "", 1), "separator-missing");
    push(s.replacen('1', "11", 1), "separator-doubled");
    push(s[hrp.len()..].to_string(), "hrp-missing");
}

fn main() {
    let ctx = Ctx::from_args("C47");
    let rep = if let Some(c) = ctx.replay_case() {
        let op: Op = serde_json::from_value(c).unwrap_or_else(|e| machinery_error("C47", &format!("bad replay case: {e}")));
        let mut rep = Report::new();
        eval(&op, &mut rep);
        rep
    } else {
        // oracle self-check on the BIP-173 test vector and the padding rule
        if decode("A12UEL5L").map(|d| (d.0, d.1.len(), d.2)) != Some(("a".into(), 0, BECH32))
            || decode("abcdef1qpzry9x8gf2tvdw0s3jn54khce6mua7lmqqqxw").is_none()
            || from5(&to5(&[1, 2, 3])) != Some(vec![1, 2, 3])
            || encode("a", &[]) != "a12uel5l"
        {
            machinery_error("C47", "oracle bech32 self-check failed");
        }
        let all = ids(ctx.seed);
        let corrupt_ids: BTreeSet<usize> = if ctx.quick() {
            // zero, ff, single bits 0,1,7,8,79,80,158,159, four seeded
            [0usize, 1, 2, 3, 9, 10, 81, 82, 160, 161, 162, 163, 164, 165].into_iter().collect()
        } else {
            (0..all.len()).collect()
        };
        let mut jobs: Vec<(usize, [u8; 20], bool)> = vec![];
        for (n, id) in all.iter().enumerate() {
            for kind in 0..3 {
                jobs.push((kind, *id, corrupt_ids.contains(&n)));
            }
        }
        // cases are generated inside the workers
        let mut rep = par_cases(jobs, |(kind, id, corrupt), rep| {
            let mut ops = vec![Op::Round { kind, id: hex::encode(id) }, Op::Parse { s: encode(PREFIXES[kind], &id), family: "honest".into() }];
            if corrupt {
                corruptions(kind, &id, &mut ops);
            }
            for op in &ops {
                eval(op, rep);
            }
        });
        rep.extra("ids", json!(all.len()));
        rep.extra("ids_with_corruptions", json!(corrupt_ids.len()));
        rep
    };
    finish(
        &ctx,
        rep,
        Spec {
            rule: "ids = all-zero, all-ff, the 160 single-bit ids, 16 seeded ids; kinds = account, validator, consensus; every (kind,id): display == own BIP-173 encoding with the kind's prefix, and that string through the four parsers (3 typed + Address). Corruptions (quick: for 14 ids = zero, ff, bits {0,1,7,8,79,80,158,159}, 4 seeded; thorough: all 178 ids) x 3 kinds, each through the four parsers: every character position x every other character of the bech32 charset plus {b,i,o,1,space}; case flip, deletion, duplication, transposition at every position; whole string upper-cased; leading/trailing whitespace; appended character; empty string; bech32m checksum; 10 foreign prefixes and the 2 other kinds' prefixes with valid checksums; payloads of 0,1,19,21,32,33 bytes with valid checksums; 20-byte payload plus one extra 5-bit group (0,1,31); non-zero padding; missing / truncated / zero checksum; missing / doubled separator; missing prefix. distinct = distinct (string, parser); non-trivial = every corrupted string",
            assumptions: &[
                "16 ids come from VERIF_SEED",
                "BIP-173 permits the all-upper-case form of a valid string; the statement demands neither acceptance nor refusal of it (if accepted it must be the same address)",
                "'bad checksum' is read as: anything but a valid BIP-173 bech32 checksum, so a bech32m (BIP-350) checksum must be refused; 'wrong length' includes a 20-byte payload followed by a superfluous 5-bit group (invalid under BIP-173's padding rule)",
            ],
            required_classes: &[
                "display:bech32-own-prefix",
                "parse:accept:roundtrip",
                "parse:reject:other-kind:honest",
                "parse:reject:not-bech32:substitution",
                "parse:reject:not-bech32:case-flip",
                "parse:reject:prefix:other-prefix",
                "parse:reject:other-kind:other-kind-prefix",
                "parse:reject:length:payload-length",
            ],
            exhaustive: true,
        },
    );
}
