//! C07 — Bad-encoding fraud proofs are sound and complete.   (engine E1)
//!
//! Squares: honest squares and squares with a deliberately corrupted row/column (roots
//! recomputed over the corrupted cells), all built by `shared/square.rs` without lumina
//! code.  For every square and every claimed axis the complete families of proofs listed in
//! `RULE` are built through the public protobuf type and handed to the real
//! `BadEncodingFraudProof::try_from` + `validate`.
//!
//! Oracle (from the statement, over the brute-force view of the committed square):
//!   * validates  =>  the claimed axis exists and is not a codeword (parity(first half) != second half);
//!   * claimed axis not a codeword, >= half of its shares present, each the committed share of
//!     its own position with its own inclusion proof (row- or column-wise), matching height
//!     =>  validates;
//!   * never a panic.
#[path = "../shared/square.rs"]
mod square;

use celestia_proto::proof::pb::Proof as RawProof;
use celestia_proto::share::eds::byzantine::pb::{BadEncoding as RawBefp, Share as RawShareWithProof};
use celestia_types::fraud_proof::{BadEncodingFraudProof, FraudProof};
use celestia_types::nmt::{NamespacedHash, NamespacedHashExt};
use celestia_types::test_utils::ExtendedHeaderGenerator;
use celestia_types::{AppVersion, DataAvailabilityHeader, ExtendedDataSquare, ExtendedHeader};
use lv_core::*;
use rayon::prelude::*;
use serde::{Deserialize, Serialize};
use serde_json::json;
use square::*;

const RULE: &str = "squares: EDS width w in {4,8} (quick) / {4,8,16,32} (thorough) x 2 namespace layouts x {honest} ∪ {honest with an unsupported namespace version in the original shares, w<=8} ∪ {corrupted: axis type x index in {0,k-1,k,w-1} x pattern in {first cell, last cell, k+1 left cells, k+1 alternating cells, all cells: payload bytes trashed; last cell: all 512 bytes replaced}, roots recomputed}; \
claims: every (axis type, index) for w<=8, indices {0,1,k-1,k,w-1} ∪ corrupted index beyond; \
proof families per claim: own[presence masks x proof-axis mixes] (w=4: all 16 masks x all 16 mixes; w=8: full, every k-subset, k+1/k-1 left (quick) or all 256 masks (thorough) x {all-row, all-col, alternating, alternating'}; w>=16: full, left, right, even, odd, every contiguous k-window, k-1 left + last, k+1 left, k-1 left x 4 mixes); \
swap[every pair a<b exchanged, each share keeping its own valid proof; same-axis / orthogonal / same-axis with range rewritten to the new position; all present / only k present]; \
dup[share a also placed at b, every ordered pair; all present / k present]; \
wrong-line[orthogonal proofs of another line l' (all l' for w<=8, else i+1, i+k): whole axis / right half / left half only]; \
substitute[position j carries the share and same-axis proof of the next parallel line]; tamper[one byte of share j flipped]; \
envelope[height+1, index in {w, w+1, 65535, 65536}, len w-1 / w+1 / 0, axis 2, range widened, absence-proof form]. \
distinct = (square, claim, family, entries); non-trivial = decodable proof with w entries, >= k present, matching height, index < w (verdict depends on proofs and reconstruction)";

#[derive(Clone, Debug, Serialize, Deserialize, PartialEq)]
struct Corrupt {
    axis: u8,
    index: usize,
    pattern: u8,
}

#[derive(Clone, Debug, Serialize, Deserialize, PartialEq)]
struct SquareSpec {
    w: usize,
    layout: usize,
    corrupt: Option<Corrupt>,
}

#[derive(Clone, Debug, Serialize, Deserialize)]
struct Entry {
    /// the committed cell whose share bytes and inclusion proof are used
    cell: (usize, usize),
    /// 0: proof in the cell's row tree, 1: in its column tree
    pa: u8,
    #[serde(default)]
    range: Option<(i64, i64)>,
    #[serde(default)]
    flip: Option<usize>,
    #[serde(default)]
    absence: bool,
}

#[derive(Clone, Debug, Serialize, Deserialize)]
struct ProofCase {
    fam: String,
    height_delta: u64,
    axis: i32,
    index: u32,
    entries: Vec<Option<Entry>>,
}

struct SqCtx {
    spec: SquareSpec,
    sq: Sq,
    header: ExtendedHeader,
    /// codeword[ax][i]
    codeword: [Vec<bool>; 2],
}

fn pattern_positions(pattern: u8, w: usize) -> Vec<usize> {
    let k = w / 2;
    match pattern {
        0 => vec![0],
        1 => vec![w - 1],
        5 => vec![w - 1],
        2 => (0..=k).collect(),
        3 => {
            let mut v: Vec<usize> = (0..w).step_by(2).collect();
            v.push(1);
            v.sort();
            v
        }
        _ => (0..w).collect(),
    }
}

fn to_hash(n: &lv_core::oracle::NmtNode) -> NamespacedHash {
    NamespacedHash::from_raw(&n.to_bytes()).expect("90-byte namespaced hash")
}

fn build_square(spec: &SquareSpec, seed: u64, id: &str) -> SqCtx {
    let w = spec.w;
    let k = w / 2;
    let ods = build_ods(k, spec.layout, seed);
    let mut cells = extend(&ods, k);
    if let Some(c) = &spec.corrupt {
        let mut fill = Fill::new(seed, 0xC07 ^ ((w as u64) << 32) ^ ((c.index as u64) << 16) ^ ((c.axis as u64) << 8) ^ c.pattern as u64);
        for j in pattern_positions(c.pattern, w) {
            let (r, col) = Sq::coord(Ax::from_i(c.axis as u64), c.index, j);
            if c.pattern == 5 {
                // whole (parity) share replaced, namespace-prefix bytes included
                cells[r * w + col] = fill.bytes(SHARE);
            } else {
                trash_payload(&mut cells[r * w + col], &mut fill);
            }
        }
    }
    let sq = Sq::from_cells(cells, w);
    let rows: Vec<NamespacedHash> = (0..w).map(|i| to_hash(&sq.root(Ax::Row, i))).collect();
    let cols: Vec<NamespacedHash> = (0..w).map(|i| to_hash(&sq.root(Ax::Col, i))).collect();
    let dah = DataAvailabilityHeader::new_unchecked(rows, cols);
    // machinery sanity: lumina computes the same roots over the same cells
    // (layout 2 carries a namespace version lumina refuses to load, the roots exist all the same)
    if spec.layout != 2 {
        let eds = ExtendedDataSquare::new(sq.cells.clone(), "Leopard".into(), AppVersion::V2)
            .unwrap_or_else(|e| machinery_error(id, &format!("fixture square refused by ExtendedDataSquare::new: {e}")));
        if DataAvailabilityHeader::from_eds(&eds) != dah {
            machinery_error(id, "oracle NMT roots differ from DataAvailabilityHeader::from_eds");
        }
    }
    let header = ExtendedHeaderGenerator::new().next_with_dah(dah);
    let codeword = [
        (0..w).map(|i| is_codeword(&sq.axis(Ax::Row, i))).collect(),
        (0..w).map(|i| is_codeword(&sq.axis(Ax::Col, i))).collect(),
    ];
    SqCtx {
        spec: spec.clone(),
        sq,
        header,
        codeword,
    }
}

fn build_raw(cx: &SqCtx, pc: &ProofCase) -> RawBefp {
    let shares = pc
        .entries
        .iter()
        .map(|e| match e {
            None => RawShareWithProof::default(),
            Some(e) => {
                let (r, c) = e.cell;
                let pa = Ax::from_i(e.pa as u64);
                let (idx, nodes) = cx.sq.cell_proof(r, c, pa);
                let mut data = cx.sq.ns(r, c).to_vec();
                data.extend_from_slice(cx.sq.cell(r, c));
                if let Some(f) = e.flip {
                    data[oracle::NS + f] ^= 1;
                }
                let (start, end) = e.range.unwrap_or((idx as i64, idx as i64 + 1));
                RawShareWithProof {
                    data,
                    proof: Some(RawProof {
                        start,
                        end,
                        nodes: nodes.iter().map(|n| n.to_bytes()).collect(),
                        leaf_hash: if e.absence { nodes[0].to_bytes() } else { vec![] },
                        is_max_namespace_ignored: true,
                    }),
                    proof_axis: e.pa as i32,
                }
            }
        })
        .collect();
    RawBefp {
        header_hash: cx.header.hash().as_bytes().to_vec(),
        height: cx.header.height() + pc.height_delta,
        shares,
        index: pc.index,
        axis: pc.axis,
    }
}

fn own_entry(ax: Ax, i: usize, j: usize, pa: u8) -> Entry {
    Entry {
        cell: Sq::coord(ax, i, j),
        pa,
        range: None,
        flip: None,
        absence: false,
    }
}

fn eval(cx: &SqCtx, pc: &ProofCase, seed: u64, rep: &mut Report) {
    let w = cx.sq.w;
    let k = cx.sq.k;
    let raw = build_raw(cx, pc);
    let out: Result<Result<(), String>, String> = guard(|| {
        let p = BadEncodingFraudProof::try_from(raw).map_err(|e| format!("decode:{e}"))?;
        p.validate(&cx.header).map_err(|e| match e {
            celestia_types::Error::RangeProofError(_) => "proof".to_string(),
            celestia_types::Error::Validation(_) => "validation".to_string(),
            other => format!("other:{other}"),
        })
    });

    let axis_ok = pc.axis == 0 || pc.axis == 1;
    let ax = Ax::from_i(pc.axis as u64);
    let idx = pc.index as usize;
    let in_range = axis_ok && idx < w;
    let bad = in_range && !cx.codeword[ax as usize][idx];
    let present = pc.entries.iter().filter(|e| e.is_some()).count();
    let own_form = in_range
        && pc.height_delta == 0
        && pc.entries.len() == w
        && present >= k
        && pc.entries.iter().enumerate().all(|(j, e)| match e {
            None => true,
            Some(e) => e.cell == Sq::coord(ax, idx, j) && e.range.is_none() && e.flip.is_none() && !e.absence,
        });
    let state = if !in_range {
        "no-axis"
    } else if bad {
        "bad"
    } else {
        "good"
    };
    let outcome = match &out {
        Err(_) => "panic".to_string(),
        Ok(Ok(())) => "accept".to_string(),
        Ok(Err(e)) if e.starts_with("decode:") => "reject:decode".to_string(),
        Ok(Err(e)) if e.starts_with("other:") => "reject:other".to_string(),
        Ok(Err(e)) => format!("reject:{e}"),
    };
    let class = format!("{state}/{}/{outcome}", pc.fam);
    let case = json!({"seed": seed, "square": cx.spec, "proof": pc});
    let key = fnv64(serde_json::to_string(&json!([cx.spec, pc])).unwrap().as_bytes());
    let nontrivial = in_range && pc.height_delta == 0 && pc.entries.len() == w && present >= k && !outcome.starts_with("reject:decode");
    rep.case(key, &class, nontrivial);
    if rep.wants_sample() && (key % 9973 == 0 || rep.evaluations == 1) {
        rep.sample(|| json!({"case": case, "outcome": outcome, "axis_state": state}));
    }
    match &out {
        Err(p) if p.contains("left max namespace must be <= right min namespace") => rep.violation(
            "nmt-hash-nodes-panic",
            format!("nmt-rs hash_nodes panicked inside NamespaceProof::verify_range ({p})"),
            case,
        ),
        Err(p) => rep.violation(
            &format!("validate-panicked:{}", pc.fam),
            format!("BadEncodingFraudProof::validate panicked ({p}); claimed axis is {state}"),
            case,
        ),
        Ok(Ok(())) if !bad => rep.violation(
            &format!("fraud-accepted-on-codeword-axis:{}", pc.fam),
            format!(
                "proof validated although {} {} of the committed square is {} (family {})",
                if ax == Ax::Row { "row" } else { "column" },
                idx,
                if in_range { "a Reed-Solomon codeword consistent with its root" } else { "not an axis of the square" },
                pc.fam
            ),
            case,
        ),
        Ok(Err(e)) if bad && own_form => rep.violation(
            "valid-proof-of-bad-axis-rejected",
            format!(
                "axis is not a codeword and the proof carries {present} >= {k} committed shares, each at its own position with its own inclusion proof, but validate said: {e}"
            ),
            case,
        ),
        _ => {}
    }
}

fn mixes(w: usize) -> Vec<Vec<u8>> {
    if w == 4 {
        (0..16u32).map(|m| (0..4).map(|j| (m >> j & 1) as u8).collect()).collect()
    } else {
        vec![
            vec![0; w],
            vec![1; w],
            (0..w).map(|j| (j % 2) as u8).collect(),
            (0..w).map(|j| ((j + 1) % 2) as u8).collect(),
        ]
    }
}

fn masks(w: usize, tier: Tier) -> Vec<Vec<bool>> {
    let k = w / 2;
    let from_bits = |m: u64| (0..w).map(|j| m >> j & 1 == 1).collect::<Vec<bool>>();
    let mut out: Vec<Vec<bool>> = vec![];
    if w == 4 || (w == 8 && tier == Tier::Thorough) {
        // simplest first: full, then by decreasing number of present shares
        let mut all: Vec<u64> = (0..(1u64 << w)).collect();
        all.sort_by_key(|m| std::cmp::Reverse(m.count_ones()));
        out.extend(all.into_iter().map(from_bits));
    } else if w == 8 {
        out.push(vec![true; w]);
        out.extend(k_subsets(w, k).into_iter().map(from_bits));
        out.push((0..w).map(|j| j <= k).collect());
        out.push((0..w).map(|j| j < k - 1).collect());
    } else {
        out.push(vec![true; w]);
        out.push((0..w).map(|j| j < k).collect());
        out.push((0..w).map(|j| j >= k).collect());
        out.push((0..w).map(|j| j % 2 == 0).collect());
        out.push((0..w).map(|j| j % 2 == 1).collect());
        for s in 1..k {
            out.push((0..w).map(|j| j >= s && j < s + k).collect());
        }
        out.push((0..w).map(|j| j < k - 1 || j == w - 1).collect());
        out.push((0..w).map(|j| j <= k).collect());
        out.push((0..w).map(|j| j < k - 1).collect());
    }
    out
}

/// `k` present positions that contain `must` (≤ 2 positions) and otherwise the lowest free ones.
fn k_present_with(w: usize, must: &[usize]) -> Vec<bool> {
    let k = w / 2;
    let mut m = vec![false; w];
    for &p in must {
        m[p] = true;
    }
    let mut n = m.iter().filter(|x| **x).count();
    for slot in m.iter_mut() {
        if n >= k {
            break;
        }
        if !*slot {
            *slot = true;
            n += 1;
        }
    }
    m
}

fn claim_cases(cx: &SqCtx, ax: Ax, i: usize, tier: Tier, mut f: impl FnMut(ProofCase)) {
    let w = cx.sq.w;
    let k = cx.sq.k;
    let t = ax as u8;
    let o = ax.other() as u8;
    let mk = |fam: &str, entries: Vec<Option<Entry>>| ProofCase {
        fam: fam.to_string(),
        height_delta: 0,
        axis: ax as i32,
        index: i as u32,
        entries,
    };
    let own_full = |pa: u8| -> Vec<Option<Entry>> { (0..w).map(|j| Some(own_entry(ax, i, j, pa))).collect() };
    let apply_mask = |mut e: Vec<Option<Entry>>, m: &[bool]| {
        for (slot, keep) in e.iter_mut().zip(m) {
            if !keep {
                *slot = None;
            }
        }
        e
    };

    // own
    for m in masks(w, tier) {
        for mix in mixes(w) {
            let e: Vec<Option<Entry>> = (0..w).map(|j| m[j].then(|| own_entry(ax, i, j, mix[j]))).collect();
            f(mk("own", e));
        }
    }
    // swap
    for a in 0..w {
        for b in a + 1..w {
            for (variant, fam) in [(0u8, "swap-same-axis"), (1, "swap-orthogonal"), (2, "swap-reindexed")] {
                let pa = if variant == 1 { o } else { t };
                let mut e = own_full(pa);
                let (ea, eb) = (e[a].clone().unwrap(), e[b].clone().unwrap());
                e[a] = Some(Entry {
                    range: (variant == 2).then_some((a as i64, a as i64 + 1)),
                    ..eb
                });
                e[b] = Some(Entry {
                    range: (variant == 2).then_some((b as i64, b as i64 + 1)),
                    ..ea
                });
                f(mk(fam, e.clone()));
                f(mk(fam, apply_mask(e, &k_present_with(w, &[a, b]))));
            }
        }
    }
    // dup: share a also at b
    for a in 0..w {
        for b in 0..w {
            if a == b {
                continue;
            }
            let mut e = own_full(t);
            e[b] = e[a].clone();
            f(mk("dup", e.clone()));
            f(mk("dup", apply_mask(e, &k_present_with(w, &[a, b]))));
        }
    }
    // wrong line, orthogonal proofs
    let others: Vec<usize> = if w <= 8 {
        (0..w).filter(|l| *l != i).collect()
    } else {
        let mut v = vec![(i + 1) % w, (i + k) % w];
        v.dedup();
        v
    };
    for &l in &others {
        let from_l = |j: usize| Some(own_entry(ax, l, j, o));
        f(mk("wrong-line", (0..w).map(from_l).collect()));
        f(mk(
            "wrong-line",
            (0..w).map(|j| if j >= k { from_l(j) } else { Some(own_entry(ax, i, j, o)) }).collect(),
        ));
        f(mk("wrong-line", (0..w).map(|j| if j < k { from_l(j) } else { None }).collect()));
    }
    // substitute: share + same-axis proof of the next parallel line
    for j in 0..w {
        let mut e = own_full(t);
        e[j] = Some(own_entry(ax, (i + 1) % w, j, t));
        f(mk("substitute", e));
    }
    // tamper
    let tj: Vec<usize> = if w <= 8 { (0..w).collect() } else { vec![0, k, w - 1] };
    for &j in &tj {
        for flip in [0usize, 100, SHARE - 1] {
            for pa in [t, o] {
                let mut e = own_full(pa);
                e[j].as_mut().unwrap().flip = Some(flip);
                f(mk("tamper", e));
            }
        }
    }
    // envelope
    {
        let mut c = mk("envelope-height", own_full(t));
        c.height_delta = 1;
        f(c);
        for idx in [w as u32, w as u32 + 1, 65535, 65536] {
            let mut c = mk("envelope-index", own_full(t));
            c.index = idx;
            f(c);
        }
        let mut e = own_full(t);
        e.pop();
        f(mk("envelope-len", e));
        let mut e = own_full(t);
        e.push(e[w - 1].clone());
        f(mk("envelope-len", e));
        f(mk("envelope-len", vec![]));
        let mut c = mk("envelope-axis", own_full(t));
        c.axis = 2;
        f(c);
        let mut e = own_full(t);
        e[0].as_mut().unwrap().range = Some((0, 2));
        f(mk("envelope-range", e));
        let mut e = own_full(t);
        e[0].as_mut().unwrap().absence = true;
        f(mk("envelope-absence", e));
    }
}

fn square_specs(tier: Tier) -> Vec<SquareSpec> {
    let widths: &[usize] = tier.pick(&[4, 8][..], &[4, 8, 16, 32][..]);
    let mut v = vec![];
    for &w in widths {
        let k = w / 2;
        for layout in 0..2 {
            v.push(SquareSpec {
                w,
                layout,
                corrupt: None,
            });
        }
        if w <= 8 {
            // honestly encoded square whose original shares carry an unsupported namespace version
            v.push(SquareSpec {
                w,
                layout: 2,
                corrupt: None,
            });
        }
        for layout in 0..2 {
            let mut idxs = vec![0, k - 1, k, w - 1];
            idxs.dedup();
            for axis in 0..2u8 {
                for &index in &idxs {
                    for pattern in 0..6u8 {
                        v.push(SquareSpec {
                            w,
                            layout,
                            corrupt: Some(Corrupt { axis, index, pattern }),
                        });
                    }
                }
            }
        }
    }
    v
}

fn claims(cx: &SqCtx) -> Vec<(Ax, usize)> {
    let w = cx.sq.w;
    let k = cx.sq.k;
    let mut idx: Vec<usize> = if w <= 8 { (0..w).collect() } else { vec![0, 1, k - 1, k, w - 1] };
    if let Some(c) = &cx.spec.corrupt {
        idx.push(c.index);
    }
    idx.sort();
    idx.dedup();
    let mut v = vec![];
    for ax in [Ax::Row, Ax::Col] {
        for &i in &idx {
            v.push((ax, i));
        }
    }
    v
}

fn main() {
    let ctx = Ctx::from_args("C07");
    if let Some(c) = ctx.replay_case() {
        let seed = c["seed"].as_u64().unwrap_or(ctx.seed);
        let spec: SquareSpec = serde_json::from_value(c["square"].clone())
            .unwrap_or_else(|e| machinery_error(&ctx.id, &format!("bad replay square: {e}")));
        let pc: ProofCase = serde_json::from_value(c["proof"].clone())
            .unwrap_or_else(|e| machinery_error(&ctx.id, &format!("bad replay proof: {e}")));
        let cx = build_square(&spec, seed, &ctx.id);
        let mut rep = Report::new();
        eval(&cx, &pc, seed, &mut rep);
        println!("REPLAY-OUTCOME {:?}", rep.classes.keys().collect::<Vec<_>>());
        finish(&ctx, rep, spec_of());
    }

    let specs = square_specs(ctx.tier);
    let id = ctx.id.clone();
    let seed = ctx.seed;
    let squares: Vec<SqCtx> = specs.par_iter().map(|s| build_square(s, seed, &id)).collect();
    let n_bad_squares = squares.iter().filter(|s| s.codeword.iter().any(|v| v.iter().any(|c| !c))).count();
    let items: Vec<(usize, Ax, usize)> = squares
        .iter()
        .enumerate()
        .flat_map(|(si, cx)| claims(cx).into_iter().map(move |(ax, i)| (si, ax, i)))
        .collect();
    let wall_cap = std::time::Duration::from_secs(ctx.tier.pick(600, 3000));
    let t0 = std::time::Instant::now();
    let tier = ctx.tier;
    let mut rep = par_cases(items, |(si, ax, i), rep| {
        if t0.elapsed() > wall_cap {
            rep.cap_hit("wall cap: remaining claims skipped");
            return;
        }
        let cx = &squares[si];
        claim_cases(cx, ax, i, tier, |pc| eval(cx, &pc, seed, rep));
    });
    rep.extra("squares", json!(squares.len()));
    rep.extra("squares_with_a_non_codeword_axis", json!(n_bad_squares));
    finish(&ctx, rep, spec_of());
}

fn spec_of() -> Spec<'static> {
    Spec {
        rule: RULE,
        assumptions: &[
            "VERIF_SEED only selects share payload bytes",
            "codeword test and parity use leopard_codec (same GF(2^8) codec as lumina, called independently on the brute-force view); NMT hashing and inclusion proofs come from lv_core::oracle, not from nmt-rs",
            "sha-256 collision freedom (a share proven at a position is the committed share)",
            "validate() does not look at header_hash; the statement does not ask it to",
            "wrong height / too few shares on a genuinely bad axis carry no demand (the statement only fixes the verdict for >= half the shares at their own positions)",
        ],
        required_classes: &[
            "bad/own/accept",
            "good/own/reject*",
            "good/swap-same-axis/reject*",
            "good/swap-orthogonal/reject*",
            "good/swap-reindexed/reject*",
            "good/dup/reject*",
            "good/wrong-line/reject*",
            "good/substitute/reject*",
            "good/tamper/reject*",
            "good/envelope-height/reject*",
            "good/envelope-len/reject*",
            "no-axis/envelope-index/reject*",
            "no-axis/envelope-axis/reject*",
        ],
        exhaustive: true,
    }
}
