//! C04 — A verified sample is the share at the requested coordinates.   (engine E1)
//!
//! Space (per square = width x namespace layout, payload bytes from VERIF_SEED):
//!   for EVERY requested coordinate (r,c) of the square and BOTH proof axes
//!   * honest     : `Sample::new(r,c,axis)`, verified directly and after `encode`/`decode`;
//!   * relocation : the honest sample of every OTHER position (whole square for small widths,
//!                  same row + same column + transposed position for large ones), as built
//!                  and with its `proof_type` flipped — valid share + valid proof, wrong place;
//!   * mutation   : the honest sample of (r,c) with one element altered: a share byte, the
//!                  proof range (shifted, widened, emptied, wrapped), every sibling (flipped at
//!                  4 byte positions, dropped, duplicated, swapped), sibling list padded to
//!                  63/64/65, `proof_type`, `is_max_namespace_ignored`, leaf hash set (absence),
//!                  parity flag, share/proof missing, share of wrong length;
//!   * foreign    : the honest sample of (r,c) of a different square (other payload);
//!   * outside    : requests for coordinates OUTSIDE the square (in-line index w..=2w and larger
//!                  powers of two) answered with honest samples of the line whose proof range is
//!                  moved to the requested index (an NMT proof does not commit to the tree size).
//!   Every candidate is presented on two paths: "direct" (the `Sample` struct, as a caller of
//!   the public API would build it) and "wire" (protobuf bytes -> `Sample::decode(id)`).
//! Oracle (from the statement, brute force on the square): `verify(id(r,c))` may return Ok only
//! if the candidate's share bytes equal `cells[r][c]`; honest samples must be accepted on both
//! paths and decode to the same share.  A panic is never an acceptable verdict.
#[path = "../shared/eds_fix.rs"]
mod eds_fix;

use bytes::BytesMut;
use celestia_proto::shwap::Sample as RawSample;
use celestia_types::nmt::NamespaceProof;
use celestia_types::sample::{Sample, SampleId};
use celestia_types::{AxisType, Share};
use eds_fix::*;
use lv_core::oracle::nmt_leaf;
use lv_core::*;
use prost::Message;
use rayon::prelude::*;
use serde::{Deserialize, Serialize};
use serde_json::json;

#[derive(Clone, Debug, Serialize, Deserialize, PartialEq)]
enum Mut {
    None,
    /// xor 1 into byte `pos` of the share
    ShareByte { pos: usize },
    /// set the proof range
    Range { start: i64, end: i64 },
    SibFlip { idx: usize, byte: usize },
    SibDrop { idx: usize },
    SibDup { idx: usize },
    SibSwap { idx: usize },
    /// repeat the last sibling until the list has `len` entries
    SibPad { len: usize },
    AxisFlip,
    AxisSet { value: i32 },
    IgnoreMaxOff,
    /// set leaf_hash (turns the proof into an absence proof)
    LeafHash,
    /// direct path only: the share is constructed with the opposite parity flag
    ParityFlip,
    /// wire path only
    NoShare,
    NoProof,
    ShareLen { len: usize },
}

impl Mut {
    fn family(&self) -> &'static str {
        match self {
            Mut::None => "None",
            Mut::ShareByte { .. } => "ShareByte",
            Mut::Range { .. } => "Range",
            Mut::SibFlip { .. } => "SibFlip",
            Mut::SibDrop { .. } => "SibDrop",
            Mut::SibDup { .. } => "SibDup",
            Mut::SibSwap { .. } => "SibSwap",
            Mut::SibPad { .. } => "SibPad",
            Mut::AxisFlip => "AxisFlip",
            Mut::AxisSet { .. } => "AxisSet",
            Mut::IgnoreMaxOff => "IgnoreMaxOff",
            Mut::LeafHash => "LeafHash",
            Mut::ParityFlip => "ParityFlip",
            Mut::NoShare => "NoShare",
            Mut::NoProof => "NoProof",
            Mut::ShareLen { .. } => "ShareLen",
        }
    }
    fn direct_ok(&self) -> bool {
        !matches!(self, Mut::NoShare | Mut::NoProof | Mut::ShareLen { .. })
    }
    fn wire_ok(&self) -> bool {
        !matches!(self, Mut::ParityFlip)
    }
}

#[derive(Clone, Debug, Serialize, Deserialize)]
struct Case {
    seed: u64,
    width: usize,
    layout: usize,
    /// requested coordinate (row, column)
    req: (u16, u16),
    /// coordinate the honest sample was built for
    src: (u16, u16),
    /// 0 = row proof, 1 = column proof
    axis: u8,
    foreign: bool,
    mutation: Mut,
    /// "direct" | "wire"
    path: String,
}

struct World {
    fx: Fixture,
    honest: Vec<Sample>,
    foreign: Option<(Fixture, Vec<Sample>)>,
}

fn honest_table(fx: &Fixture, id: &str) -> Vec<Sample> {
    let w = fx.width;
    let v: Vec<Result<Sample, String>> = (0..2 * w * w)
        .into_par_iter()
        .map(|i| {
            let (axis, r, c) = (i / (w * w), (i / w) % w, i % w);
            let at = if axis == 0 { AxisType::Row } else { AxisType::Col };
            Sample::new(r as u16, c as u16, at, &fx.eds).map_err(|e| format!("Sample::new({r},{c},{at}) failed: {e}"))
        })
        .collect();
    v.into_iter().map(|r| r.unwrap_or_else(|e| machinery_error(id, &e))).collect()
}

impl World {
    fn build(width: usize, layout: usize, seed: u64, with_foreign: bool, id: &str) -> World {
        let fx = Fixture::build(width, layout, seed).unwrap_or_else(|e| machinery_error(id, &e));
        let honest = honest_table(&fx, id);
        let foreign = with_foreign.then(|| {
            let f = Fixture::build(width, layout, seed ^ 0x5EED_F00D_0BAD_CAFE).unwrap_or_else(|e| machinery_error(id, &e));
            let h = honest_table(&f, id);
            (f, h)
        });
        World { fx, honest, foreign }
    }
    fn sample(&self, foreign: bool, axis: u8, pos: (u16, u16)) -> &Sample {
        let w = self.fx.width;
        let i = (axis as usize * w + pos.0 as usize) * w + pos.1 as usize;
        if foreign { &self.foreign.as_ref().expect("foreign fixture").1[i] } else { &self.honest[i] }
    }
}

fn apply(m: &Mut, raw: &mut RawSample, parity: &mut bool, leaf_ns: &[u8; 29]) -> bool {
    // returns false when the mutation is not applicable to this sample
    match m {
        Mut::None => {}
        Mut::ShareByte { pos } => raw.share.as_mut().unwrap().data[*pos] ^= 1,
        Mut::Range { start, end } => {
            let p = raw.proof.as_mut().unwrap();
            if p.start == *start && p.end == *end {
                return false;
            }
            p.start = *start;
            p.end = *end;
        }
        Mut::SibFlip { idx, byte } => match raw.proof.as_mut().unwrap().nodes.get_mut(*idx) {
            Some(n) => n[*byte] ^= 1,
            None => return false,
        },
        Mut::SibDrop { idx } => {
            let n = &mut raw.proof.as_mut().unwrap().nodes;
            if *idx >= n.len() {
                return false;
            }
            n.remove(*idx);
        }
        Mut::SibDup { idx } => {
            let n = &mut raw.proof.as_mut().unwrap().nodes;
            if *idx >= n.len() {
                return false;
            }
            let x = n[*idx].clone();
            n.insert(*idx + 1, x);
        }
        Mut::SibSwap { idx } => {
            let n = &mut raw.proof.as_mut().unwrap().nodes;
            if *idx + 1 >= n.len() || n[*idx] == n[*idx + 1] {
                return false;
            }
            n.swap(*idx, *idx + 1);
        }
        Mut::SibPad { len } => {
            let n = &mut raw.proof.as_mut().unwrap().nodes;
            let Some(last) = n.last().cloned() else { return false };
            if n.len() >= *len {
                return false;
            }
            while n.len() < *len {
                n.push(last.clone());
            }
        }
        Mut::AxisFlip => raw.proof_type ^= 1,
        Mut::AxisSet { value } => raw.proof_type = *value,
        Mut::IgnoreMaxOff => raw.proof.as_mut().unwrap().is_max_namespace_ignored = false,
        Mut::LeafHash => {
            let leaf = nmt_leaf(leaf_ns, &raw.share.as_ref().unwrap().data);
            raw.proof.as_mut().unwrap().leaf_hash = leaf.to_bytes();
        }
        Mut::ParityFlip => *parity = !*parity,
        Mut::NoShare => raw.share = None,
        Mut::NoProof => raw.proof = None,
        Mut::ShareLen { len } => raw.share.as_mut().unwrap().data.resize(*len, 0xAB),
    }
    true
}

fn build_direct(raw: &RawSample, parity: bool) -> Option<Sample> {
    let data = &raw.share.as_ref()?.data;
    let share = if parity { Share::parity(data) } else { Share::from_raw(data) }.ok()?;
    let proof = NamespaceProof::try_from(raw.proof.clone()?).ok()?;
    let proof_type = AxisType::try_from(raw.proof_type).ok()?;
    Some(Sample { proof_type, share, proof })
}

enum Verdict {
    /// Ok(()) — with the share bytes the accepted sample carries
    Accept(Vec<u8>),
    Reject(String),
    Panic(String),
    /// candidate cannot be expressed on this path
    Unbuildable,
}

fn run(world: &World, case: &Case) -> Option<Verdict> {
    let fx = &world.fx;
    let s = world.sample(case.foreign, case.axis, case.src);
    let mut raw = RawSample::from(s.clone());
    let mut parity = s.share.is_parity();
    let src_fx = if case.foreign { &world.foreign.as_ref().unwrap().0 } else { fx };
    let leaf_ns = src_fx.cell_ns(case.src.0 as usize, case.src.1 as usize);
    if !apply(&case.mutation, &mut raw, &mut parity, &leaf_ns) {
        return None;
    }
    let id = SampleId::new(case.req.0, case.req.1, HEIGHT).expect("sample id");
    let dah = &fx.dah;
    Some(match case.path.as_str() {
        "direct" => {
            if !case.mutation.direct_ok() {
                return None;
            }
            let cand = if case.mutation == Mut::None { Some(s.clone()) } else { build_direct(&raw, parity) };
            match cand {
                None => Verdict::Unbuildable,
                Some(cand) => match guard(|| cand.verify(id, dah)) {
                    Err(p) => Verdict::Panic(p),
                    Ok(Ok(())) => Verdict::Accept(cand.share.data().to_vec()),
                    Ok(Err(e)) => Verdict::Reject(format!("verify:{}", err_kind2(&e))),
                },
            }
        }
        "wire" => {
            if !case.mutation.wire_ok() {
                return None;
            }
            let bytes: Vec<u8> = if case.mutation == Mut::None {
                // the statement's "after encoding": the real encoder
                let mut b = BytesMut::new();
                s.encode(&mut b);
                b.to_vec()
            } else {
                raw.encode_to_vec()
            };
            match guard(|| match Sample::decode(id, &bytes) {
                Err(e) => Err(format!("decode:{}", err_kind2(&e))),
                Ok(d) => match d.verify(id, dah) {
                    Ok(()) => Ok(d.share.data().to_vec()),
                    Err(e) => Err(format!("verify:{}", err_kind2(&e))),
                },
            }) {
                Err(p) => Verdict::Panic(p),
                Ok(Ok(b)) => Verdict::Accept(b),
                Ok(Err(e)) => Verdict::Reject(e),
            }
        }
        other => panic!("unknown path {other}"),
    })
}

fn eval(world: &World, case: &Case, rep: &mut Report) {
    let Some(v) = run(world, case) else { return };
    let fx = &world.fx;
    // a requested coordinate outside the square has no share at all
    let outside = case.req.0 as usize >= fx.width || case.req.1 as usize >= fx.width;
    let no_cell: Vec<u8> = vec![];
    let want = if outside { &no_cell } else { &fx.cells[case.req.0 as usize][case.req.1 as usize] };
    let honest = !case.foreign && case.src == case.req && case.mutation == Mut::None;
    let family = if honest {
        "honest".to_string()
    } else if outside {
        "outside".to_string()
    } else if case.foreign {
        "foreign".to_string()
    } else if case.src != case.req {
        if case.mutation == Mut::None { "reloc".to_string() } else { format!("reloc+{}", case.mutation.family()) }
    } else {
        format!("mut/{}", case.mutation.family())
    };
    let cj = || serde_json::to_value(case).unwrap();
    match v {
        Verdict::Unbuildable => rep.case_nokey(&format!("{family}:unbuildable-on-{}", case.path)),
        Verdict::Panic(p) => {
            rep.case_nokey(&format!("{family}:panic"));
            rep.violation("panic", format!("{} path panicked instead of returning a verdict: {p}", case.path), cj());
        }
        Verdict::Reject(e) => {
            rep.case_nokey(&format!("{family}:reject:{e}"));
            if honest {
                rep.violation(
                    "honest-sample-rejected",
                    format!("honest sample of ({},{}) axis {} rejected on the {} path: {e}", case.req.0, case.req.1, case.axis, case.path),
                    cj(),
                );
            }
        }
        Verdict::Accept(bytes) => {
            let equal = bytes == *want;
            if honest {
                rep.case_nokey("honest:accept");
                if !equal {
                    rep.violation("honest-sample-decodes-to-other-share", "accepted honest sample carries other bytes than the cell".into(), cj());
                }
                if rep.wants_sample() && case.req == (1, 0) {
                    rep.sample(|| json!({"case": cj(), "result": "accept"}));
                }
            } else if equal {
                rep.case_nokey(&format!("{family}:accept-equal-share"));
            } else {
                rep.case_nokey(&format!("{family}:ACCEPT-WRONG-SHARE"));
                let key = if outside {
                    "sample-accepted-for-coordinate-outside-square"
                } else if case.foreign {
                    "foreign-sample-accepted"
                } else if case.src == case.req {
                    "mutated-sample-accepted"
                } else if case.src.0 == case.req.0 {
                    "sample-accepted-for-other-column"
                } else if case.src.1 == case.req.1 {
                    "sample-accepted-for-other-row"
                } else {
                    "sample-accepted-for-other-position"
                };
                rep.violation(
                    key,
                    format!(
                        "verify(id=({},{})) returned Ok for a sample whose share is not cell ({},{}): sample built for ({},{}) axis {}, mutation {:?}, {} path, {}",
                        case.req.0, case.req.1, case.req.0, case.req.1, case.src.0, case.src.1,
                        if case.axis == 0 { "Row" } else { "Col" }, case.mutation, case.path, fx.describe()
                    ),
                    cj(),
                );
            }
        }
    }
}

fn mutations(w: usize, idx: usize) -> Vec<Mut> {
    let n = w.trailing_zeros() as usize; // siblings of a single-leaf proof in a perfect tree
    let idx = idx as i64;
    let mut v = vec![];
    for pos in [0usize, 28, 29, 30, 256, 511] {
        v.push(Mut::ShareByte { pos });
    }
    let mut ranges = vec![
        (idx - 1, idx),
        (idx + 1, idx + 2),
        (idx, idx + 2),
        (idx - 1, idx + 1),
        (idx, idx),
        (idx + 1, idx),
        (0, w as i64),
        (idx + (1 << 32), idx + 1 + (1 << 32)),
        (-1, 0),
        (idx ^ 1, (idx ^ 1) + 1),
        (idx + w as i64, idx + w as i64 + 1),
    ];
    ranges.sort();
    ranges.dedup();
    for (start, end) in ranges {
        v.push(Mut::Range { start, end });
    }
    for i in 0..n {
        for byte in [0usize, 29, 58, 89] {
            v.push(Mut::SibFlip { idx: i, byte });
        }
        v.push(Mut::SibDrop { idx: i });
        v.push(Mut::SibDup { idx: i });
        v.push(Mut::SibSwap { idx: i });
    }
    for len in [n + 1, 63, 64, 65] {
        v.push(Mut::SibPad { len });
    }
    v.push(Mut::AxisFlip);
    v.push(Mut::AxisSet { value: 2 });
    v.push(Mut::AxisSet { value: -1 });
    v.push(Mut::IgnoreMaxOff);
    v.push(Mut::LeafHash);
    v.push(Mut::ParityFlip);
    v.push(Mut::NoShare);
    v.push(Mut::NoProof);
    for len in [0usize, 511, 513] {
        v.push(Mut::ShareLen { len });
    }
    v
}

const PATHS: [&str; 2] = ["direct", "wire"];

fn explore(world: &World, full_reloc: bool, ctx: &Ctx, cap: f64) -> Report {
    let fx = &world.fx;
    let w = fx.width;
    let coords: Vec<(u16, u16)> = (0..w as u16).flat_map(|r| (0..w as u16).map(move |c| (r, c))).collect();
    par_cases(coords, |req, rep| {
        if ctx.elapsed_s() > cap {
            rep.cap_hit(&format!("wall cap {cap}s inside w={w} layout={}", fx.layout));
            return;
        }
        let base = |src: (u16, u16), axis: u8, foreign: bool, mutation: Mut, path: &str| Case {
            seed: fx.seed,
            width: w,
            layout: fx.layout,
            req,
            src,
            axis,
            foreign,
            mutation,
            path: path.to_string(),
        };
        // honest first, then relocations (nearest first), then mutations, then foreign
        for axis in 0..2u8 {
            for p in PATHS {
                eval(world, &base(req, axis, false, Mut::None, p), rep);
            }
        }
        let mut others: Vec<(u16, u16)> = if full_reloc {
            (0..w as u16).flat_map(|r| (0..w as u16).map(move |c| (r, c))).filter(|s| *s != req).collect()
        } else {
            let mut o: Vec<(u16, u16)> = (0..w as u16).filter(|c| *c != req.1).map(|c| (req.0, c)).collect();
            o.extend((0..w as u16).filter(|r| *r != req.0).map(|r| (r, req.1)));
            if req.0 != req.1 {
                o.push((req.1, req.0));
            }
            o
        };
        others.sort_by_key(|s| (s.0 as i32 - req.0 as i32).abs() + (s.1 as i32 - req.1 as i32).abs());
        for src in others {
            for axis in 0..2u8 {
                for m in [Mut::None, Mut::AxisFlip] {
                    for p in PATHS {
                        eval(world, &base(src, axis, false, m.clone(), p), rep);
                    }
                }
            }
        }
        for axis in 0..2u8 {
            let idx = if axis == 0 { req.1 } else { req.0 } as usize;
            for m in mutations(w, idx) {
                for p in PATHS {
                    eval(world, &base(req, axis, false, m.clone(), p), rep);
                }
            }
        }
        if world.foreign.is_some() {
            for axis in 0..2u8 {
                for p in PATHS {
                    eval(world, &base(req, axis, true, Mut::None, p), rep);
                }
            }
        }
        // requests OUTSIDE the square (enumerated once per line, at the diagonal coordinate):
        // line = row `l` for row proofs / column `l` for column proofs; the in-line index j
        // runs over width..=2*width and larger powers of two; candidates are the honest samples
        // of the cells of that line, as built and with the proof range moved to j..j+1 (an NMT
        // range proof does not commit to the tree size, so the siblings of the last leaves
        // also fit indices beyond the end of the line)
        if req.0 == req.1 {
            let l = req.0;
            let mut js: Vec<u32> = (w as u32..=2 * w as u32).collect();
            js.extend([3 * w as u32, 4 * w as u32 - 1, 4 * w as u32, 8 * w as u32, 1 << 15, 65535]);
            js.retain(|j| *j >= w as u32 && *j <= 65535);
            js.sort();
            js.dedup();
            let srcs: Vec<u16> = if w <= 16 { (0..w as u16).collect() } else { (w as u16 - 4..w as u16).collect() };
            for axis in 0..2u8 {
                for &j in &js {
                    let out = if axis == 0 { (l, j as u16) } else { (j as u16, l) };
                    for &s in srcs.iter().rev() {
                        let src = if axis == 0 { (l, s) } else { (s, l) };
                        for m in [Mut::Range { start: j as i64, end: j as i64 + 1 }, Mut::None] {
                            for p in PATHS {
                                let mut c = base(src, axis, false, m.clone(), p);
                                c.req = out;
                                eval(world, &c, rep);
                            }
                        }
                    }
                }
                // the other coordinate outside as well / instead
                for out in [(w as u16, w as u16), (2 * w as u16, 2 * w as u16)] {
                    let src = if axis == 0 { (l, w as u16 - 1) } else { (w as u16 - 1, l) };
                    for m in [Mut::Range { start: out.0 as i64, end: out.0 as i64 + 1 }, Mut::None] {
                        for p in PATHS {
                            let mut c = base(src, axis, false, m.clone(), p);
                            c.req = out;
                            eval(world, &c, rep);
                        }
                    }
                }
            }
        }
    })
}

fn main() {
    let ctx = Ctx::from_args("C04");
    let mut rep = Report::new();
    rep.sample_cap = 8;
    if let Some(c) = ctx.replay_case() {
        let case: Case = serde_json::from_value(c).unwrap_or_else(|e| machinery_error(&ctx.id, &format!("bad replay case: {e}")));
        let world = World::build(case.width, case.layout, case.seed, case.foreign, &ctx.id);
        eval(&world, &case, &mut rep);
    } else {
        // (width, layouts, relocation from the whole square?)
        let plan: Vec<(usize, Vec<usize>, bool)> = if ctx.quick() {
            vec![
                (2, vec![0, 1, 2], true),
                (4, vec![0, 1, 2], true),
                (8, vec![0, 1, 2], true),
                (16, vec![0, 1, 2], true),
                (32, vec![0], false),
            ]
        } else {
            vec![
                (2, vec![0, 1, 2], true),
                (4, vec![0, 1, 2], true),
                (8, vec![0, 1, 2], true),
                (16, vec![0, 1, 2], true),
                (32, vec![0, 1, 2], true),
                (64, vec![0, 1, 2], true),
            ]
        };
        let cap = ctx.tier.pick(50.0, 840.0);
        let mut squares = vec![];
        'outer: for (w, layouts, full) in plan {
            for l in layouts {
                if ctx.elapsed_s() > cap {
                    rep.cap_hit(&format!("wall cap {cap}s before w={w} layout={l}"));
                    break 'outer;
                }
                let world = World::build(w, l, ctx.seed, true, &ctx.id);
                let r = explore(&world, full, &ctx, cap);
                squares.push(json!({"width": w, "layout": LAYOUTS[l], "relocation": if full {"whole square"} else {"row+column+transposed"}, "evaluations": r.evaluations}));
                rep.merge_in(r);
            }
        }
        rep.extra("squares", json!(squares));
        let nontrivial: u64 = rep.classes.iter().filter(|(k, _)| !k.starts_with("honest") && !k.contains("unbuildable")).map(|(_, v)| *v).sum();
        rep.extra("distinct_by_construction", json!(rep.evaluations));
        rep.extra("distinct_nontrivial_by_construction", json!(nontrivial));
    }
    finish(
        &ctx,
        rep,
        Spec {
            rule: "squares = EDS widths {2,4,8,16}x3 layouts + 32x'structured' (quick) / {2,..,64}x3 layouts (thorough), layouts structured|distinct|uniform; per square: every requested coordinate (r,c) x both proof axes x paths {direct struct, wire bytes->decode} x { honest sample; honest sample of every other position (whole square, except quick w=32: same row + same column + transposed) as built and with proof_type flipped; every listed single mutation of the honest sample (6 share bytes, 11 proof ranges, per sibling 4 flips+drop+dup+swap, padding to n+1/63/64/65 siblings, proof_type flip/invalid, ignore-max flag, leaf hash, parity flag, missing share/proof, 3 share lengths); same position of a foreign square }; plus, per line (row l for row proofs, column l for column proofs), requests OUTSIDE the square: in-line index j in {w..=2w, 3w, 4w-1, 4w, 8w, 2^15, 65535} x honest samples of the cells of the line (all for w<=16, else the last 4) x {proof range moved to j..j+1, unchanged} x paths, and both coordinates outside. Cases are distinct by construction (one evaluation per tuple); non-trivial = every non-honest candidate that could be expressed on its path",
            assumptions: &[
                "payload bytes come from VERIF_SEED (Fill); layouts, widths, coordinates and mutations are enumerated, never sampled",
                "the square is what ExtendedDataSquare::from_ods produced from the fixture ODS; the brute-force view is copied from its flat share list and its DAH is re-derived by an independent NMT implementation at fixture build time",
                "cells with identical bytes (padding) may legitimately be accepted for each other's coordinates: the statement constrains the share, not the proof",
            ],
            required_classes: &[
                "honest:accept",
                "reloc:reject*",
                "reloc+AxisFlip:reject*",
                "foreign:reject*",
                "outside:reject*",
                "mut/ShareByte:reject*",
                "mut/Range:reject*",
                "mut/SibFlip:reject*",
                "mut/SibDrop:reject*",
                "mut/SibDup:reject*",
                "mut/SibPad:reject*",
                "mut/AxisFlip:reject*",
                "mut/AxisSet:*",
                "mut/LeafHash:reject*",
                "mut/NoShare:reject*",
                "mut/NoProof:reject*",
                "mut/ShareLen:reject*",
            ],
            exhaustive: true,
        },
    );
}
