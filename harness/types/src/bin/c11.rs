//! C11 — Blob share encoding round-trips and is sized correctly.   (engine E1)
//!
//! Part A ("single"): every data length 1..=L x {share version 0 without signer, share
//! version 1 with signer} x 3 namespaces x app versions x 3 payload shapes.  For each:
//! `to_shares().len()` = independent layout arithmetic, `shares_len()` = `to_shares().len()`,
//! `reconstruct(to_shares())` = blob, `reconstruct_all(to_shares())` = [blob].
//! Part B ("sequence"): every sequence of <= K blobs from a 6-blob family with every
//! assignment of a reserved-namespace filler (or none) to every gap (before, between,
//! after); `reconstruct_all` must return exactly the sequence.
#[path = "../shared/blobs.rs"]
mod blobs;

use blobs::*;
use celestia_types::nmt::Namespace;
use celestia_types::{Blob, Share};
use lv_core::*;
use serde_json::{Value, json};
use std::sync::OnceLock;
use std::sync::atomic::{AtomicU64, Ordering};
use std::time::{Duration, Instant};

/// Internal wall cap: cases reached after the deadline are skipped and reported as a cap.
static DEADLINE: OnceLock<Instant> = OnceLock::new();
fn past_deadline(rep: &mut Report) -> bool {
    if DEADLINE.get().is_some_and(|d| Instant::now() > *d) {
        rep.cap_hit("wall cap: remaining cases skipped");
        return true;
    }
    false
}

// ------------------------------------------------------------------------ part A

#[derive(Clone, Debug)]
struct Single {
    len: usize,
    sv: u8,
    ns: &'static str,
    app: u64,
    payload: &'static str,
}

fn single_json(c: &Single, seed: u64) -> Value {
    json!({"part": "single", "len": c.len, "share_version": c.sv, "ns": c.ns, "app": c.app, "payload": c.payload, "seed": seed})
}

fn intern(s: &str, table: &[&'static str]) -> &'static str {
    table.iter().find(|t| **t == s).copied().unwrap_or_else(|| panic!("unknown alphabet element {s}"))
}

fn boundary(len: usize) -> bool {
    [false, true].iter().any(|&sg| {
        let n = oracle_share_count(len, sg);
        (len > 1 && oracle_share_count(len - 1, sg) != n) || oracle_share_count(len + 1, sg) != n
    })
}

fn eval_single(c: &Single, seed: u64, rep: &mut Report) {
    if past_deadline(rep) {
        return;
    }
    let key = fnv64(format!("A/{}/{}/{}/{}/{}", c.len, c.sv, c.ns, c.app, c.payload).as_bytes());
    let case = || single_json(c, seed);
    let nsb = ns_bytes(c.ns, seed);
    let ns = namespace(&nsb);
    let sg = signer_bytes(seed);
    let signer = (c.sv == 1).then(|| acc(&sg));
    let data = payload(c.payload, c.len, seed, c.len as u64);
    let nontrivial = boundary(c.len);

    // probe outside the statement: v1 under an app version without signer support
    if c.sv == 1 && c.app < 3 {
        let r = guard(|| Blob::new(ns, data.clone(), signer, app(c.app)));
        match r {
            Err(p) => {
                rep.case(key, "panic", nontrivial);
                rep.violation("panic", format!("Blob::new panicked: {p}"), case());
            }
            Ok(Ok(_)) => rep.case(key, "probe:v1-below-app-v3:new-accepted", false),
            Ok(Err(_)) => rep.case(key, "probe:v1-below-app-v3:new-refused", false),
        }
        return;
    }

    let fail = |rep: &mut Report, k: &str, what: String| {
        rep.case(key, &format!("violation:{k}"), nontrivial);
        rep.violation(k, what, case());
    };

    let blob = match guard(|| Blob::new(ns, data.clone(), signer, app(c.app))) {
        Err(p) => return fail(rep, "panic", format!("Blob::new panicked: {p}")),
        Ok(Err(e)) => return fail(rep, "blob-new-failed", format!("Blob::new refused a legal blob: {e:?}")),
        Ok(Ok(b)) => b,
    };
    let shares = match guard(|| blob.to_shares()) {
        Err(p) => return fail(rep, "panic", format!("to_shares panicked: {p}")),
        Ok(Err(e)) => return fail(rep, "to-shares-failed", format!("to_shares failed: {e:?}")),
        Ok(Ok(s)) => s,
    };
    let want = oracle_share_count(c.len, c.sv == 1);
    if shares.len() != want {
        return fail(
            rep,
            "share-count-differs-from-spec-layout",
            format!("to_shares() produced {} shares, the share layout needs {want}", shares.len()),
        );
    }
    match guard(|| blob.shares_len()) {
        Err(p) => return fail(rep, "panic", format!("shares_len panicked: {p}")),
        Ok(n) if n != shares.len() => {
            return fail(
                rep,
                "shares-len-differs-from-to-shares",
                format!("shares_len() = {n} but to_shares().len() = {} (data length {}, share version {})", shares.len(), c.len, c.sv),
            );
        }
        Ok(_) => {}
    }
    match guard(|| Blob::reconstruct(&shares, app(c.app))) {
        Err(p) => return fail(rep, "panic", format!("reconstruct panicked: {p}")),
        Ok(Err(e)) => return fail(rep, "reconstruct-failed", format!("reconstruct(to_shares()) failed: {e:?}")),
        Ok(Ok(b)) if b != blob => {
            return fail(
                rep,
                "reconstruct-differs",
                format!("reconstruct(to_shares()) = {} expected {}", blob_brief(&b), blob_brief(&blob)),
            );
        }
        Ok(Ok(_)) => {}
    }
    match guard(|| Blob::reconstruct_all(&shares, app(c.app))) {
        Err(p) => return fail(rep, "panic", format!("reconstruct_all panicked: {p}")),
        Ok(Err(e)) => return fail(rep, "reconstruct-all-failed", format!("reconstruct_all(to_shares()) failed: {e:?}")),
        Ok(Ok(v)) if v.len() != 1 || v[0] != blob => {
            return fail(
                rep,
                "reconstruct-all-differs",
                format!("reconstruct_all(to_shares()) returned {} blobs: {}", v.len(), Value::Array(v.iter().map(blob_brief).collect())),
            );
        }
        Ok(Ok(_)) => {}
    }
    let bucket = match want {
        1 => "1-share",
        2 => "2-shares",
        _ => "3+-shares",
    };
    rep.case(key, &format!("roundtrip-ok:v{}:{bucket}", c.sv), nontrivial);
    if rep.wants_sample() && c.app == LATEST_APP && c.payload == "seeded" && c.ns == "seeded" && (c.len == FIRST_CAP_V1 + 1 || c.len == FIRST_CAP_V0 + 1) {
        rep.sample(|| json!({"case": case(), "shares": want, "shares_len": want, "first_share_head": hex::encode(&shares[0].data()[..60])}));
    }
}

fn single_cases(max_len: usize) -> Vec<Single> {
    let mut v = vec![];
    for len in 1..=max_len {
        for payload in PAYLOAD_KINDS {
            for ns in NS_KINDS {
                for (sv, apps) in [(0u8, &[2u64, 3, LATEST_APP][..]), (1u8, &[3u64, LATEST_APP][..])] {
                    for &app in apps {
                        v.push(Single { len, sv, ns, app, payload });
                    }
                }
            }
        }
        for app in [1u64, 2] {
            v.push(Single { len, sv: 1, ns: "min-user", app, payload: "seeded" });
        }
    }
    v
}

// ------------------------------------------------------------------------ part B

const FILLERS: [&str; 6] = ["none", "tx", "pfb+cont", "primary-padding", "tail-padding", "parity"];

fn raw_share(ns: &Namespace, info: u8, body: &[u8]) -> Share {
    let mut b = [0u8; SHARE];
    b[..NS].copy_from_slice(ns.as_bytes());
    b[NS] = info;
    b[NS + 1..NS + 1 + body.len()].copy_from_slice(body);
    Share::from_raw(&b).expect("filler share must be well-formed")
}

fn filler(kind: &str, seed: u64) -> Vec<Share> {
    let junk = |stream: u64, n: usize| Fill::new(seed, stream).bytes(n);
    match kind {
        "none" => vec![],
        // compact share of the transaction namespace: start, sequence length, reserved bytes
        "tx" => {
            let mut body = vec![0, 0, 0, 200, 0, 0, 0, 38];
            body.extend(junk(0x7478, 200));
            vec![raw_share(&Namespace::TRANSACTION, 0x01, &body)]
        }
        "pfb+cont" => {
            let mut body = vec![0, 0, 3, 0, 0, 0, 0, 38];
            body.extend(junk(0x706662, 470));
            let mut cont = vec![0, 0, 0, 0];
            cont.extend(junk(0x706663, 300));
            vec![
                raw_share(&Namespace::PAY_FOR_BLOB, 0x01, &body),
                raw_share(&Namespace::PAY_FOR_BLOB, 0x00, &cont),
            ]
        }
        "primary-padding" => vec![raw_share(&Namespace::PRIMARY_RESERVED_PADDING, 0x01, &[])],
        "tail-padding" => vec![raw_share(&Namespace::TAIL_PADDING, 0x01, &[])],
        // parity bytes that would read as "first share of a 77-byte blob in a user namespace"
        "parity" => {
            let mut b = junk(0x706172, SHARE);
            b[..NS].copy_from_slice(&ns_bytes("min-user", seed));
            b[NS] = 0x01;
            b[NS + 1..NS + 5].copy_from_slice(&77u32.to_be_bytes());
            vec![Share::parity(&b).expect("parity share")]
        }
        k => panic!("unknown filler {k}"),
    }
}

/// (namespace kind, share version, data length): 1/2/3 shares, exactly-full and
/// one-byte-over first shares with and without signer, two blobs per namespace.
const FAMILY: [(&str, u8, usize); 6] = [
    ("min-user", 0, 1),
    ("min-user", 0, FIRST_CAP_V0 + 1),
    ("max-user", 1, FIRST_CAP_V1),
    ("max-user", 1, FIRST_CAP_V1 + 1),
    ("max-user", 0, FIRST_CAP_V0 + CONT_CAP + 1),
    ("min-user", 1, FIRST_CAP_V1 + CONT_CAP),
];

struct SeqEnv {
    app: u64,
    blobs: Vec<Blob>,
    shares: Vec<Vec<Share>>,
    fillers: Vec<Vec<Share>>,
}

fn seq_env(app_v: u64, seed: u64) -> Result<SeqEnv, String> {
    let mut blobs = vec![];
    let mut shares = vec![];
    for (i, (ns, sv, len)) in FAMILY.iter().enumerate() {
        let sg = signer_bytes(seed);
        let b = guard(|| Blob::new(namespace(&ns_bytes(ns, seed)), payload("seeded", *len, seed, 0xB000 + i as u64), (*sv == 1).then(|| acc(&sg)), app(app_v)))
            .map_err(|p| format!("Blob::new panicked: {p}"))?
            .map_err(|e| format!("Blob::new failed for family blob {i}: {e:?}"))?;
        let s = guard(|| b.to_shares()).map_err(|p| format!("to_shares panicked: {p}"))?.map_err(|e| format!("to_shares failed: {e:?}"))?;
        blobs.push(b);
        shares.push(s);
    }
    Ok(SeqEnv {
        app: app_v,
        blobs,
        shares,
        fillers: FILLERS.iter().map(|f| filler(f, seed)).collect(),
    })
}

fn eval_seq(env: &SeqEnv, seq: &[usize], gaps: &[usize], seed: u64, rep: &mut Report, nontrivial_ctr: &AtomicU64) {
    debug_assert_eq!(gaps.len(), seq.len() + 1);
    if past_deadline(rep) {
        return;
    }
    let case = || json!({"part": "sequence", "app": env.app, "seq": seq, "gaps": gaps.iter().map(|g| FILLERS[*g]).collect::<Vec<_>>(), "seed": seed});
    let mut all: Vec<&Share> = vec![];
    for (i, g) in gaps.iter().enumerate() {
        all.extend(env.fillers[*g].iter());
        if let Some(b) = seq.get(i) {
            all.extend(env.shares[*b].iter());
        }
    }
    let nontrivial = seq.len() >= 2 && gaps.iter().any(|g| *g != 0);
    if nontrivial {
        nontrivial_ctr.fetch_add(1, Ordering::Relaxed);
    }
    let got = guard(|| Blob::reconstruct_all(all.iter().copied(), app(env.app)));
    let want: Vec<&Blob> = seq.iter().map(|i| &env.blobs[*i]).collect();
    let fail = |rep: &mut Report, k: &str, what: String| {
        rep.case_nokey(&format!("violation:{k}"));
        rep.violation(k, what, case());
    };
    match got {
        Err(p) => fail(rep, "panic", format!("reconstruct_all panicked: {p}")),
        Ok(Err(e)) => fail(rep, "reconstruct-all-failed", format!("reconstruct_all failed: {e:?}")),
        Ok(Ok(v)) => {
            if v.len() != want.len() || v.iter().zip(&want).any(|(a, b)| a != *b) {
                fail(
                    rep,
                    "reconstruct-all-differs",
                    format!(
                        "reconstruct_all returned {}, expected {}",
                        Value::Array(v.iter().map(blob_brief).collect()),
                        Value::Array(want.iter().map(|b| blob_brief(b)).collect())
                    ),
                );
            } else {
                rep.case_nokey(&format!("reconstruct-all-ok:{}-blobs", seq.len()));
                if rep.wants_sample() && nontrivial && seq.len() == 3 && gaps.iter().all(|g| *g != 0) && seq[0] != seq[1] {
                    rep.sample(|| json!({"case": case(), "total_shares": all.len(), "blobs_returned": v.len()}));
                }
            }
        }
    }
}

/// All sequences over 0..n of length exactly k, in lexicographic order.
fn tuples(n: usize, k: usize) -> Vec<Vec<usize>> {
    let mut out = vec![vec![]];
    for _ in 0..k {
        out = out.into_iter().flat_map(|p| (0..n).map(move |x| { let mut q = p.clone(); q.push(x); q })).collect();
    }
    out
}

fn main() {
    let ctx = Ctx::from_args("C11");
    let max_len: usize = ctx.tier.pick(4096, 20_000);
    let max_seq: usize = ctx.tier.pick(3, 4);
    let seq_apps: [u64; 2] = [3, LATEST_APP];
    let nontrivial_b = AtomicU64::new(0);

    let rep = if let Some(c) = ctx.replay_case() {
        let seed = c["seed"].as_u64().unwrap_or(ctx.seed);
        let mut rep = Report::new();
        match c["part"].as_str() {
            Some("single") => {
                let s = Single {
                    len: c["len"].as_u64().unwrap() as usize,
                    sv: c["share_version"].as_u64().unwrap() as u8,
                    ns: intern(c["ns"].as_str().unwrap(), &NS_KINDS),
                    app: c["app"].as_u64().unwrap(),
                    payload: intern(c["payload"].as_str().unwrap(), &PAYLOAD_KINDS),
                };
                eval_single(&s, seed, &mut rep);
            }
            Some("sequence") => {
                let env = seq_env(c["app"].as_u64().unwrap(), seed).unwrap_or_else(|e| machinery_error(&ctx.id, &e));
                let seq: Vec<usize> = serde_json::from_value(c["seq"].clone()).unwrap();
                let gaps: Vec<usize> = c["gaps"]
                    .as_array()
                    .unwrap()
                    .iter()
                    .map(|g| FILLERS.iter().position(|f| Some(*f) == g.as_str()).unwrap())
                    .collect();
                eval_seq(&env, &seq, &gaps, seed, &mut rep, &nontrivial_b);
            }
            _ => machinery_error(&ctx.id, "replay case without part"),
        }
        rep
    } else {
        let seed = ctx.seed;
        let _ = DEADLINE.set(ctx.start + Duration::from_secs(ctx.tier.pick(600, 2400)));
        // part A
        let cases = single_cases(max_len);
        let n_a = cases.len() as u64;
        let mut rep = par_cases(cases, |c, rep| eval_single(&c, seed, rep));
        // part B (only if the family itself can be built; otherwise part A has reported why)
        let mut n_b = 0u64;
        for app_v in seq_apps {
            match seq_env(app_v, seed) {
                Err(e) => {
                    rep.violation("blob-new-failed", format!("sequence family: {e}"), json!({"part": "family", "app": app_v, "seed": seed}));
                }
                Ok(env) => {
                    for k in 0..=max_seq {
                        let work: Vec<(Vec<usize>, Vec<usize>)> = tuples(FAMILY.len(), k)
                            .into_iter()
                            .flat_map(|s| tuples(FILLERS.len(), k + 1).into_iter().map(move |g| (s.clone(), g)))
                            .collect();
                        n_b += work.len() as u64;
                        let r = par_cases(work, |(s, g), rep| eval_seq(&env, &s, &g, seed, rep, &nontrivial_b));
                        rep.merge_in(r);
                    }
                }
            }
        }
        // non-judged probe (outside the statement): a *user*-namespace padding share (what a
        // data square has between blobs: sequence start, sequence length 0) after a blob
        let mut n_p = 0u64;
        if let Ok(env) = seq_env(LATEST_APP, seed) {
            for i in 0..FAMILY.len() {
                for j in (0..FAMILY.len()).map(Some).chain([None]) {
                    let pad = raw_share(&env.blobs[i].namespace, 0x01, &[]);
                    let mut all: Vec<&Share> = env.shares[i].iter().collect();
                    all.push(&pad);
                    if let Some(j) = j {
                        all.extend(env.shares[j].iter());
                    }
                    let want: Vec<&Blob> = [Some(i), j].iter().flatten().map(|x| &env.blobs[*x]).collect();
                    let class = match guard(|| Blob::reconstruct_all(all.iter().copied(), app(LATEST_APP))) {
                        Err(_) => "panic".to_string(),
                        Ok(Err(e)) => err_class::<()>(&Err(e)),
                        Ok(Ok(v)) if v.len() == want.len() && v.iter().zip(&want).all(|(a, b)| a == *b) => "padding-ignored".to_string(),
                        Ok(Ok(v)) if v.len() == want.len() + 1 && v[1].data.is_empty() => "extra-empty-blob-returned".to_string(),
                        Ok(Ok(_)) => "other".to_string(),
                    };
                    rep.case_nokey(&format!("probe:user-namespace-padding:{class}"));
                    n_p += 1;
                }
            }
        }
        rep.extra("distinct_by_construction", json!(n_a + n_b + n_p));
        rep.extra("probe_cases", json!(n_p));
        rep.extra("part_a_cases", json!(n_a));
        rep.extra("part_b_cases", json!(n_b));
        rep.extra("part_b_nontrivial", json!(nontrivial_b.load(Ordering::Relaxed)));
        rep.extra("bounds", json!({"max_len": max_len, "max_sequence": max_seq, "family": FAMILY.iter().map(|(n, s, l)| json!({"ns": n, "share_version": s, "len": l})).collect::<Vec<_>>(), "fillers": FILLERS}));
        rep
    };

    finish(
        &ctx,
        rep,
        Spec {
            rule: "part A: every data length 1..=L (L=4096 quick, 20000 thorough) x payload {seeded, all-zero, all-0xff} x namespace {smallest user, largest user, seeded} x {share version 0 / no signer under app V2,V3,V7; share version 1 / signer under app V3,V7} (plus non-judged probes: version 1 under app V1,V2; a user-namespace padding share after a blob); distinct = the tuple; non-trivial = length adjacent to a share-count boundary (first-share capacity 478 / 458 with signer, continuation 482). part B: every sequence of 0..=K blobs (K=3 quick, 4 thorough) from the 6-blob family x every assignment of {none, tx share, PFB start+continuation, primary reserved padding, tail padding, parity share} to each of the K+1 gaps, under app V3 and V7; distinct by construction; non-trivial = >= 2 blobs and >= 1 filler",
            assumptions: &[
                "payload bytes of the 'seeded' shape come from VERIF_SEED; the property does not depend on them beyond the two fixed shapes (all-zero, all-0xff) that are enumerated as well",
                "reserved-namespace fillers are placed in the gaps between blobs (as in a data square), not inside a blob's share run",
                "user-namespace padding shares (sequence start, length 0) are not reserved-namespace shares and are outside the statement",
            ],
            required_classes: &["roundtrip-ok:v0:1-share", "roundtrip-ok:v0:3+-shares", "roundtrip-ok:v1:1-share", "roundtrip-ok:v1:2-shares", "roundtrip-ok:v1:3+-shares", "reconstruct-all-ok:3-blobs"],
            exhaustive: true,
        },
    );
}
