//! C12 — Blob commitments follow the share-commitment rules.   (engine E1)
//!
//! Every share count n in 1..=N (plus a few counts beyond 8192, the first region where the
//! ADR-013 `min(…, min square size)` cap binds), with the smallest and the largest data
//! length that needs exactly n shares, for share version 0 (no signer) and 1 (signer).
//! Oracle: the independent ADR-013 implementation of `shared/blobs.rs` (own share layout,
//! own subtree width / mountain range, NMT + RFC-6962 hashing of lv_core::oracle).
//! Checked: `Blob::new(..).commitment` = oracle, `Commitment::from_shares` over
//! oracle-built shares = oracle, `validate` accepts the blob, and `validate` of every
//! tampered copy (data, namespace, signer, share version, commitment bit) accepts exactly
//! when the oracle commitment of the tampered content equals the stored one (never, here).
#[path = "../shared/blobs.rs"]
mod blobs;

use blobs::*;
use celestia_types::{Blob, Commitment, Share};
use lv_core::*;
use serde_json::{Value, json};
use std::sync::OnceLock;
use std::time::{Duration, Instant};

/// Internal wall cap: cases reached after the deadline are skipped and reported as a cap.
static DEADLINE: OnceLock<Instant> = OnceLock::new();

#[derive(Clone, Debug)]
struct Case {
    n: usize,
    len: usize,
    sv: u8,
    ns: &'static str,
    app: u64,
    /// full tamper / cross-version families (small n) or the reduced ones
    full: bool,
}

fn case_json(c: &Case, seed: u64) -> Value {
    json!({"shares": c.n, "len": c.len, "share_version": c.sv, "ns": c.ns, "app": c.app, "full": c.full, "seed": seed})
}

/// A blob value described by plain bytes, from which both the real `Blob` and the oracle
/// commitment are derived.
#[derive(Clone)]
struct Plain {
    ns: [u8; NS],
    data: Vec<u8>,
    sv: u8,
    signer: Option<[u8; SIGNER]>,
    commitment: [u8; 32],
}

impl Plain {
    fn real(&self) -> Blob {
        Blob {
            namespace: namespace(&self.ns),
            data: self.data.clone(),
            share_version: self.sv,
            commitment: Commitment::new(self.commitment),
            index: None,
            signer: self.signer.as_ref().map(acc),
        }
    }
    /// What the statement says `validate(app)` must answer.
    fn oracle_accepts(&self, app_v: u64) -> bool {
        if self.data.is_empty() || !format_allowed(self.sv, self.signer.is_some(), app_v) {
            return false;
        }
        oracle_blob_commitment(&self.ns, self.sv, self.signer.as_ref(), &self.data, app_v).hash == self.commitment
    }
}

fn tampers(p: &Plain, full: bool, n: usize) -> Vec<(String, &'static str, Plain)> {
    let mut out: Vec<(String, &'static str, Plain)> = vec![];
    let mut add = |name: String, family: &'static str, f: &dyn Fn(&mut Plain)| {
        let mut q = p.clone();
        f(&mut q);
        out.push((name, family, q));
    };
    let len = p.data.len();
    // data
    add("data-flip-last".into(), "data", &|q| q.data[len - 1] ^= 0x01);
    add("data-append-zero".into(), "data", &|q| q.data.push(0));
    if full {
        add("data-flip-first".into(), "data", &|q| q.data[0] ^= 0x80);
        add("data-flip-mid".into(), "data", &|q| q.data[len / 2] ^= 0x10);
        if len > 1 {
            add("data-drop-last".into(), "data", &|q| {
                q.data.pop();
            });
        }
    }
    // namespace (stays a user namespace)
    add("namespace-last-bit".into(), "namespace", &|q| q.ns[NS - 1] ^= 0x01);
    if full {
        add("namespace-other".into(), "namespace", &|q| q.ns = ns_bytes("other", 0));
    }
    // signer / share version
    if p.sv == 1 {
        add("signer-bit".into(), "signer", &|q| q.signer.as_mut().unwrap()[7] ^= 0x04);
        add("signer-removed".into(), "signer", &|q| q.signer = None);
        add("share-version-1-to-0-signer-kept".into(), "share-version", &|q| q.sv = 0);
        add("share-version-1-to-0-signer-dropped".into(), "share-version", &|q| {
            q.sv = 0;
            q.signer = None
        });
    } else {
        add("signer-added".into(), "signer", &|q| q.signer = Some(signer_bytes(77)));
        add("share-version-0-to-1-no-signer".into(), "share-version", &|q| q.sv = 1);
        add("share-version-0-to-1-signer-added".into(), "share-version", &|q| {
            q.sv = 1;
            q.signer = Some(signer_bytes(77))
        });
    }
    if full {
        add("share-version-2".into(), "share-version", &|q| q.sv = 2);
    }
    // commitment bits
    let bits: Vec<usize> = if full && n <= 4 { (0..256).collect() } else if full { vec![0, 77, 131, 255] } else { vec![131] };
    for b in bits {
        add(format!("commitment-bit-{b}"), "commitment", &|q| q.commitment[b / 8] ^= 1 << (b % 8));
    }
    out
}

fn eval(c: &Case, seed: u64, rep: &mut Report) {
    if DEADLINE.get().is_some_and(|d| Instant::now() > *d) {
        rep.cap_hit("wall cap: remaining cases skipped");
        return;
    }
    let case = || case_json(c, seed);
    let keystr = format!("{}/{}/{}/{}/{}", c.len, c.sv, c.ns, c.app, c.full);
    let nsb = ns_bytes(c.ns, seed);
    let sg = signer_bytes(seed);
    let signer = (c.sv == 1).then_some(sg);
    let data = payload("seeded", c.len, seed, c.len as u64 ^ 0xC12);
    let th = spec_subtree_root_threshold(c.app);

    let o_shares = oracle_shares(&nsb, c.sv, signer.as_ref(), &data);
    if o_shares.len() != c.n {
        machinery_error("C12", &format!("harness: length {} does not give {} shares", c.len, c.n));
    }
    let oc = oracle_commitment(&nsb, &o_shares, th);
    let nontrivial = {
        let n = c.n as u64;
        oc.trees.first() != oc.trees.last() || subtree_width(n + 1, th) != oc.width || (n > 1 && subtree_width(n - 1, th) != oc.width)
    };
    let mut sub = 0u32;
    let mut record = |rep: &mut Report, class: &str| {
        sub += 1;
        rep.case(fnv64(format!("{keystr}#{sub}").as_bytes()), class, nontrivial);
    };
    let viol = |rep: &mut Report, k: &str, what: String, extra: Value| {
        let mut cj = case();
        cj["detail"] = extra;
        rep.violation(k, what, cj);
    };

    // 1. commitment of a freshly built blob
    let blob = match guard(|| Blob::new(namespace(&nsb), data.clone(), signer.as_ref().map(acc), app(c.app))) {
        Err(p) => {
            record(rep, "panic");
            return viol(rep, "panic", format!("Blob::new panicked: {p}"), json!(null));
        }
        Ok(Err(e)) => {
            record(rep, "violation:blob-new-failed");
            return viol(rep, "blob-new-failed", format!("Blob::new refused a legal blob: {e:?}"), json!(null));
        }
        Ok(Ok(b)) => b,
    };
    if blob.commitment.hash() != &oc.hash {
        record(rep, "violation:commitment-differs-from-adr013");
        viol(
            rep,
            "commitment-differs-from-adr013",
            format!(
                "Blob::new commitment {} != ADR-013 commitment {} ({} shares, subtree width {}, trees {:?})",
                hex::encode(blob.commitment.hash()),
                hex::encode(oc.hash),
                c.n,
                oc.width,
                &oc.trees[..oc.trees.len().min(12)]
            ),
            json!({"step": "new"}),
        );
    } else {
        record(rep, "commitment-equal:new");
    }

    // 2. from_shares over shares laid out by the oracle
    if c.full {
        let shares: Vec<Share> = o_shares.iter().map(|s| Share::from_raw(s).expect("oracle share is well-formed")).collect();
        match guard(|| Commitment::from_shares(namespace(&nsb), &shares, app(c.app))) {
            Err(p) => {
                record(rep, "panic");
                viol(rep, "panic", format!("Commitment::from_shares panicked: {p}"), json!({"step": "from_shares"}));
            }
            Ok(Ok(cm)) if cm.hash() == &oc.hash => record(rep, "commitment-equal:from-shares"),
            Ok(r) => {
                record(rep, "violation:commitment-differs-from-adr013");
                viol(
                    rep,
                    "commitment-differs-from-adr013",
                    format!("Commitment::from_shares = {:?}, ADR-013 commitment {}", r.map(|c| hex::encode(c.hash())), hex::encode(oc.hash)),
                    json!({"step": "from_shares"}),
                );
            }
        }
    }

    // 3. validate: the blob carrying the oracle commitment, under the building app version
    //    and (full) under every app version
    let plain = Plain {
        ns: nsb,
        data: data.clone(),
        sv: c.sv,
        signer,
        commitment: oc.hash,
    };
    let apps: Vec<u64> = if c.full { (1..=LATEST_APP).collect() } else { vec![c.app] };
    for a in apps {
        let want = plain.oracle_accepts(a);
        let real = plain.real();
        match guard(|| real.validate(app(a))) {
            Err(p) => {
                record(rep, "panic");
                viol(rep, "panic", format!("validate panicked: {p}"), json!({"step": "validate", "validate_app": a}));
            }
            Ok(r) => {
                let got = r.is_ok();
                if got == want {
                    record(rep, if got { "accept:untampered" } else { "reject:share-version-1-below-app-v3" });
                } else if want {
                    record(rep, "violation:valid-blob-rejected");
                    viol(rep, "valid-blob-rejected", format!("validate(app {a}) = {r:?} for a blob whose commitment is the ADR-013 value"), json!({"step": "validate", "validate_app": a}));
                } else {
                    record(rep, "violation:unsupported-format-accepted");
                    viol(rep, "unsupported-format-accepted", format!("validate(app {a}) accepted share version {} although app {a} does not support it", c.sv), json!({"step": "validate", "validate_app": a}));
                }
            }
        }
    }

    // 4. tampering
    for (name, family, t) in tampers(&plain, c.full, c.n) {
        let want = t.oracle_accepts(c.app);
        let real = t.real();
        match guard(|| real.validate(app(c.app))) {
            Err(p) => {
                record(rep, "panic");
                viol(rep, "panic", format!("validate panicked on tamper {name}: {p}"), json!({"step": "tamper", "tamper": name}));
            }
            Ok(r) => {
                let got = r.is_ok();
                if got == want {
                    record(rep, &format!("{}:tampered-{family}", if got { "accept" } else { "reject" }));
                } else if got {
                    record(rep, &format!("violation:tampered-{family}-accepted"));
                    viol(
                        rep,
                        &format!("tampered-{family}-accepted"),
                        format!("validate accepted a blob tampered by {name} (the tampered content is not a legal blob format, or its ADR-013 commitment differs from the stored one)"),
                        json!({"step": "tamper", "tamper": name}),
                    );
                } else {
                    record(rep, "violation:valid-blob-rejected");
                    viol(rep, "valid-blob-rejected", format!("validate rejected tamper {name} although the stored commitment matches: {r:?}"), json!({"step": "tamper", "tamper": name}));
                }
            }
        }
    }

    if rep.wants_sample() && nontrivial && c.ns == "seeded" && c.app == LATEST_APP && (c.n % 61 == 4 || c.n == 65) {
        rep.sample(|| json!({"case": case(), "subtree_width": oc.width, "trees": &oc.trees[..oc.trees.len().min(16)], "tree_count": oc.trees.len(), "commitment": hex::encode(oc.hash)}));
    }
}

/// Sanity of the oracle itself (machinery error when it fails): the ADR-013 wording of the
/// width ("smallest power of two that keeps the number of subtree roots of full chunks
/// within the threshold, capped by the smallest square that holds the blob") against the
/// formula, and the mountain range shape.
fn oracle_self_test(max_n: u64) -> Result<(), String> {
    if mountain_range(11, 4) != vec![4, 4, 2, 1] || mountain_range(19, 8) != vec![8, 8, 2, 1] || mountain_range(2, 64) != vec![2] {
        return Err("mountain range examples of ADR-013".into());
    }
    for n in 1..=max_n {
        let th = 64;
        let mut w = 1u64;
        while ceil_div(n, w) > th {
            w *= 2;
        }
        let mut sq = 1u64;
        while sq * sq < n {
            sq *= 2;
        }
        let want = w.min(sq);
        if subtree_width(n, th) != want {
            return Err(format!("subtree_width({n}) = {} but the prose definition gives {want}", subtree_width(n, th)));
        }
        let m = mountain_range(n, want);
        let ok = m.iter().sum::<u64>() == n && m.iter().all(|t| t.is_power_of_two() && *t <= want) && m.windows(2).all(|p| p[0] >= p[1]) && {
            // the tail below `want` is a binary decomposition: strictly decreasing
            let tail: Vec<&u64> = m.iter().filter(|t| **t < want).collect();
            tail.windows(2).all(|p| p[0] > p[1])
        };
        if !ok {
            return Err(format!("mountain_range({n},{want}) = {m:?}"));
        }
    }
    Ok(())
}

fn cases(max_n: usize, n_full: usize, beyond: &[usize]) -> Vec<Case> {
    let mut v = vec![];
    let counts = (1..=max_n).chain(beyond.iter().copied());
    for n in counts {
        for sv in [0u8, 1] {
            let (lo, hi) = len_range_for_count(n, sv == 1);
            let lens = if lo == hi { vec![lo] } else { vec![lo, hi] };
            for len in lens {
                if n <= n_full {
                    let apps: Vec<u64> = if sv == 0 { (1..=LATEST_APP).collect() } else { (3..=LATEST_APP).collect() };
                    for ns in NS_KINDS {
                        for &a in &apps {
                            v.push(Case { n, len, sv, ns, app: a, full: true });
                        }
                    }
                } else {
                    v.push(Case { n, len, sv, ns: "seeded", app: LATEST_APP, full: false });
                }
            }
        }
    }
    v
}

fn main() {
    let ctx = Ctx::from_args("C12");
    let max_n: usize = ctx.tier.pick(600, 5000);
    let n_full: usize = ctx.tier.pick(130, 300);
    let beyond: Vec<usize> = ctx.tier.pick(vec![8192, 8193], vec![8191, 8192, 8193, 8194, 12000, 16384, 16385, 32768, 32769]);

    if let Err(e) = oracle_self_test(40_000) {
        machinery_error(&ctx.id, &format!("oracle self-test failed: {e}"));
    }

    let rep = if let Some(c) = ctx.replay_case() {
        let seed = c["seed"].as_u64().unwrap_or(ctx.seed);
        let case = Case {
            n: c["shares"].as_u64().unwrap() as usize,
            len: c["len"].as_u64().unwrap() as usize,
            sv: c["share_version"].as_u64().unwrap() as u8,
            ns: NS_KINDS.iter().find(|k| Some(**k) == c["ns"].as_str()).copied().unwrap_or_else(|| machinery_error(&ctx.id, "bad ns in replay")),
            app: c["app"].as_u64().unwrap(),
            full: c["full"].as_bool().unwrap_or(true),
        };
        let mut rep = Report::new();
        eval(&case, seed, &mut rep);
        rep
    } else {
        let seed = ctx.seed;
        let _ = DEADLINE.set(ctx.start + Duration::from_secs(ctx.tier.pick(600, 2400)));
        let cs = cases(max_n, n_full, &beyond);
        let n_cases = cs.len();
        let widths: std::collections::BTreeSet<u64> = cs.iter().map(|c| subtree_width(c.n as u64, 64)).collect();
        let cap_binds = cs.iter().filter(|c| pow2_at_least(ceil_div(c.n as u64, 64)) > min_square_size(c.n as u64)).count();
        // the few very large blobs are started first (they would otherwise be the serial tail
        // of the run) but reported last, so that the first counterexample stays the smallest
        let (big, small): (Vec<Case>, Vec<Case>) = cs.into_iter().partition(|c| c.n > max_n);
        let (rep_big, rep_small) = rayon::join(
            || par_cases(big, |c, rep| eval(&c, seed, rep)),
            || par_cases(small, |c, rep| eval(&c, seed, rep)),
        );
        let mut rep = rep_small.merge(rep_big);
        rep.extra("blob_cases", json!(n_cases));
        rep.extra("subtree_widths_covered", json!(widths));
        rep.extra("cases_where_min_square_cap_binds", json!(cap_binds));
        rep.extra("bounds", json!({"max_share_count": max_n, "full_families_up_to": n_full, "share_counts_beyond": beyond}));
        rep
    };

    finish(
        &ctx,
        rep,
        Spec {
            rule: "blobs: every share count n in 1..=N (N=600 quick, 5000 thorough) plus the listed counts around/above 8192 (where the min-square cap of ADR-013 first binds) x {smallest, largest data length needing exactly n shares} x {share version 0 without signer, 1 with signer}; for n <= F (F=130 quick, 300 thorough) x 3 namespaces x every app version that allows the format (V1..V7 / V3..V7), otherwise seeded namespace and app V7. evaluations per blob: Blob::new commitment vs oracle; (n<=F) Commitment::from_shares over oracle-built shares vs oracle; validate of the blob carrying the oracle commitment under the building app version (n<=F: under every app version V1..V7); validate of every tampered copy: data {last byte flipped, zero byte appended; n<=F also first/middle byte flipped, last byte dropped}, namespace {last bit; n<=F also another namespace}, signer {bit flipped, removed / added}, share version {0<->1 with and without adjusting the signer; n<=F also 2}, commitment bits {131; n<=F: 0,77,131,255; n<=4: all 256}. distinct = (blob, evaluation index); non-trivial = blob whose mountain range has trees of different sizes or whose share count is adjacent to a subtree-width change",
            assumptions: &[
                "payload bytes come from VERIF_SEED; the commitment rules do not depend on them",
                "SubtreeRootThreshold is 64 in every app version V1..V7 (celestia-app constants), so 'threshold of the wrong app version' is not observable",
                "share counts above 5000 are covered only at the listed values",
            ],
            required_classes: &[
                "commitment-equal:new",
                "commitment-equal:from-shares",
                "accept:untampered",
                "reject:share-version-1-below-app-v3",
                "reject:tampered-data",
                "reject:tampered-namespace",
                "reject:tampered-signer",
                "reject:tampered-share-version",
                "reject:tampered-commitment",
            ],
            exhaustive: true,
        },
    );
}
