//! C06 — Namespace data is sound and complete.   (engine E1)
//!
//! Space (per square = width x namespace layout, payload from VERIF_SEED) x a namespace family:
//! every namespace present in the square (reserved, user, spanning rows, tail padding; evenly
//! strided when there are more than 64), for each chosen user namespace the never-present
//! namespace right above it (absent inside a row's range, or between the ranges of two rows),
//! and the specials 0, TRANSACTION, PAY_FOR_BLOB, PRIMARY_RESERVED_PADDING, first user
//! namespace, largest v0 namespace, MIN_SECONDARY_RESERVED, TAIL_PADDING, PARITY_SHARE.
//!  * completeness: `ExtendedDataSquare::get_namespace_data` must list exactly the rows whose
//!    (brute-force) range covers the namespace, in order, each with exactly the scanned shares
//!    (absence proof where there are none); every row and the whole `NamespaceData` must verify,
//!    also after `encode`/`decode` resp. `from_raw`.
//!  * soundness, row level: for EVERY row (covered or not) the honest data of that row with one
//!    mutation (share dropped with the old proof or with a valid proof of the narrowed range,
//!    neighbouring share appended with/without a valid wider proof, share duplicated / swapped /
//!    byte-flipped, presence replaced by an absence proof around the namespace, absence proof
//!    moved to a neighbouring leaf / stripped of its leaf, empty presence proof, range shifted,
//!    sibling flipped or dropped, ignore-max flag cleared, honest data of every other namespace
//!    of the row, honest data of the same namespace from other rows).
//!  * soundness, block level: row dropped / duplicated / swapped / inserted, and selected row
//!    mutations inside the list.
//! Oracle (from the statement): `RowNamespaceData::verify(id(ns,row))` may return Ok only if the
//! shares equal the brute-force scan of that row; `NamespaceData::verify` only if the list has
//! one entry per covered row, in row order, each equal to the scan.  Panics are never a verdict.
#[path = "../shared/eds_fix.rs"]
mod eds_fix;

use bytes::BytesMut;
use celestia_proto::proof::pb::Proof as RawProof;
use celestia_proto::shwap::{RowNamespaceData as RawRnd, Share as RawShare};
use celestia_types::Share;
use celestia_types::namespace_data::{NamespaceData, NamespaceDataId};
use celestia_types::nmt::{NamespaceProof, NamespacedHashExt, Nmt};
use celestia_types::row_namespace_data::{RowNamespaceData, RowNamespaceDataId};
use eds_fix::*;
use lv_core::oracle::nmt_leaf;
use lv_core::*;
use prost::Message;
use serde::{Deserialize, Serialize};
use serde_json::json;
use std::collections::HashMap;

#[derive(Clone, Debug, Serialize, Deserialize, PartialEq)]
enum M {
    None,
    // ---- row level
    DropShare { idx: usize, reproof: bool },
    AddNeighbour { left: bool, reproof: bool },
    DupShare { idx: usize },
    SwapShares { a: usize, b: usize },
    FlipShare { idx: usize, pos: usize },
    /// presence -> absence proof for the leaf at (first leaf of the namespace + off)
    ToAbsence { off: i64 },
    EmptyPresence,
    AbsenceLeafShift { delta: i64 },
    AbsenceNoLeaf,
    RangeShift { delta: i64 },
    SibFlip { idx: usize, byte: usize },
    SibDrop { idx: usize },
    IgnoreMaxOff,
    /// honest data of namespace `ns2` in the same row
    OtherNs { ns2: String },
    /// honest data of the same namespace in row `row2`
    OtherRow { row2: usize },
    // ---- block level
    DropRow { i: usize },
    DupRow { i: usize },
    SwapRows { i: usize, j: usize },
    /// honest data of (row, ns) inserted at position `at`
    InsertRow { at: usize, row: usize },
    InRow { i: usize, m: Box<M> },
}

impl M {
    fn family(&self) -> String {
        let s = format!("{self:?}");
        let end = s.find(|c: char| !c.is_alphanumeric()).unwrap_or(s.len());
        match self {
            M::InRow { m, .. } => format!("InRow.{}", m.family()),
            _ => s[..end].to_string(),
        }
    }
}

#[derive(Clone, Debug, Serialize, Deserialize)]
struct Case {
    seed: u64,
    width: usize,
    layout: usize,
    /// namespace (hex, 29 bytes)
    ns: String,
    /// "row" | "block"
    level: String,
    /// row level: the requested row
    row: usize,
    mutation: M,
    /// "direct" | "wire"
    path: String,
}

/// Candidate data of one row: shares (bytes, parity flag) + raw proof.
#[derive(Clone, Debug, PartialEq)]
struct CRow {
    shares: Vec<(Vec<u8>, bool)>,
    proof: RawProof,
}

struct Trees<'a> {
    fx: &'a Fixture,
    cache: HashMap<usize, Nmt>,
}

impl<'a> Trees<'a> {
    fn new(fx: &'a Fixture) -> Self {
        Trees { fx, cache: HashMap::new() }
    }
    fn tree(&mut self, r: usize) -> &mut Nmt {
        let fx = self.fx;
        self.cache.entry(r).or_insert_with(|| fx.eds.row_nmt(r as u16).expect("row_nmt"))
    }
    fn range_proof(&mut self, r: usize, a: usize, b: usize) -> RawProof {
        let p = self.tree(r).build_range_proof(a..b);
        RawProof {
            start: a as i64,
            end: b as i64,
            nodes: p.siblings().iter().map(|h| h.to_vec()).collect(),
            leaf_hash: vec![],
            is_max_namespace_ignored: true,
        }
    }
    /// What an honest server would produce for (row, ns) — built with the library's prover
    /// (the adversary's tool) and the brute-force scan.
    fn honest_row(&mut self, r: usize, ns: &NsB) -> CRow {
        let fx = self.fx;
        if !fx.row_covers(r, ns) {
            // what the library's prover returns for a namespace outside the row's range: an
            // absence proof without leaf and without nodes.  It has no wire form (an empty
            // leaf_hash decodes as a presence proof), hence the marker; honest servers never
            // send anything for such rows.
            return CRow {
                shares: vec![],
                proof: RawProof { start: 0, end: 0, nodes: vec![], leaf_hash: b"none".to_vec(), is_max_namespace_ignored: true },
            };
        }
        let cols = fx.scan_row_cols(r, ns);
        let shares = cols.iter().map(|&c| (fx.cells[r][c].clone(), !fx.in_ods(r, c))).collect();
        let nsid = namespace(ns);
        let proof: NamespaceProof = self.tree(r).get_namespace_proof(*nsid).into();
        CRow { shares, proof: RawProof::from(proof) }
    }
    fn absence_at(&mut self, r: usize, idx: usize) -> RawProof {
        let fx = self.fx;
        let mut p = self.range_proof(r, idx, idx + 1);
        p.leaf_hash = nmt_leaf(&fx.cell_ns(r, idx), &fx.cells[r][idx]).to_bytes();
        p
    }
}

/// Applies a row-level mutation to the honest data of (r, ns); None = not applicable.
fn mutate_row(t: &mut Trees, r: usize, ns: &NsB, m: &M) -> Option<CRow> {
    let fx = t.fx;
    let w = fx.width;
    let mut c = t.honest_row(r, ns);
    let n = c.shares.len();
    let present = n > 0;
    let absent_with_leaf = !present && !c.proof.leaf_hash.is_empty() && c.proof.leaf_hash != b"none";
    let cols = fx.scan_row_cols(r, ns);
    match m {
        M::None => {}
        M::DropShare { idx, reproof } => {
            if *idx >= n {
                return None;
            }
            c.shares.remove(*idx);
            if *reproof {
                let (a, b) = (cols[0], cols[n - 1] + 1);
                let (a, b) = if *idx == 0 {
                    (a + 1, b)
                } else if *idx == n - 1 {
                    (a, b - 1)
                } else {
                    return None;
                };
                if a >= b {
                    return None;
                }
                c.proof = t.range_proof(r, a, b);
            }
        }
        M::AddNeighbour { left, reproof } => {
            if !present {
                return None;
            }
            let (a, b) = (cols[0], cols[n - 1] + 1);
            let col = if *left { a.checked_sub(1)? } else { b };
            if col >= w {
                return None;
            }
            let sh = (fx.cells[r][col].clone(), !fx.in_ods(r, col));
            if *left {
                c.shares.insert(0, sh);
            } else {
                c.shares.push(sh);
            }
            if *reproof {
                c.proof = if *left { t.range_proof(r, a - 1, b) } else { t.range_proof(r, a, b + 1) };
            }
        }
        M::DupShare { idx } => {
            if *idx >= n {
                return None;
            }
            let s = c.shares[*idx].clone();
            c.shares.insert(*idx, s);
        }
        M::SwapShares { a, b } => {
            if *a >= n || *b >= n || c.shares[*a] == c.shares[*b] {
                return None;
            }
            c.shares.swap(*a, *b);
        }
        M::FlipShare { idx, pos } => {
            if *idx >= n {
                return None;
            }
            c.shares[*idx].0[*pos] ^= 1;
        }
        M::ToAbsence { off } => {
            if !present {
                return None;
            }
            let idx = cols[0] as i64 + off;
            if idx < 0 || idx >= w as i64 {
                return None;
            }
            c.shares.clear();
            c.proof = t.absence_at(r, idx as usize);
        }
        M::EmptyPresence => {
            if present {
                c.shares.clear();
                c.proof.end = c.proof.start;
            } else if absent_with_leaf {
                c.proof.leaf_hash.clear();
                c.proof.end = c.proof.start;
            } else {
                return None;
            }
        }
        M::AbsenceLeafShift { delta } => {
            if !absent_with_leaf {
                return None;
            }
            let idx = c.proof.start + delta;
            if idx < 0 || idx >= w as i64 {
                return None;
            }
            c.proof = t.absence_at(r, idx as usize);
        }
        M::AbsenceNoLeaf => {
            if !absent_with_leaf {
                return None;
            }
            // nmt-rs cannot express "absence without leaf" on the wire other than by an empty
            // leaf_hash, which decodes as a presence proof: direct path only (see `direct`)
            c.proof.leaf_hash = b"none".to_vec();
        }
        M::RangeShift { delta } => {
            if c.proof.nodes.is_empty() || c.proof.start + delta < 0 {
                return None;
            }
            c.proof.start += delta;
            c.proof.end += delta;
        }
        M::SibFlip { idx, byte } => c.proof.nodes.get_mut(*idx)?[*byte] ^= 1,
        M::SibDrop { idx } => {
            if *idx >= c.proof.nodes.len() {
                return None;
            }
            c.proof.nodes.remove(*idx);
        }
        M::IgnoreMaxOff => {
            if c.proof.nodes.is_empty() {
                return None;
            }
            c.proof.is_max_namespace_ignored = false;
        }
        M::OtherNs { ns2 } => {
            let b: NsB = hex::decode(ns2).ok()?.try_into().ok()?;
            if b == *ns {
                return None;
            }
            let o = t.honest_row(r, &b);
            if o == c {
                return None;
            }
            c = o;
        }
        M::OtherRow { row2 } => {
            if *row2 == r {
                return None;
            }
            let o = t.honest_row(*row2, ns);
            if o == c {
                return None;
            }
            c = o;
        }
        _ => return None,
    }
    Some(c)
}

fn to_raw(c: &CRow) -> RawRnd {
    RawRnd { shares: c.shares.iter().map(|(d, _)| RawShare { data: d.clone() }).collect(), proof: Some(c.proof.clone()) }
}

/// The struct a caller of the public API would hold.
fn direct(c: &CRow) -> Option<RowNamespaceData> {
    let shares: Option<Vec<Share>> =
        c.shares.iter().map(|(d, p)| if *p { Share::parity(d) } else { Share::from_raw(d) }.ok()).collect();
    let proof = if c.proof.leaf_hash == b"none" {
        let mut raw = c.proof.clone();
        raw.leaf_hash.clear();
        let p = NamespaceProof::try_from(raw).ok()?;
        let inner = p.into_inner();
        let nmt = match inner {
            nmt_rs::nmt_proof::NamespaceProof::PresenceProof { proof, ignore_max_ns } => {
                nmt_rs::nmt_proof::NamespaceProof::AbsenceProof { proof, ignore_max_ns, leaf: None }
            }
            other => other,
        };
        NamespaceProof::from(nmt)
    } else {
        NamespaceProof::try_from(c.proof.clone()).ok()?
    };
    Some(RowNamespaceData { proof, shares: shares? })
}

enum Verdict {
    Accept(Vec<Vec<Vec<u8>>>),
    Reject(String),
    Panic(String),
    Unbuildable,
}

fn share_bytes(r: &RowNamespaceData) -> Vec<Vec<u8>> {
    r.shares.iter().map(|s| s.data().to_vec()).collect()
}

fn run_row(fx: &Fixture, ns: &NsB, row: usize, cand: &CRow, path: &str) -> Verdict {
    let nsid = namespace(ns);
    let id = RowNamespaceDataId::new(nsid, row as u16, HEIGHT).expect("id");
    match path {
        "direct" => match direct(cand) {
            None => Verdict::Unbuildable,
            Some(d) => match guard(|| d.verify(id, &fx.dah)) {
                Err(p) => Verdict::Panic(p),
                Ok(Ok(())) => Verdict::Accept(vec![share_bytes(&d)]),
                Ok(Err(e)) => Verdict::Reject(format!("verify:{}", err_kind2(&e))),
            },
        },
        "wire" => {
            if cand.proof.leaf_hash == b"none" {
                return Verdict::Unbuildable;
            }
            let bytes = to_raw(cand).encode_to_vec();
            match guard(|| match RowNamespaceData::decode(id, &bytes) {
                Err(e) => Err(format!("decode:{}", err_kind2(&e))),
                Ok(d) => match d.verify(id, &fx.dah) {
                    Ok(()) => Ok(share_bytes(&d)),
                    Err(e) => Err(format!("verify:{}", err_kind2(&e))),
                },
            }) {
                Err(p) => Verdict::Panic(p),
                Ok(Ok(s)) => Verdict::Accept(vec![s]),
                Ok(Err(e)) => Verdict::Reject(e),
            }
        }
        other => panic!("unknown path {other}"),
    }
}

fn run_block(fx: &Fixture, ns: &NsB, cand: &[CRow], path: &str) -> Verdict {
    let nsid = namespace(ns);
    let id = NamespaceDataId::new(nsid, HEIGHT).expect("id");
    let data: Result<NamespaceData, String> = match path {
        "direct" => {
            let rows: Option<Vec<RowNamespaceData>> = cand.iter().map(direct).collect();
            match rows {
                None => return Verdict::Unbuildable,
                Some(r) => Ok(NamespaceData::new(r)),
            }
        }
        "wire" => {
            if cand.iter().any(|c| c.proof.leaf_hash == b"none") {
                return Verdict::Unbuildable;
            }
            let raws: Vec<RawRnd> = cand.iter().map(to_raw).collect();
            match guard(|| NamespaceData::from_raw(id, raws)) {
                Err(p) => return Verdict::Panic(p),
                Ok(Err(e)) => Err(format!("decode:{}", err_kind2(&e))),
                Ok(Ok(d)) => Ok(d),
            }
        }
        other => panic!("unknown path {other}"),
    };
    match data {
        Err(e) => Verdict::Reject(e),
        Ok(d) => match guard(|| d.verify(id, &fx.dah)) {
            Err(p) => Verdict::Panic(p),
            Ok(Ok(())) => Verdict::Accept(d.rows().iter().map(share_bytes).collect()),
            Ok(Err(e)) => Verdict::Reject(format!("verify:{}", err_kind2(&e))),
        },
    }
}

fn covered_rows(fx: &Fixture, ns: &NsB) -> Vec<usize> {
    (0..fx.width).filter(|r| fx.row_covers(*r, ns)).collect()
}

fn eval(fx: &Fixture, t: &mut Trees, case: &Case, rep: &mut Report) {
    let ns: NsB = hex::decode(&case.ns).expect("ns hex").try_into().expect("ns len");
    let uncovered_row = case.level == "row" && !fx.row_covers(case.row, &ns);
    let fam = if uncovered_row && case.mutation == M::None {
        "row/NoneForUncoveredRow".to_string()
    } else {
        format!("{}/{}", case.level, case.mutation.family())
    };
    let cj = || serde_json::to_value(case).unwrap();
    let (verdict, want): (Verdict, Vec<Vec<Vec<u8>>>) = if case.level == "row" {
        let Some(cand) = mutate_row(t, case.row, &ns, &case.mutation) else { return };
        (run_row(fx, &ns, case.row, &cand, &case.path), vec![fx.scan_row(case.row, &ns).into_iter().filter(|_| fx.row_covers(case.row, &ns)).collect()])
    } else {
        let cov = covered_rows(fx, &ns);
        let mut list: Vec<CRow> = cov.iter().map(|r| t.honest_row(*r, &ns)).collect();
        match &case.mutation {
            M::None => {}
            M::DropRow { i } => {
                if *i >= list.len() {
                    return;
                }
                list.remove(*i);
            }
            M::DupRow { i } => {
                if *i >= list.len() {
                    return;
                }
                let x = list[*i].clone();
                list.insert(*i, x);
            }
            M::SwapRows { i, j } => {
                if *i >= list.len() || *j >= list.len() || list[*i] == list[*j] {
                    return;
                }
                list.swap(*i, *j);
            }
            M::InsertRow { at, row } => {
                if *at > list.len() {
                    return;
                }
                let x = t.honest_row(*row, &ns);
                list.insert(*at, x);
            }
            M::InRow { i, m } => {
                if *i >= list.len() {
                    return;
                }
                let Some(x) = mutate_row(t, cov[*i], &ns, m) else { return };
                list[*i] = x;
            }
            _ => return,
        }
        (run_block(fx, &ns, &list, &case.path), cov.iter().map(|r| fx.scan_row(*r, &ns)).collect())
    };
    // honest data exists only for rows whose range covers the namespace
    let honest = case.mutation == M::None && !uncovered_row;
    match verdict {
        Verdict::Unbuildable => rep.case_nokey(&format!("{fam}:unbuildable-on-{}", case.path)),
        Verdict::Panic(p) => {
            rep.case_nokey(&format!("{fam}:panic"));
            rep.violation("panic", format!("{} {} path panicked instead of returning a verdict: {p}; {}", case.level, case.path, fx.describe()), cj());
        }
        Verdict::Reject(e) => {
            rep.case_nokey(&format!("{fam}:reject:{e}"));
            if honest {
                rep.violation("honest-data-rejected", format!("honest namespace data rejected ({} level, {} path): {e}; {}", case.level, case.path, fx.describe()), cj());
            }
        }
        Verdict::Accept(got) => {
            if got == want {
                rep.case_nokey(&format!("{fam}:{}", if honest { "accept" } else { "accept-equal-to-scan" }));
            } else {
                rep.case_nokey(&format!("{fam}:ACCEPT-WRONG-DATA"));
                let key = if case.level == "row" { "nsdata-row-accepted-wrong-shares" } else { "nsdata-block-accepted-wrong-rows" };
                rep.violation(
                    key,
                    format!(
                        "verify returned Ok for namespace data that differs from the brute-force scan: ns {}, {} level (row {}), mutation {:?}, {} path; got {} row(s) with {:?} shares, scan has {} row(s) with {:?} shares; {}",
                        case.ns, case.level, case.row, case.mutation, case.path,
                        got.len(), got.iter().map(|r| r.len()).collect::<Vec<_>>(),
                        want.len(), want.iter().map(|r| r.len()).collect::<Vec<_>>(), fx.describe()
                    ),
                    cj(),
                );
            }
        }
    }
}

/// Namespace family of a fixture: (namespace, kind).
fn family(fx: &Fixture) -> Vec<(NsB, &'static str)> {
    let mut out: Vec<(NsB, &'static str)> = vec![];
    let p = &fx.present;
    let idxs: Vec<usize> = if p.len() <= 64 {
        (0..p.len()).collect()
    } else {
        let mut v: Vec<usize> = (0..64).map(|i| i * (p.len() - 1) / 63).collect();
        v.dedup();
        v
    };
    for i in idxs {
        out.push((p[i], "present"));
        // the never-present namespace right above a user namespace
        let n = u32::from_be_bytes(p[i][25..29].try_into().unwrap());
        if p[i][0] == 0 && n >= 0x1000 {
            out.push((ns_v0(n + 8), "gap"));
        }
    }
    for s in [ns_v0(0), ns_tx(), ns_pfb(), ns_primary_reserved_padding(), ns_v0(0x100), ns_v0_max(), ns_min_secondary_reserved(), ns_tail(), ns_parity()] {
        if !out.iter().any(|(n, _)| *n == s) {
            out.push((s, "special"));
        }
    }
    out
}

fn kind_of(fx: &Fixture, ns: &NsB) -> &'static str {
    let cov = covered_rows(fx, ns);
    let with_shares = cov.iter().filter(|r| !fx.scan_row(**r, ns).is_empty()).count();
    if *ns == ns_parity() {
        "parity"
    } else if cov.is_empty() {
        "out-of-range"
    } else if with_shares == 0 {
        "absent-in-range"
    } else if with_shares == 1 && cov.len() == 1 {
        "present-one-row"
    } else if with_shares == cov.len() {
        "present-multi-row"
    } else {
        "present-with-absent-rows"
    }
}

/// Completeness: what the square itself produces.
fn completeness(fx: &Fixture, ns: &NsB, rep: &mut Report) {
    let nsid = namespace(ns);
    let kind = kind_of(fx, ns);
    let cj = || json!({"seed": fx.seed, "width": fx.width, "layout": fx.layout, "ns": hexs(ns), "level": "complete", "row": 0, "mutation": "None", "path": "direct"});
    let cov = covered_rows(fx, ns);
    let out = match guard(|| fx.eds.get_namespace_data(nsid, &fx.dah, HEIGHT)) {
        Err(p) => {
            rep.case_nokey("complete:panic");
            rep.violation("panic", format!("get_namespace_data panicked: {p}"), cj());
            return;
        }
        Ok(Err(e)) => {
            rep.case_nokey("complete:error");
            rep.violation("produced-data-error", format!("get_namespace_data failed: {e}; {}", fx.describe()), cj());
            return;
        }
        Ok(Ok(o)) => o,
    };
    let mut problems: Vec<String> = vec![];
    let rows: Vec<usize> = out.iter().map(|(id, _)| id.row_index() as usize).collect();
    if rows != cov {
        problems.push(format!("rows {rows:?} but the rows covering the namespace are {cov:?}"));
    }
    for (id, data) in &out {
        let r = id.row_index() as usize;
        if id.namespace() != nsid || id.block_height() != HEIGHT {
            problems.push(format!("row {r}: id carries another namespace/height"));
        }
        let scan = fx.scan_row(r, ns);
        if share_bytes(data) != scan {
            problems.push(format!("row {r}: {} shares, scan has {}", data.shares.len(), scan.len()));
        }
        if scan.is_empty() != data.proof.is_of_absence() {
            problems.push(format!("row {r}: {} shares with a proof of {}", scan.len(), if data.proof.is_of_absence() { "absence" } else { "presence" }));
        }
    }
    if !problems.is_empty() {
        rep.case_nokey("complete:differs");
        rep.violation("produced-data-differs-from-scan", format!("get_namespace_data({}) : {}; {}", hexs(ns), problems.join("; "), fx.describe()), cj());
        return;
    }
    // every row verifies, also after encode/decode
    for (id, data) in &out {
        let res = guard(|| {
            data.verify(*id, &fx.dah).map_err(|e| format!("verify: {e}"))?;
            let mut b = BytesMut::new();
            data.encode(&mut b);
            let d = RowNamespaceData::decode(*id, &b).map_err(|e| format!("decode: {e}"))?;
            if d != *data {
                return Err("decoded row differs from the encoded one".to_string());
            }
            d.verify(*id, &fx.dah).map_err(|e| format!("verify after decode: {e}"))
        });
        match res {
            Ok(Ok(())) => {}
            Ok(Err(e)) => problems.push(format!("row {}: {e}", id.row_index())),
            Err(p) => problems.push(format!("row {}: panic {p}", id.row_index())),
        }
    }
    let nd_id = NamespaceDataId::new(nsid, HEIGHT).expect("id");
    let nd = NamespaceData::new(out.iter().map(|(_, d)| d.clone()).collect());
    let res = guard(|| {
        nd.verify(nd_id, &fx.dah).map_err(|e| format!("verify: {e}"))?;
        let raws: Vec<RawRnd> = nd.rows().iter().cloned().map(RawRnd::from).collect();
        let d = NamespaceData::from_raw(nd_id, raws).map_err(|e| format!("from_raw: {e}"))?;
        if d != nd {
            return Err("namespace data rebuilt from raw differs".to_string());
        }
        d.verify(nd_id, &fx.dah).map_err(|e| format!("verify after from_raw: {e}"))
    });
    match res {
        Ok(Ok(())) => {}
        Ok(Err(e)) => problems.push(format!("block: {e}")),
        Err(p) => problems.push(format!("block: panic {p}")),
    }
    if problems.is_empty() {
        rep.case_nokey(&format!("complete/{kind}:verifies-and-equals-scan"));
        if rep.wants_sample() {
            rep.sample(|| json!({"square": fx.describe(), "ns": hexs(ns), "kind": kind, "rows": cov, "shares_per_row": cov.iter().map(|r| fx.scan_row(*r, ns).len()).collect::<Vec<_>>()}));
        }
    } else {
        rep.case_nokey("complete:rejected");
        rep.violation("produced-data-rejected", format!("data produced by the square for {} does not verify: {}; {}", hexs(ns), problems.join("; "), fx.describe()), cj());
    }
}

const PATHS: [&str; 2] = ["direct", "wire"];

fn row_mutations(fx: &Fixture, t: &mut Trees, r: usize, ns: &NsB, fam: &[(NsB, &'static str)]) -> Vec<M> {
    let base = t.honest_row(r, ns);
    let n = base.shares.len();
    let sib = base.proof.nodes.len();
    let mut v = vec![];
    let mut idxs = vec![0usize];
    if n > 1 {
        idxs.push(n - 1);
    }
    if n > 2 {
        idxs.push(n / 2);
    }
    if n > 0 {
        for &idx in &idxs {
            v.push(M::DropShare { idx, reproof: false });
            v.push(M::DropShare { idx, reproof: true });
            v.push(M::DupShare { idx });
            for pos in [0usize, 28, 29, 30, 511] {
                v.push(M::FlipShare { idx, pos });
            }
        }
        for left in [true, false] {
            for reproof in [false, true] {
                v.push(M::AddNeighbour { left, reproof });
            }
        }
        if n > 1 {
            v.push(M::SwapShares { a: 0, b: n - 1 });
            v.push(M::SwapShares { a: 0, b: 1 });
        }
        for off in [-1i64, 0, n as i64 - 1, n as i64] {
            v.push(M::ToAbsence { off });
        }
    }
    v.push(M::EmptyPresence);
    for delta in [-1i64, 1, 2] {
        v.push(M::AbsenceLeafShift { delta });
    }
    v.push(M::AbsenceNoLeaf);
    for delta in [-1i64, 1, fx.width as i64] {
        v.push(M::RangeShift { delta });
    }
    for idx in 0..sib {
        for byte in [0usize, 29, 58, 89] {
            v.push(M::SibFlip { idx, byte });
        }
        v.push(M::SibDrop { idx });
    }
    v.push(M::IgnoreMaxOff);
    // honest data of the other namespaces this row holds, and of family namespaces it covers
    let mut others: Vec<NsB> = (0..fx.width).map(|c| fx.cell_ns(r, c)).collect();
    others.extend(fam.iter().map(|(n, _)| *n).filter(|n| fx.row_covers(r, n)));
    others.sort();
    others.dedup();
    if others.len() > 24 {
        // nearest namespaces first
        let pos = others.iter().position(|o| o >= ns).unwrap_or(others.len());
        let lo = pos.saturating_sub(12);
        let hi = (lo + 24).min(others.len());
        others = others[lo..hi].to_vec();
    }
    for o in others {
        if o != *ns {
            v.push(M::OtherNs { ns2: hexs(&o) });
        }
    }
    let rows2: Vec<usize> = if fx.width <= 16 {
        (0..fx.width).collect()
    } else {
        let mut x = covered_rows(fx, ns);
        x.extend([0, r.saturating_sub(1), (r + 1).min(fx.width - 1), fx.k - 1, fx.k, fx.width - 1]);
        x.sort();
        x.dedup();
        x
    };
    for row2 in rows2 {
        if row2 != r {
            v.push(M::OtherRow { row2 });
        }
    }
    v
}

fn explore(fx: &Fixture, ctx: &Ctx, cap: f64) -> Report {
    let fam = family(fx);
    let w = fx.width;
    par_cases(fam.clone(), |(ns, _), rep| {
        if ctx.elapsed_s() > cap {
            rep.cap_hit(&format!("wall cap {cap}s inside w={w} layout={}", fx.layout));
            return;
        }
        let mut t = Trees::new(fx);
        completeness(fx, &ns, rep);
        let mk = |level: &str, row: usize, mutation: M, path: &str| Case {
            seed: fx.seed,
            width: w,
            layout: fx.layout,
            ns: hexs(&ns),
            level: level.to_string(),
            row,
            mutation,
            path: path.to_string(),
        };
        // row level: every row
        for r in 0..w {
            for p in PATHS {
                eval(fx, &mut t, &mk("row", r, M::None, p), rep);
            }
            for m in row_mutations(fx, &mut t, r, &ns, &fam) {
                for p in PATHS {
                    eval(fx, &mut t, &mk("row", r, m.clone(), p), rep);
                }
            }
        }
        // block level
        let cov = covered_rows(fx, &ns);
        let len = cov.len();
        let mut ms = vec![M::None];
        for i in 0..len {
            ms.push(M::DropRow { i });
            ms.push(M::DupRow { i });
            for j in i + 1..len {
                ms.push(M::SwapRows { i, j });
            }
        }
        let uncovered: Vec<usize> = (0..w).filter(|r| !cov.contains(r)).collect();
        let mut ins: Vec<usize> = cov.clone();
        ins.extend(uncovered.first());
        ins.extend(uncovered.last());
        ins.dedup();
        for at in 0..=len {
            for &row in &ins {
                ms.push(M::InsertRow { at, row });
            }
        }
        for i in 0..len {
            let n = fx.scan_row(cov[i], &ns).len();
            let mut inner = vec![
                M::DropShare { idx: 0, reproof: true },
                M::DropShare { idx: n.saturating_sub(1), reproof: true },
                M::DropShare { idx: 0, reproof: false },
                M::AddNeighbour { left: true, reproof: true },
                M::AddNeighbour { left: false, reproof: true },
                M::ToAbsence { off: n as i64 },
                M::ToAbsence { off: 0 },
                M::EmptyPresence,
                M::AbsenceLeafShift { delta: 1 },
                M::AbsenceLeafShift { delta: -1 },
                M::AbsenceNoLeaf,
                M::FlipShare { idx: 0, pos: 511 },
            ];
            for row2 in cov.iter().copied().chain(uncovered.first().copied()) {
                inner.push(M::OtherRow { row2 });
            }
            for m in inner {
                ms.push(M::InRow { i, m: Box::new(m) });
            }
        }
        for m in ms {
            for p in PATHS {
                eval(fx, &mut t, &mk("block", 0, m.clone(), p), rep);
            }
        }
    })
}

fn main() {
    let ctx = Ctx::from_args("C06");
    let mut rep = Report::new();
    rep.sample_cap = 10;
    if let Some(c) = ctx.replay_case() {
        let case: Case = serde_json::from_value(c).unwrap_or_else(|e| machinery_error(&ctx.id, &format!("bad replay case: {e}")));
        let fx = Fixture::build(case.width, case.layout, case.seed).unwrap_or_else(|e| machinery_error(&ctx.id, &e));
        if case.level == "complete" {
            let ns: NsB = hex::decode(&case.ns).expect("ns hex").try_into().expect("ns len");
            completeness(&fx, &ns, &mut rep);
        } else {
            let mut t = Trees::new(&fx);
            eval(&fx, &mut t, &case, &mut rep);
        }
    } else {
        let plan: Vec<(usize, Vec<usize>)> = if ctx.quick() {
            vec![(2, vec![0, 1, 2]), (4, vec![0, 1, 2]), (8, vec![0, 1, 2]), (16, vec![0, 1, 2]), (32, vec![0])]
        } else {
            vec![(2, vec![0, 1, 2]), (4, vec![0, 1, 2]), (8, vec![0, 1, 2]), (16, vec![0, 1, 2]), (32, vec![0, 1, 2]), (64, vec![0, 1, 2]), (128, vec![0])]
        };
        let cap = ctx.tier.pick(50.0, 840.0);
        let mut squares = vec![];
        'outer: for (w, layouts) in plan {
            for l in layouts {
                if ctx.elapsed_s() > cap {
                    rep.cap_hit(&format!("wall cap {cap}s before w={w} layout={l}"));
                    break 'outer;
                }
                let fx = Fixture::build(w, l, ctx.seed).unwrap_or_else(|e| machinery_error(&ctx.id, &e));
                let r = explore(&fx, &ctx, cap);
                squares.push(json!({"width": w, "layout": LAYOUTS[l], "namespaces": family(&fx).len(), "evaluations": r.evaluations}));
                rep.merge_in(r);
            }
        }
        rep.extra("squares", json!(squares));
        let nontrivial: u64 = rep
            .classes
            .iter()
            .filter(|(k, _)| !k.contains("/None:") && !k.starts_with("complete") && !k.contains("unbuildable"))
            .map(|(_, v)| *v)
            .sum();
        rep.extra("distinct_by_construction", json!(rep.evaluations));
        rep.extra("distinct_nontrivial_by_construction", json!(nontrivial));
    }
    finish(
        &ctx,
        rep,
        Spec {
            rule: "squares = EDS widths {2,4,8,16}x3 layouts + 32x'structured' (quick) / {2,..,64}x3 layouts + 128x'structured' (thorough); namespace family per square = every present namespace (<=64, evenly strided beyond) + the never-present namespace above each chosen user namespace + 9 specials (0, TX, PFB, primary-reserved padding, 0x100, max v0, min secondary reserved, tail padding, parity). Per namespace: completeness of get_namespace_data (1 evaluation); row level: every row of the square x paths {direct struct, wire bytes} x {honest, every listed single mutation}; block level: paths x {honest list, drop/duplicate each row, swap each pair, insert honest data of each covered row and of the first/last uncovered row at each position, 12+ row mutations inside each row}. Cases distinct by construction; inapplicable or no-op mutations are skipped; non-trivial = every mutated candidate",
            assumptions: &[
                "payload bytes come from VERIF_SEED (Fill); layouts, widths, namespaces, rows and mutations are enumerated, never sampled",
                "the square is what ExtendedDataSquare::from_ods produced; the brute-force view is copied from its flat share list and its DAH is re-derived by an independent NMT implementation at fixture build time",
                "'row covers the namespace' is computed by brute force from the cells (min/max namespace of the ODS part of the row, parity for parity rows), the convention the DAH roots commit to",
                "adversarial proofs are built with the library's own prover (nmt-rs build_range_proof / get_namespace_proof); the oracle never uses it",
            ],
            required_classes: &[
                "complete/present-one-row:verifies-and-equals-scan",
                "complete/present-multi-row:verifies-and-equals-scan",
                "complete/absent-in-range:verifies-and-equals-scan",
                "complete/out-of-range:verifies-and-equals-scan",
                "complete/parity:verifies-and-equals-scan",
                "row/None:accept",
                "block/None:accept",
                "row/DropShare:reject*",
                "row/AddNeighbour:reject*",
                "row/DupShare:reject*",
                "row/FlipShare:reject*",
                "row/ToAbsence:reject*",
                "row/EmptyPresence:reject*",
                "row/AbsenceLeafShift:reject*",
                "row/AbsenceNoLeaf:reject*",
                "row/OtherNs:reject*",
                "row/OtherRow:reject*",
                "row/SibFlip:reject*",
                "block/DropRow:reject*",
                "block/DupRow:reject*",
                "block/SwapRows:reject*",
                "block/InsertRow:reject*",
                "block/InRow.DropShare:reject*",
                "block/InRow.ToAbsence:reject*",
                "block/InRow.OtherRow:reject*",
            ],
            exhaustive: true,
        },
    );
}
