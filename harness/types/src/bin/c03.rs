//! C03 — Commit verification enforces the voting-power thresholds.   (engine E1)
//!
//! `ValidatorSetExt` is private to celestia-types, so the two verifications are driven
//! through their only public callers, with everything else held valid by construction:
//!
//! * light    = `ExtendedHeader::validate()` on a header whose hashes all match and whose
//!              commit entries are enumerated (the base header with all-valid entries is
//!              self-checked, so a rejection can only come from the commit verification);
//! * trusting = `trusted.verify(&untrusted)` for a non-adjacent pair with the right chain id
//!              and times, where the untrusted commit entries are enumerated.
//!
//! The oracle knows by construction which entries carry a signature made with the right
//! key over the canonical precommit for this block, and compares with exact rational
//! arithmetic (3p > 2T, 3p > T) — no integer division, no early exit.
#[path = "../shared/chain.rs"]
mod chain;

use chain::*;
use lv_core::*;
use serde_json::json;
use tendermint::block::CommitSig;

const MAX_TOTAL: u64 = (i64::MAX / 8) as u64;

fn forged(sig: &CommitSig) -> CommitSig {
    match sig.clone() {
        CommitSig::BlockIdFlagCommit {
            validator_address,
            timestamp,
            signature: Some(s),
        } => {
            let mut b = s.into_bytes();
            b[5] ^= 0x10;
            CommitSig::BlockIdFlagCommit {
                validator_address,
                timestamp,
                signature: Some(tendermint::Signature::new(b).unwrap().unwrap()),
            }
        }
        other => other,
    }
}

/// Power vectors explored for a set of `n` validators.
fn power_vectors(n: usize, all_123_upto: usize, thorough: bool) -> Vec<Vec<u64>> {
    let mut out: Vec<Vec<u64>> = vec![];
    if n <= all_123_upto {
        let mut v = vec![1u64; n];
        loop {
            out.push(v.clone());
            let mut i = 0;
            loop {
                if i == n {
                    break;
                }
                if v[i] < 3 {
                    v[i] += 1;
                    break;
                }
                v[i] = 1;
                i += 1;
            }
            if i == n {
                break;
            }
        }
    } else {
        out.push(vec![1; n]);
    }
    out.push((1..=n as u64).collect()); // ramp
    out.push(vec![100; n]); // total 100 n
    // 199,1,1,99 pattern: subsets hit floor(2T/3)-1, floor(2T/3), floor(2T/3)+1 for T=300
    if n >= 4 {
        let mut v = vec![199, 1, 1];
        v.push(99 - (n as u64 - 4));
        v.extend(std::iter::repeat_n(1, n - 4));
        out.push(v);
    }
    // 99,1,1,199: the same for the one-third boundary
    if n >= 3 {
        let mut v = vec![99, 1, 1];
        if n >= 4 {
            v.push(199 - (n as u64 - 4));
            v.extend(std::iter::repeat_n(1, n - 4));
        }
        out.push(v);
    }
    // the largest total tendermint admits
    {
        let mut v = vec![1u64; n];
        v[0] = MAX_TOTAL - (n as u64 - 1);
        out.push(v);
        if thorough && n >= 2 {
            let mut v = vec![MAX_TOTAL / n as u64; n];
            v[0] += MAX_TOTAL - v.iter().sum::<u64>();
            out.push(v);
        }
    }
    out.sort();
    out.dedup();
    out
}

fn plan_for(powers: &[u64], heights: usize) -> ChainPlan {
    let set: Vec<(u32, u64)> = powers.iter().enumerate().map(|(i, p)| (i as u32, *p)).collect();
    ChainPlan {
        chain_id: "lv-c03".into(),
        app: 3,
        salt: 3,
        sets: vec![set; heights + 1],
        votes: vec![],
        dah: vec![],
        block_secs: 12,
    }
}

// ---------------------------------------------------------------------------------------
// light

// entry kinds of the light part: 0 = V, 1 = F, 2 = O, 3 = N, 4 = A, 5 = S

struct LightBase {
    b: Built,
    /// per slot: the six entry variants
    variants: Vec<[CommitSig; 6]>,
    /// power per slot
    slot_power: Vec<u64>,
}

fn light_base(keys: &Keys, powers: &[u64]) -> LightBase {
    let chain = build_chain("C03", keys, &plan_for(powers, 1));
    let b = chain.into_iter().next().unwrap();
    let n = powers.len();
    let mut variants = vec![];
    let mut slot_power = vec![];
    for (idx, id) in b.order.iter().enumerate() {
        let me = keys.get(*id);
        let other = if n > 1 { keys.get(b.order[(idx + 1) % n]) } else { keys.get(100) };
        let v = commit_entry(&b.eh, &me, idx, VoteKind::Commit);
        // S: the validator's own address and timestamp, but a (genuine) signature of the
        // other validator's key over the very same canonical vote
        let usurper = Val { id: me.id, sk: other.sk.clone(), pk: me.pk, addr: me.addr };
        variants.push([
            v.clone(),
            forged(&v),
            commit_entry(&b.eh, &other, idx, VoteKind::Commit),
            commit_entry(&b.eh, &me, idx, VoteKind::Nil),
            CommitSig::BlockIdFlagAbsent,
            commit_entry(&b.eh, &usurper, idx, VoteKind::Commit),
        ]);
        slot_power.push(b.power_of(*id).unwrap());
    }
    LightBase { b, variants, slot_power }
}

/// `shape`: 0 = one entry per validator; 1 = last entry dropped; 2 = last entry duplicated;
/// 3 = commit height + 1 (signatures unchanged).
fn eval_light(base: &LightBase, powers: &[u64], digits: &[u8], shape: u8, seed: u64, rep: &mut Report) {
    let n = digits.len();
    let mut eh = base.b.eh.clone();
    eh.commit.signatures = digits
        .iter()
        .enumerate()
        .map(|(i, d)| base.variants[i][*d as usize].clone())
        .collect();
    match shape {
        1 => {
            eh.commit.signatures.pop();
        }
        2 => {
            let l = eh.commit.signatures.last().cloned().unwrap();
            eh.commit.signatures.push(l);
        }
        3 => eh.commit.height = eh.commit.height.increment(),
        _ => {}
    }
    let total: u128 = base.slot_power.iter().map(|p| *p as u128).sum();
    // a signature made for height h is not a signature for the commit of height h+1
    let counted = if shape == 3 { 0 } else { n - usize::from(shape == 1) };
    let valid: u128 = (0..counted)
        .filter(|i| digits[*i] == 0)
        .map(|i| base.slot_power[i] as u128)
        .sum();
    let enough = 3 * valid > 2 * total;
    let clean = shape == 0 && digits.iter().all(|d| matches!(d, 0 | 3 | 4));
    let needed = (2 * total) / 3;
    let boundary = valid == needed || valid == needed + 1 || valid + 1 == needed;

    let key = fnv64(format!("L/{powers:?}/{digits:?}/{shape}").as_bytes());
    let case = json!({"part": "light", "powers": powers, "digits": digits, "shape": shape, "seed": seed});
    let got = guard(|| eh.validate());
    let class = match &got {
        Err(_) => "light:panic".to_string(),
        Ok(Ok(())) if clean && valid == needed + 1 => "light:accept@min".to_string(),
        Ok(Ok(())) => "light:accept".to_string(),
        Ok(Err(e)) => {
            let k = err_class(e);
            if clean && valid == needed && k == "not-enough-power" {
                "light:reject@max".to_string()
            } else {
                format!("light:reject:{k}")
            }
        }
    };
    rep.case(key, &class, boundary);
    if rep.wants_sample() && boundary && n >= 3 {
        rep.sample(|| json!({"case": case, "valid_power": valid.to_string(), "total": total.to_string(), "result": class}));
    }
    match got {
        Err(p) => rep.violation("light-panic", format!("validate() panicked: {p}"), case),
        Ok(Ok(())) => {
            if !enough {
                rep.violation(
                    "light-accepted-without-two-thirds",
                    format!("accepted although validly signing power {valid} is not > 2/3 of {total}"),
                    case,
                );
            }
        }
        Ok(Err(e)) => {
            if clean && enough {
                rep.violation(
                    "light-rejected-with-two-thirds",
                    format!("rejected ({e}) although every block-commit signature is valid and signing power {valid} > 2/3 of {total}"),
                    case,
                );
            }
        }
    }
}

fn run_light(keys: &Keys, powers: &[u64], syms: &[u8], part: u64, parts: u64, rep: &mut Report) {
    let n = powers.len();
    let base = light_base(keys, powers);
    let k = syms.len();
    let count = (k as u64).pow(n as u32);
    let mut digits = vec![0u8; n];
    for c in (0..count).filter(|c| c % parts == part) {
        let mut x = c;
        for d in digits.iter_mut() {
            *d = syms[(x % k as u64) as usize];
            x /= k as u64;
        }
        eval_light(&base, powers, &digits, 0, keys.seed, rep);
        // structural shapes on the assignments without forged entries
        if digits.iter().all(|d| matches!(d, 0 | 4)) {
            for shape in 1..=3u8 {
                eval_light(&base, powers, &digits, shape, keys.seed, rep);
            }
        }
    }
}

// ---------------------------------------------------------------------------------------
// trusting

/// Symbols of the untrusted commit: 3*v+0 = valid commit of trusted validator v,
/// 3*v+1 = forged commit carrying v's address, 3*v+2 = honest nil vote of v,
/// 3*nt = valid commit of a stranger, 3*nt+1 = absent.
struct TrustBase {
    trusted: Built,
    untrusted: Built,
    entries: Vec<CommitSig>,
    /// power of trusted validator v (v = validator id)
    vpower: Vec<u64>,
}

fn trust_base(keys: &Keys, powers: &[u64]) -> TrustBase {
    let chain = build_chain("C03", keys, &plan_for(powers, 3));
    let trusted = chain[0].clone();
    let untrusted = chain[2].clone();
    let nt = powers.len();
    let mut entries = vec![];
    for v in 0..nt as u32 {
        let me = keys.get(v);
        let c = commit_entry(&untrusted.eh, &me, 0, VoteKind::Commit);
        entries.push(c.clone());
        entries.push(forged(&c));
        entries.push(commit_entry(&untrusted.eh, &me, 0, VoteKind::Nil));
    }
    entries.push(commit_entry(&untrusted.eh, &keys.get(200), 0, VoteKind::Commit));
    entries.push(CommitSig::BlockIdFlagAbsent);
    TrustBase {
        trusted,
        untrusted,
        entries,
        vpower: powers.to_vec(),
    }
}

fn eval_trust(base: &TrustBase, powers: &[u64], seq: &[u8], seed: u64, rep: &mut Report) {
    let nt = powers.len();
    let mut u = base.untrusted.eh.clone();
    u.commit.signatures = seq.iter().map(|s| base.entries[*s as usize].clone()).collect();
    let total: u128 = powers.iter().map(|p| *p as u128).sum();
    // distinct trusted validators with a valid commit signature
    let mut counted = vec![false; nt];
    let mut per_val = vec![0usize; nt];
    let mut dirty = false;
    for s in seq {
        let s = *s as usize;
        if s < 3 * nt {
            per_val[s / 3] += 1;
            match s % 3 {
                0 => counted[s / 3] = true,
                1 => dirty = true,
                _ => {}
            }
        } else {
            dirty = true; // stranger or absent entry: not "one entry per validator"
        }
    }
    let valid: u128 = (0..nt).filter(|v| counted[*v]).map(|v| base.vpower[v] as u128).sum();
    let enough = 3 * valid > total;
    let clean = !dirty && per_val.iter().all(|c| *c == 1);
    let needed = total / 3;
    let boundary = valid == needed || valid == needed + 1 || valid + 1 == needed;
    let dup = per_val.iter().any(|c| *c > 1);

    let key = fnv64(format!("T/{powers:?}/{seq:?}").as_bytes());
    let case = json!({"part": "trusting", "powers": powers, "seq": seq, "seed": seed});
    let got = guard(|| base.trusted.eh.verify(&u));
    let class = match &got {
        Err(_) => "trust:panic".to_string(),
        Ok(Ok(())) if clean && valid == needed + 1 => "trust:accept@min".to_string(),
        Ok(Ok(())) if dup => "trust:accept:with-duplicate".to_string(),
        Ok(Ok(())) => "trust:accept".to_string(),
        Ok(Err(e)) => {
            let k = err_class(e);
            if clean && valid == needed && k == "not-enough-power" {
                "trust:reject@max".to_string()
            } else {
                format!("trust:reject:{k}")
            }
        }
    };
    rep.case(key, &class, boundary || dup);
    if rep.wants_sample() && dup && boundary {
        rep.sample(|| json!({"case": case, "distinct_valid_trusted_power": valid.to_string(), "total": total.to_string(), "result": class}));
    }
    match got {
        Err(p) => rep.violation("trusting-panic", format!("verify() panicked: {p}"), case),
        Ok(Ok(())) => {
            if !enough {
                let k = if dup { "trusting-counted-validator-twice-or-unsigned" } else { "trusting-accepted-without-one-third" };
                rep.violation(
                    k,
                    format!("accepted although distinct trusted validators with valid signatures hold {valid}, not > 1/3 of {total}"),
                    case,
                );
            }
        }
        Ok(Err(e)) => {
            if clean && enough {
                rep.violation(
                    "trusting-rejected-with-one-third",
                    format!("rejected ({e}) although one valid entry per trusted validator and signing power {valid} > 1/3 of {total}"),
                    case,
                );
            }
        }
    }
}

fn run_trust(keys: &Keys, powers: &[u64], max_len: usize, part: u64, parts: u64, rep: &mut Report) {
    let base = trust_base(keys, powers);
    let a = base.entries.len() as u64;
    for m in 0..=max_len {
        let count = a.pow(m as u32);
        let mut seq = vec![0u8; m];
        for c in (0..count).filter(|c| c % parts == part) {
            let mut x = c;
            for d in seq.iter_mut() {
                *d = (x % a) as u8;
                x /= a;
            }
            eval_trust(&base, powers, &seq, keys.seed, rep);
        }
    }
}

// ---------------------------------------------------------------------------------------

enum Job {
    Light(Vec<u64>, Vec<u8>),
    Trust(Vec<u64>, usize),
}

fn main() {
    let ctx = Ctx::from_args("C03");
    let thorough = !ctx.quick();
    let rep = if let Some(c) = ctx.replay_case() {
        let seed = c["seed"].as_u64().unwrap_or(ctx.seed);
        let keys = Keys::new(seed, 16);
        let powers: Vec<u64> = serde_json::from_value(c["powers"].clone()).unwrap();
        let mut rep = Report::new();
        if c["part"] == "light" {
            let digits: Vec<u8> = serde_json::from_value(c["digits"].clone()).unwrap();
            let shape = c["shape"].as_u64().unwrap_or(0) as u8;
            eval_light(&light_base(&keys, &powers), &powers, &digits, shape, seed, &mut rep);
        } else {
            let seq: Vec<u8> = serde_json::from_value(c["seq"].clone()).unwrap();
            eval_trust(&trust_base(&keys, &powers), &powers, &seq, seed, &mut rep);
        }
        rep
    } else {
        let keys = Keys::new(ctx.seed, 16);
        let mut jobs: Vec<Job> = vec![];
        let (lmax, l123) = if thorough { (8, 5) } else { (6, 4) };
        for n in 1..=lmax {
            for pv in power_vectors(n, l123, thorough) {
                // the largest n of each tier without the O kind (which the address check refuses
                // before any signature is looked at), all six kinds below
                let syms = if n == lmax { vec![0, 1, 5, 3, 4] } else { vec![0, 1, 2, 3, 4, 5] };
                jobs.push(Job::Light(pv, syms));
            }
        }
        if thorough {
            // 9..10 validators: every subset of signers, the others uniformly one other kind
            for n in 9..=10 {
                for pv in power_vectors(n, 0, true) {
                    for other in 1..=5u8 {
                        jobs.push(Job::Light(pv.clone(), vec![0, other]));
                    }
                }
            }
        }
        let (tmax, t123) = if thorough { (4, 3) } else { (3, 3) };
        for nt in 1..=tmax {
            for pv in power_vectors(nt, t123, thorough) {
                jobs.push(Job::Trust(pv, nt + 1));
            }
        }
        if thorough {
            // 5 trusted validators, commits of up to 5 entries
            for pv in power_vectors(5, 0, true) {
                jobs.push(Job::Trust(pv, 5));
            }
        } else {
            // 4 trusted validators, commits of up to 3 entries
            for pv in power_vectors(4, 0, false) {
                jobs.push(Job::Trust(pv, 3));
            }
        }
        let all_jobs = jobs;
        let jobs = &all_jobs;
        // split every job into 16 residue classes of the enumeration index (load balance)
        const PARTS: u64 = 16;
        let jobs: Vec<(usize, u64)> = (0..jobs.len()).flat_map(|j| (0..PARTS).map(move |p| (j, p))).collect();
        let all = &all_jobs;
        par_cases(jobs, |(j, part), rep| match &all[j] {
            Job::Light(pv, syms) => run_light(&keys, pv, syms, part, PARTS, rep),
            Job::Trust(pv, m) => run_trust(&keys, pv, *m, part, PARTS, rep),
        })
    };
    finish(
        &ctx,
        rep,
        Spec {
            rule: "LIGHT (through ExtendedHeader::validate, everything but the commit entries valid): n validators (quick 1..6, thorough 1..8) x power vectors {all of {1,2,3}^n for n<=4 (thorough 5), ramp 1..n, 100 each, 199/1/1/99.., 99/1/1/199.., one validator holding MAX_TOTAL-(n-1)} x every assignment of {V valid commit, F forged commit, O entry of another validator (its address, its valid signature), S own address but signature by another validator's key, N honest nil vote, A absent} to the n entries (6^n; the largest n of the tier without O: 5^n), plus for assignments over {V,A}: last entry dropped / duplicated / commit height+1; thorough adds n=9..10 with every signer subset and the non-signers uniformly F, O, N, A or S. TRUSTING (through trusted.verify(untrusted), non-adjacent, chain id and times right): nt trusted validators (quick 1..3 and 4, thorough 1..4 and 5) x power vectors x every sequence of length 0..=nt+1 (quick nt=4: 0..=3; nt=5: 0..=5) over {valid / forged / nil entry of each trusted validator, valid entry of a stranger, absent} — includes every double listing in both orders. distinct = (part, powers, assignment); non-trivial = signing power within one unit of the threshold, or a duplicated validator",
            assumptions: &[
                "verify_commit_light / verify_commit_light_trusting are private; they are observed through validate() / verify(), whose other checks are satisfied by construction (self-checked base header)",
                "VERIF_SEED selects key material and hash payloads only",
                "header times lie in 2024, years away from the 10 s clock-drift edge",
                "exactness (accept <=> power above threshold) is demanded only for commits with one honestly addressed entry per validator and no forged block-commit signature; for every other commit only the safety direction (accept => enough validly signing power) is demanded",
            ],
            required_classes: &[
                "light:accept",
                "light:accept@min",
                "light:reject@max",
                "light:reject*",
                "trust:accept",
                "trust:accept@min",
                "trust:reject@max",
                "trust:reject*",
                "trust:accept:with-duplicate",
            ],
            exhaustive: true,
        },
    );
}
