//! C13 — Merkle, row and share proofs are position-binding and sound.   (engine E1)
//!
//! Three enumerated parts, each against an oracle that shares no code with /repo:
//!
//! * `merkle`: leaf lists of 1..=N leaves, every index; the honest RFC-6962 audit path (built
//!   by the oracle, and compared with the repo's prover) and every mutation of leaf, index,
//!   total, aunts, leaf hash and root listed in `merkle_cases`.  Oracle: the RFC-6962
//!   recomputation `root_from_path` (None when index >= total or the aunt count does not fit).
//! * `row`: for squares of ODS width k, every row range a..=b; honest proofs from the repo's
//!   prover and from the oracle; mutations of every root, every inner node, the span, the
//!   counts.  Oracle: count/span rule of the statement + RFC-6962 recomputation per root.
//! * `share`: for the same squares every contiguous share range inside every namespace; the
//!   proof is built by the oracle-side NMT prover (the repo has no ShareProof prover) and
//!   cross-checked against nmt-rs' sibling list; mutations of shares, namespace, NMT
//!   siblings, ranges, row roots, row-proof nodes and counts.  Oracle: the statement's
//!   "must fail" list, plus ground truth (accepted => the claimed shares are the cells of
//!   the square at the claimed positions under a root of the DAH).
#[path = "../shared/proofs.rs"]
mod proofs;

use celestia_proto::celestia::core::v1::proof::{
    Proof as RawMerkleProof, RowProof as RawRowProof, ShareProof as RawShareProof,
};
use celestia_types::hash::Hash;
use celestia_types::nmt::NamespacedHashExt;
use celestia_types::{MerkleProof, RowProof, ShareProof};
use lv_core::oracle::{self, H32, NS};
use lv_core::*;
use proofs::*;
use rayon::prelude::*;
use serde_json::{Value, json};
use std::collections::BTreeSet;
use std::sync::Arc;

fn hx(b: &[u8]) -> String {
    hex::encode(b)
}
fn unhx(v: &Value) -> Vec<u8> {
    hex::decode(v.as_str().expect("hex string")).expect("hex")
}
fn flip(h: &H32, byte: usize, bit: u8) -> H32 {
    let mut x = *h;
    x[byte] ^= 1 << bit;
    x
}

// =====================================================================================
// part 1: MerkleProof

/// Largest power of two strictly below n (n >= 2), without overflow for n > 2^63.
fn split(n: usize) -> usize {
    let mut k = 1usize;
    while k <= (n - 1) / 2 {
        k *= 2;
    }
    k
}

/// RFC-6962 recomputation of the root from (leaf, index, total, aunts); `None` when
/// index >= total, total == 0 or the number of aunts does not fit.  (Same definition as
/// `lv_core::oracle::root_from_path`, safe for totals up to usize::MAX.)
fn root_from_path(leaf: &[u8], index: usize, total: usize, aunts: &[H32]) -> Option<H32> {
    fn go(lh: H32, index: usize, total: usize, aunts: &[H32]) -> Option<H32> {
        if total == 0 || index >= total {
            return None;
        }
        if total == 1 {
            return if aunts.is_empty() { Some(lh) } else { None };
        }
        let (last, rest) = aunts.split_last()?;
        let k = split(total);
        if index < k {
            Some(oracle::inner_hash(&go(lh, index, k, rest)?, last))
        } else {
            Some(oracle::inner_hash(last, &go(lh, index - k, total - k, rest)?))
        }
    }
    go(oracle::leaf_hash(leaf), index, total, aunts)
}

#[derive(Clone)]
struct M {
    leaf: Vec<u8>,
    index: usize,
    total: usize,
    leaf_hash: H32,
    aunts: Vec<H32>,
    root: H32,
}

fn m_json(m: &M, family: &str, honest: bool) -> Value {
    json!({"part": "merkle", "family": family, "honest": honest, "leaf": hx(&m.leaf), "index": m.index as u64,
           "total": m.total as u64, "leaf_hash": hx(&m.leaf_hash), "aunts": m.aunts.iter().map(|a| hx(a)).collect::<Vec<_>>(),
           "root": hx(&m.root)})
}
fn m_from_json(c: &Value) -> (M, String, bool) {
    (
        M {
            leaf: unhx(&c["leaf"]),
            index: c["index"].as_u64().unwrap() as usize,
            total: c["total"].as_u64().unwrap() as usize,
            leaf_hash: h32(&unhx(&c["leaf_hash"])),
            aunts: c["aunts"].as_array().unwrap().iter().map(|a| h32(&unhx(a))).collect(),
            root: h32(&unhx(&c["root"])),
        },
        c["family"].as_str().unwrap().to_string(),
        c["honest"].as_bool().unwrap(),
    )
}

/// One evaluation of the real `MerkleProof::verify`.
fn eval_m(m: &M, family: &str, honest: bool, key: u64, rep: &mut Report) {
    let valid = oracle::leaf_hash(&m.leaf) == m.leaf_hash
        && root_from_path(&m.leaf, m.index, m.total, &m.aunts) == Some(m.root);
    if honest && !valid {
        machinery_error("C13", &format!("oracle rejects its own honest merkle proof: {}", m_json(m, family, honest)));
    }
    let proof = MerkleProof { index: m.index, total: m.total, leaf_hash: m.leaf_hash, aunts: m.aunts.clone() };
    let got = guard(|| proof.verify(&m.leaf, m.root));
    // non-trivial: the verdict depends on the (index, total, aunts) recomputation, i.e. the
    // cheap leaf-hash comparison passes and the case is not the honest proof itself
    let nontrivial = !honest && oracle::leaf_hash(&m.leaf) == m.leaf_hash;
    let class = match &got {
        Err(p) => {
            rep.extra(&format!("panic_message:merkle:{family}"), json!(p));
            format!("merkle:panic:{family}")
        }
        Ok(Ok(())) if honest => "merkle:accept:honest".to_string(),
        Ok(Ok(())) if valid => format!("merkle:accept:still-valid-by-recomputation:{family}"),
        Ok(Ok(())) => format!("merkle:accept:INVALID:{family}"),
        Ok(Err(_)) => format!("merkle:reject:{family}"),
    };
    rep.case(key, &class, nontrivial);
    if rep.wants_sample() && (key % 1009 == 7 || honest && key % 53 == 1) {
        let c = m_json(m, family, honest);
        rep.sample(|| json!({"case": c, "result": class, "oracle_valid": valid}));
    }
    match got {
        Ok(Ok(())) if !valid => {
            let k = if m.index >= m.total {
                "merkle-accepted-index-not-below-total".to_string()
            } else {
                format!("merkle-accepted-invalid-proof:{family}")
            };
            rep.violation(
                &k,
                format!(
                    "MerkleProof::verify accepted index={} total={} ({} aunts, family {family}) although the RFC-6962 recomputation does not give the root",
                    m.index,
                    m.total,
                    m.aunts.len()
                ),
                m_json(m, family, honest),
            );
        }
        Ok(Err(e)) if honest => rep.violation(
            "honest-merkle-proof-rejected",
            format!("honest proof index={} total={} rejected: {e}", m.index, m.total),
            m_json(m, family, honest),
        ),
        // values a decoded proof can carry (RawMerkleProof has i64 fields, total >= 1)
        Err(p) if m.total >= 1 && m.total <= i64::MAX as usize && m.index <= i64::MAX as usize => rep.violation(
            "merkle-proof-verify-panics",
            format!("MerkleProof::verify panicked instead of returning an error (index={} total={}, family {family}): {p}", m.index, m.total),
            m_json(m, family, honest),
        ),
        _ => {}
    }
}

struct Tree {
    n: usize,
    leaves: Vec<Vec<u8>>,
    root: H32,
    paths: Vec<Vec<H32>>,
}

fn tree(n: usize, seed: u64) -> Tree {
    let mut f = Fill::new(seed, 0xC13_1000 + n as u64);
    let leaves: Vec<Vec<u8>> = (0..n).map(|j| f.bytes(8 + j % 5)).collect();
    let root = oracle::merkle_root(&leaves);
    let paths = (0..n).map(|i| oracle::merkle_path(&leaves, i)).collect();
    Tree { n, leaves, root, paths }
}

fn np2(n: usize) -> usize {
    n.max(1).next_power_of_two()
}

/// Candidate values for a mutated index / total around (n, i).
fn value_set(n: usize, i: usize, full: bool, lowest: usize) -> BTreeSet<usize> {
    let mut s = BTreeSet::new();
    let p = np2(n);
    if full {
        s.extend(lowest..=2 * p + 2);
    } else {
        s.extend(lowest..=4);
        s.extend(n.saturating_sub(3)..=n + 2);
        s.extend(i.saturating_sub(2)..=i + 2);
        for k in 0..=10usize {
            s.insert(i + (1 << k));
            s.insert(n + (1 << k));
            s.insert((n - 1) + (1 << k));
            s.insert(1 << k);
            if i >= 1 << k {
                s.insert(i - (1 << k));
            }
        }
        s.extend([p, p + i, p / 2, p / 2 + i, 2 * p, 2 * p + i]);
    }
    s.extend([1usize << 32, i64::MAX as usize, (i64::MAX as usize) + 1, usize::MAX]);
    s.retain(|v| *v >= lowest);
    s
}

/// All merkle cases of one (tree, index).
fn merkle_cases(t: &Tree, i: usize, full: bool, cross: bool, rep: &mut Report) {
    let n = t.n;
    let honest = M {
        leaf: t.leaves[i].clone(),
        index: i,
        total: n,
        leaf_hash: oracle::leaf_hash(&t.leaves[i]),
        aunts: t.paths[i].clone(),
        root: t.root,
    };
    let key = |fam: &str, a: usize, b: usize| fnv64(format!("m/{n}/{i}/{fam}/{a}/{b}").as_bytes());
    eval_m(&honest, "honest", true, key("honest", 0, 0), rep);

    // the repo's prover must produce the RFC-6962 path and root
    {
        let got = guard(|| MerkleProof::new(i, &t.leaves[..]));
        let ok = match &got {
            Ok(Ok((p, root))) => {
                *root == t.root && p.index == i && p.total == n && p.leaf_hash == honest.leaf_hash && p.aunts == honest.aunts
            }
            _ => false,
        };
        rep.case(key("prover", 0, 0), if ok { "merkle:prover-agrees" } else { "merkle:prover-DIFFERS" }, false);
        if !ok {
            rep.violation(
                "merkle-prover-differs-from-rfc6962",
                format!("MerkleProof::new({i}, {n} leaves) is not the RFC-6962 audit path / root: {got:?}"),
                json!({"part": "merkle-prover", "n": n, "i": i}),
            );
        }
    }

    let others: Vec<usize> = if full {
        (0..n).filter(|j| *j != i).collect()
    } else {
        value_set(n, i, false, 0).into_iter().filter(|j| *j < n && *j != i).collect()
    };
    for &j in &others {
        // proof of i presented for leaf j
        let mut m = honest.clone();
        m.leaf = t.leaves[j].clone();
        eval_m(&m, "leaf-other", false, key("leaf-other", j, 0), rep);
        // ... with the leaf hash field adjusted so that only the path can refuse it
        m.leaf_hash = oracle::leaf_hash(&t.leaves[j]);
        eval_m(&m, "leaf-other+hash", false, key("leaf-other+hash", j, 0), rep);
        // leaf i with the aunts of j
        let mut m = honest.clone();
        m.aunts = t.paths[j].clone();
        eval_m(&m, "aunts-of-other-index", false, key("aunts-of-other-index", j, 0), rep);
    }
    {
        let mut m = honest.clone();
        m.leaf[0] ^= 1;
        eval_m(&m, "leaf-bitflip", false, key("leaf-bitflip", 0, 0), rep);
        m.leaf_hash = oracle::leaf_hash(&m.leaf);
        eval_m(&m, "leaf-bitflip+hash", false, key("leaf-bitflip+hash", 0, 0), rep);
        let mut m = honest.clone();
        m.leaf.pop();
        eval_m(&m, "leaf-truncated", false, key("leaf-truncated", 0, 0), rep);
        let mut m = honest.clone();
        m.leaf_hash = flip(&m.leaf_hash, 0, 0);
        eval_m(&m, "leafhash-flip", false, key("leafhash-flip", 0, 0), rep);
        // the inner-node hash of the leaf bytes instead of the leaf hash (domain separation)
        let mut m = honest.clone();
        m.leaf_hash = oracle::sha256(&[&[1u8], &m.leaf]);
        eval_m(&m, "leafhash-inner-prefix", false, key("leafhash-inner-prefix", 0, 0), rep);
    }
    for v in value_set(n, i, full, 0) {
        if v != i {
            let mut m = honest.clone();
            m.index = v;
            eval_m(&m, "index", false, key("index", v, 0), rep);
        }
    }
    for v in value_set(n, i, full, 0) {
        if v != n {
            let mut m = honest.clone();
            m.total = v;
            eval_m(&m, "total", false, key("total", v, 0), rep);
        }
    }
    if cross {
        for iv in 0..=n + 2 {
            for tv in 1..=n + 2 {
                if iv != i && tv != n {
                    let mut m = honest.clone();
                    m.index = iv;
                    m.total = tv;
                    eval_m(&m, "index+total", false, key("index+total", iv, tv), rep);
                }
            }
        }
    }
    let na = honest.aunts.len();
    for a in 0..na {
        for (byte, bit) in [(0usize, 0u8), (31, 7)] {
            let mut m = honest.clone();
            m.aunts[a] = flip(&m.aunts[a], byte, bit);
            eval_m(&m, "aunt-flip", false, key("aunt-flip", a, byte), rep);
        }
        let mut m = honest.clone();
        m.aunts.remove(a);
        eval_m(&m, "aunt-removed", false, key("aunt-removed", a, 0), rep);
        let mut m = honest.clone();
        let d = m.aunts[a];
        m.aunts.insert(a, d);
        eval_m(&m, "aunt-duplicated", false, key("aunt-duplicated", a, 0), rep);
        if a + 1 < na {
            let mut m = honest.clone();
            m.aunts.swap(a, a + 1);
            eval_m(&m, "aunt-pair-swapped", false, key("aunt-pair-swapped", a, 0), rep);
        }
    }
    {
        let mut m = honest.clone();
        m.aunts.push([0; 32]);
        eval_m(&m, "aunt-extra", false, key("aunt-extra", 0, 0), rep);
        let mut m = honest.clone();
        m.aunts.insert(0, [0; 32]);
        eval_m(&m, "aunt-extra", false, key("aunt-extra", 1, 0), rep);
        let mut m = honest.clone();
        m.aunts.push(t.root);
        eval_m(&m, "aunt-extra", false, key("aunt-extra", 2, 0), rep);
        if na >= 2 {
            let mut m = honest.clone();
            m.aunts.reverse();
            eval_m(&m, "aunts-reversed", false, key("aunts-reversed", 0, 0), rep);
        }
        if na >= 1 {
            let mut m = honest.clone();
            m.aunts.clear();
            eval_m(&m, "aunts-empty", false, key("aunts-empty", 0, 0), rep);
        }
        let mut m = honest.clone();
        m.root = flip(&m.root, 5, 3);
        eval_m(&m, "root-flip", false, key("root-flip", 0, 0), rep);
        // root of the tree without its last leaf / of the leaf hash alone
        let mut m = honest.clone();
        m.root = oracle::merkle_root(&t.leaves[..n - 1]);
        eval_m(&m, "root-of-shorter-tree", false, key("root-of-shorter-tree", 0, 0), rep);
    }
}

// =====================================================================================
// part 2: RowProof

fn rawm_ok(p: &RawMerkleProof, leaf: &[u8], root: &H32) -> bool {
    if p.total <= 0 || p.index < 0 || p.leaf_hash.len() != 32 || p.aunts.iter().any(|a| a.len() != 32) {
        return false;
    }
    let aunts: Vec<H32> = p.aunts.iter().map(|a| h32(a)).collect();
    oracle::leaf_hash(leaf)[..] == p.leaf_hash[..]
        && root_from_path(leaf, p.index as usize, p.total as usize, &aunts) == Some(*root)
}

/// Oracle for a row proof: the statement's count/span rule and RFC-6962 recomputation.
fn row_oracle(raw: &RawRowProof, root: &Option<H32>) -> bool {
    let Some(root) = root else { return false };
    if raw.start_row > u16::MAX as u32 || raw.end_row > u16::MAX as u32 || raw.end_row < raw.start_row {
        return false;
    }
    let span = (raw.end_row - raw.start_row + 1) as usize;
    if raw.row_roots.len() != span || raw.proofs.len() != span {
        return false;
    }
    raw.row_roots.iter().zip(&raw.proofs).all(|(r, p)| r.len() == 90 && rawm_ok(p, r, root))
}

fn row_json(raw: &RawRowProof, root: &Option<H32>, family: &str, must_reject: bool, honest: bool) -> Value {
    json!({"part": "row", "family": family, "must_reject": must_reject, "honest": honest,
           "root": root.map(|r| hx(&r)), "raw": serde_json::to_value(raw).unwrap()})
}

fn eval_row(raw: &RawRowProof, root: &Option<H32>, family: &str, must_reject: bool, honest: bool, key: u64, rep: &mut Report) {
    let valid = row_oracle(raw, root);
    if honest && !valid {
        machinery_error("C13", &format!("oracle rejects its own honest row proof {}", row_json(raw, root, family, must_reject, honest)));
    }
    if must_reject && valid {
        // the mutation did not change anything the proof depends on (e.g. a palindromic
        // reversal): not a case of the family
        rep.case(key, &format!("row:noop-mutation:{family}"), false);
        return;
    }
    let hash = match root {
        Some(r) => Hash::Sha256(*r),
        None => Hash::None,
    };
    let decoded = guard(|| RowProof::try_from(raw.clone()));
    let got: Result<Result<(), String>, String> = match decoded {
        Err(p) => Err(p),
        Ok(Err(e)) => Ok(Err(format!("decode: {e}"))),
        Ok(Ok(p)) => guard(|| p.verify(hash)).map(|r| r.map_err(|e| e.to_string())),
    };
    let class = match &got {
        Err(p) => {
            rep.extra(&format!("panic_message:row:{family}"), json!(p));
            format!("row:panic:{family}")
        }
        Ok(Ok(())) if honest => "row:accept:honest".to_string(),
        Ok(Ok(())) if valid => format!("row:accept:valid-not-demanded-to-fail:{family}"),
        Ok(Ok(())) => format!("row:accept:INVALID:{family}"),
        Ok(Err(e)) if e.starts_with("decode") => format!("row:reject-at-decode:{family}"),
        Ok(Err(_)) => format!("row:reject:{family}"),
    };
    rep.case(key, &class, !honest);
    if rep.wants_sample() && key % 211 == 3 {
        rep.sample(|| json!({"part": "row", "family": family, "start_row": raw.start_row, "end_row": raw.end_row,
                             "roots": raw.row_roots.len(), "proofs": raw.proofs.len(), "result": class, "oracle_valid": valid}));
    }
    match got {
        Ok(Ok(())) if !valid => rep.violation(
            &format!("row-proof-accepted-invalid:{family}"),
            format!(
                "RowProof::verify accepted rows {}..={} with {} roots / {} proofs (family {family}) although the oracle refuses it",
                raw.start_row,
                raw.end_row,
                raw.row_roots.len(),
                raw.proofs.len()
            ),
            row_json(raw, root, family, must_reject, honest),
        ),
        Ok(Err(e)) if honest => rep.violation(
            "honest-row-proof-rejected",
            format!("honest row proof {}..={} rejected: {e}", raw.start_row, raw.end_row),
            row_json(raw, root, family, must_reject, honest),
        ),
        Err(p) => rep.violation(
            "row-proof-verify-panics",
            format!("RowProof::verify panicked instead of returning an error (rows {}..={}, family {family}): {p}", raw.start_row, raw.end_row),
            row_json(raw, root, family, must_reject, honest),
        ),
        _ => {}
    }
}

fn flip_vec(v: &mut [u8], byte: usize, bit: u8) {
    v[byte] ^= 1 << bit;
}

fn row_cases(sq: &Square, a: usize, b: usize, rep: &mut Report) {
    let w = sq.w();
    let k = sq.k;
    let root = Some(sq.data_root);
    let honest = raw_row_proof(&sq.dah_leaves, a, b);
    let key = |fam: &str, x: usize, y: usize| fnv64(format!("r/{k}/{a}/{b}/{fam}/{x}/{y}").as_bytes());
    eval_row(&honest, &root, "honest-oracle-built", false, true, key("honest", 0, 0), rep);

    // the repo's prover: same content, and verifies against the repo's DAH hash
    {
        let got = guard(|| sq.dah.row_proof(a as u16..=b as u16));
        match got {
            Ok(Ok(p)) => {
                let same = RawRowProof::from(p.clone()) == honest;
                let dh = sq.dah.hash();
                let v = guard(|| p.verify(dh));
                let hash_ok = dh == Hash::Sha256(sq.data_root);
                let ok = same && hash_ok && matches!(v, Ok(Ok(())));
                rep.case(key("prover", 0, 0), if ok { "row:accept:honest" } else { "row:prover-FAILS" }, false);
                if !ok {
                    rep.violation(
                        "honest-row-proof-rejected",
                        format!("dah.row_proof({a}..={b}) of width {w}: same-as-oracle={same} dah-hash-is-rfc6962-root={hash_ok} verify={v:?}"),
                        json!({"part": "row-prover", "k": k, "a": a, "b": b}),
                    );
                }
            }
            other => {
                rep.case(key("prover", 0, 0), "row:prover-FAILS", false);
                rep.violation(
                    "honest-row-proof-rejected",
                    format!("dah.row_proof({a}..={b}) failed: {other:?}"),
                    json!({"part": "row-prover", "k": k, "a": a, "b": b}),
                );
            }
        }
    }

    let len = b - a + 1;
    for i in 0..len {
        // every proven root altered
        for (byte, bit, fam) in [(58usize, 0u8, "root-digest-flip"), (89, 7, "root-digest-flip"), (28, 0, "root-minns-flip"), (57, 0, "root-maxns-flip")] {
            let mut m = honest.clone();
            flip_vec(&mut m.row_roots[i], byte, bit);
            eval_row(&m, &root, fam, true, false, key(fam, i, byte), rep);
        }
        let mut m = honest.clone();
        m.row_roots[i] = sq.dah_leaves[(a + i + 1) % w].clone();
        eval_row(&m, &root, "root-replaced-by-next-row", true, false, key("root-replaced-by-next-row", i, 0), rep);
        let mut m = honest.clone();
        m.row_roots[i] = sq.dah_leaves[w + a + i].clone();
        eval_row(&m, &root, "root-replaced-by-column-root", true, false, key("root-replaced-by-column-root", i, 0), rep);
        let mut m = honest.clone();
        m.row_roots[i].pop();
        eval_row(&m, &root, "root-truncated", true, false, key("root-truncated", i, 0), rep);
        // every inner node altered
        let na = honest.proofs[i].aunts.len();
        for x in 0..na {
            let mut m = honest.clone();
            flip_vec(&mut m.proofs[i].aunts[x], 0, 0);
            eval_row(&m, &root, "inner-node-flip", true, false, key("inner-node-flip", i, x), rep);
            let mut m = honest.clone();
            m.proofs[i].aunts.remove(x);
            eval_row(&m, &root, "inner-node-removed", true, false, key("inner-node-removed", i, x), rep);
            if x + 1 < na {
                let mut m = honest.clone();
                m.proofs[i].aunts.swap(x, x + 1);
                eval_row(&m, &root, "inner-node-pair-swapped", true, false, key("inner-node-pair-swapped", i, x), rep);
            }
        }
        let mut m = honest.clone();
        m.proofs[i].aunts.push(vec![0; 32]);
        eval_row(&m, &root, "inner-node-extra", true, false, key("inner-node-extra", i, 0), rep);
        let mut m = honest.clone();
        flip_vec(&mut m.proofs[i].leaf_hash, 31, 7);
        eval_row(&m, &root, "proof-leafhash-flip", true, false, key("proof-leafhash-flip", i, 0), rep);
        // index / total of an inner proof: decided by the recomputation oracle
        for d in [-1i64, 1, 2 * w as i64, 4 * w as i64, 8 * w as i64] {
            let mut m = honest.clone();
            m.proofs[i].index += d;
            eval_row(&m, &root, "proof-index", false, false, key("proof-index", i, (d + 100) as usize), rep);
            let mut m = honest.clone();
            m.proofs[i].total += d;
            eval_row(&m, &root, "proof-total", false, false, key("proof-total", i, (d + 100) as usize), rep);
        }
        // a consistent (root, proof) pair of a column root: a valid inclusion, not a *row*;
        // the statement does not list it, recorded as an observation only
        let mut m = honest.clone();
        m.row_roots[i] = sq.dah_leaves[w + a + i].clone();
        m.proofs[i] = raw_merkle_proof(&sq.dah_leaves, w + a + i);
        eval_row(&m, &root, "pair-replaced-by-column-pair(observation)", false, false, key("pair-col", i, 0), rep);
    }
    // number of roots / proofs vs the claimed span
    let mut span = |f: &dyn Fn(&mut RawRowProof) -> bool, fam: &str, must: bool, rep: &mut Report| {
        let mut m = honest.clone();
        if f(&mut m) {
            eval_row(&m, &root, fam, must, false, key(fam, 0, 0), rep);
        }
    };
    span(&|m| { m.end_row += 1; true }, "span:end+1", true, rep);
    span(&|m| { m.start_row += 1; true }, "span:start+1", true, rep);
    span(&|m| if m.start_row > 0 { m.start_row -= 1; true } else { false }, "span:start-1", true, rep);
    span(&|m| if m.end_row > 0 { m.end_row -= 1; true } else { false }, "span:end-1", true, rep);
    span(&|m| { m.end_row += 65536; true }, "span:end+65536", true, rep);
    span(&|m| if m.start_row != m.end_row { std::mem::swap(&mut m.start_row, &mut m.end_row); true } else { false }, "span:start-end-swapped", true, rep);
    span(&|m| { m.row_roots.pop(); true }, "count:last-root-dropped", true, rep);
    span(&|m| { m.proofs.pop(); true }, "count:last-proof-dropped", true, rep);
    span(&|m| { m.row_roots.remove(0); true }, "count:first-root-dropped", true, rep);
    span(&|m| { m.row_roots.pop(); m.proofs.pop(); true }, "count:last-pair-dropped", true, rep);
    span(&|m| { let r = m.row_roots.last().unwrap().clone(); m.row_roots.push(r); true }, "count:last-root-duplicated", true, rep);
    span(&|m| { let r = m.proofs.last().unwrap().clone(); m.proofs.push(r); true }, "count:last-proof-duplicated", true, rep);
    span(&|m| { let r = m.row_roots.last().unwrap().clone(); let p = m.proofs.last().unwrap().clone(); m.row_roots.push(r); m.proofs.push(p); true },
         "count:last-pair-duplicated", true, rep);
    span(&|m| { m.row_roots.clear(); m.proofs.clear(); true }, "count:empty", true, rep);
    if b + 1 < w {
        let nr = sq.dah_leaves[b + 1].clone();
        let np = raw_merkle_proof(&sq.dah_leaves, b + 1);
        span(&move |m| { m.row_roots.push(nr.clone()); m.proofs.push(np.clone()); true }, "count:next-row-pair-appended", true, rep);
    }
    span(&|m| if m.row_roots.len() >= 2 { m.row_roots.reverse(); true } else { false }, "roots-reversed", true, rep);
    // not demanded by the statement (the proof's inclusion indices are not tied to the span):
    span(&|m| { m.start_row += 1; m.end_row += 1; true }, "span-shifted+1(observation)", false, rep);
    span(&|m| if m.row_roots.len() >= 2 { m.row_roots.reverse(); m.proofs.reverse(); true } else { false }, "pairs-reversed(observation)", false, rep);
    // against another hash
    let other = Some(flip(&sq.data_root, 0, 0));
    eval_row(&honest, &other, "other-data-root", true, false, key("other-data-root", 0, 0), rep);
    eval_row(&honest, &None, "empty-hash", true, false, key("empty-hash", 0, 0), rep);
}

// =====================================================================================
// part 3: ShareProof

fn share_json(raw: &RawShareProof, root: &H32, k: usize, seed: u64, family: &str, must_reject: bool, honest: bool) -> Value {
    json!({"part": "share", "family": family, "must_reject": must_reject, "honest": honest, "k": k, "seed": seed,
           "root": hx(root), "raw": serde_json::to_value(raw).unwrap()})
}

/// Ground truth: every claim of the proof is a fact about the square (see module doc).
fn share_truth(sq: &Square, raw: &RawShareProof, root: &H32) -> bool {
    let w = sq.w();
    if *root != sq.data_root || raw.namespace_version > 255 || raw.namespace_id.len() != NS - 1 {
        return false;
    }
    let mut ns = [0u8; NS];
    ns[0] = raw.namespace_version as u8;
    ns[1..].copy_from_slice(&raw.namespace_id);
    let Some(rp) = &raw.row_proof else { return false };
    if rp.row_roots.len() != raw.share_proofs.len() || rp.proofs.len() != rp.row_roots.len() || raw.share_proofs.is_empty() {
        return false;
    }
    if rp.end_row < rp.start_row || (rp.end_row - rp.start_row + 1) as usize != rp.row_roots.len() {
        return false;
    }
    let mut data = raw.data.as_slice();
    for ((rr, mp), np) in rp.row_roots.iter().zip(&rp.proofs).zip(&raw.share_proofs) {
        if mp.index < 0 || mp.index as usize >= 2 * w || sq.dah_leaves[mp.index as usize] != *rr {
            return false;
        }
        if !np.leaf_hash.is_empty() || np.start < 0 || np.end <= np.start || np.end as usize > w {
            return false;
        }
        let idx = mp.index as usize;
        let n = (np.end - np.start) as usize;
        if data.len() < n {
            return false;
        }
        for (off, share) in data[..n].iter().enumerate() {
            let pos = np.start as usize + off;
            let (r, c) = if idx < w { (idx, pos) } else { (pos, idx - w) };
            let cell = sq.cell(r, c);
            let push_ns: [u8; NS] = if r < sq.k && c < sq.k { cell[..NS].try_into().unwrap() } else { oracle::PARITY_NS };
            if share != cell || push_ns != ns {
                return false;
            }
        }
        data = &data[n..];
    }
    data.is_empty()
}

fn eval_share(sq: &Square, seed: u64, raw: &RawShareProof, root: &H32, family: &str, must_reject: bool, honest: bool, key: u64, rep: &mut Report) {
    let truth = share_truth(sq, raw, root);
    if honest && !truth {
        machinery_error("C13", &format!("ground truth refuses the honest share proof (k={}, family {family})", sq.k));
    }
    let decoded = guard(|| ShareProof::try_from(raw.clone()));
    let got: Result<Result<(), String>, String> = match decoded {
        Err(p) => Err(p),
        Ok(Err(e)) => Ok(Err(format!("decode: {e}"))),
        Ok(Ok(p)) => guard(|| p.verify(Hash::Sha256(*root))).map(|r| r.map_err(|e| e.to_string())),
    };
    let class = match &got {
        Err(p) => {
            rep.extra(&format!("panic_message:share:{family}"), json!(p));
            format!("share:panic:{family}")
        }
        Ok(Ok(())) if honest => "share:accept:honest".to_string(),
        Ok(Ok(())) if must_reject => format!("share:accept:ALTERED:{family}"),
        Ok(Ok(())) if truth => format!("share:accept:true-claim:{family}"),
        Ok(Ok(())) => format!("share:accept:FALSE-CLAIM:{family}"),
        Ok(Err(e)) if e.starts_with("decode") => format!("share:reject-at-decode:{family}"),
        Ok(Err(_)) => format!("share:reject:{family}"),
    };
    rep.case(key, &class, !honest);
    if rep.wants_sample() && key % 401 == 3 {
        rep.sample(|| json!({"part": "share", "k": sq.k, "family": family, "shares": raw.data.len(), "rows": raw.share_proofs.len(),
                             "ranges": raw.share_proofs.iter().map(|p| [p.start, p.end]).collect::<Vec<_>>(), "result": class}));
    }
    match got {
        Ok(Ok(())) if must_reject => rep.violation(
            &format!("share-proof-accepted-altered:{family}"),
            format!(
                "ShareProof::verify accepted {} shares over {} rows (k={}) although the proof was altered (family {family}; ground truth of the claim: {truth})",
                raw.data.len(),
                raw.share_proofs.len(),
                sq.k
            ),
            share_json(raw, root, sq.k, seed, family, must_reject, honest),
        ),
        Ok(Ok(())) if !truth => rep.violation(
            &format!("share-proof-accepted-false-claim:{family}"),
            format!(
                "ShareProof::verify accepted {} shares over {} rows (k={}, family {family}) although the claimed shares/positions/roots are not those of the square",
                raw.data.len(),
                raw.share_proofs.len(),
                sq.k
            ),
            share_json(raw, root, sq.k, seed, family, must_reject, honest),
        ),
        Ok(Err(e)) if honest => rep.violation(
            "honest-share-proof-rejected",
            format!("honest share proof (k={}, {} shares) rejected: {e}", sq.k, raw.data.len()),
            share_json(raw, root, sq.k, seed, family, must_reject, honest),
        ),
        Err(p) => rep.violation(
            "share-proof-verify-panics",
            format!("ShareProof::verify panicked instead of returning an error (k={}, {} shares, family {family}): {p}", sq.k, raw.data.len()),
            share_json(raw, root, sq.k, seed, family, must_reject, honest),
        ),
        _ => {}
    }
}

/// The oracle-built proof for ODS cells [s, e) (row-major) of namespace `ns`.
fn honest_share_proof(sq: &Square, ns: &[u8; NS], s: usize, e: usize) -> RawShareProof {
    let k = sq.k;
    let (r0, r1) = (s / k, (e - 1) / k);
    let mut data = vec![];
    let mut share_proofs = vec![];
    for r in r0..=r1 {
        let cs = if r == r0 { s % k } else { 0 };
        let ce = if r == r1 { (e - 1) % k + 1 } else { k };
        let leaves = sq.row_leaves(r);
        let sib = nmt_range_proof(&leaves, cs, ce);
        // cross-check of the oracle prover against nmt-rs (fixture self-check, not a verdict)
        let real = sq.eds.row_nmt(r as u16).map(|mut t| t.build_range_proof(cs..ce));
        match real {
            Ok(p) => {
                let theirs: Vec<Vec<u8>> = p.siblings().iter().map(|h| h.to_array().to_vec()).collect();
                let ours: Vec<Vec<u8>> = sib.iter().map(|n| n.to_bytes()).collect();
                if theirs != ours {
                    machinery_error("C13", &format!("oracle NMT range proof differs from nmt-rs for k={k} row {r} range {cs}..{ce}"));
                }
            }
            Err(e) => machinery_error("C13", &format!("row_nmt({r}) failed: {e}")),
        }
        for c in cs..ce {
            data.push(sq.cell(r, c).clone());
        }
        share_proofs.push(raw_nmt_proof(cs, ce, &sib));
    }
    RawShareProof {
        data,
        share_proofs,
        namespace_id: ns[1..].to_vec(),
        namespace_version: ns[0] as u32,
        row_proof: Some(raw_row_proof(&sq.dah_leaves, r0, r1)),
    }
}

fn pick3(n: usize) -> Vec<usize> {
    let mut v = vec![0, n / 2, n.saturating_sub(1)];
    v.dedup();
    v.retain(|x| *x < n);
    v
}

fn share_cases(sq: &Square, seed: u64, ns: &[u8; NS], other_ns: &[u8; NS], s: usize, e: usize, rep: &mut Report) {
    let k = sq.k;
    let root = sq.data_root;
    let honest = honest_share_proof(sq, ns, s, e);
    let key = |fam: &str, x: usize, y: usize| fnv64(format!("s/{k}/{s}/{e}/{fam}/{x}/{y}").as_bytes());
    eval_share(sq, seed, &honest, &root, "honest", false, true, key("honest", 0, 0), rep);
    let n = honest.data.len();
    let rows = honest.share_proofs.len();
    let mut run = |fam: &str, x: usize, y: usize, must: bool, f: &dyn Fn(&mut RawShareProof) -> bool, rep: &mut Report| {
        let mut m = honest.clone();
        if f(&mut m) {
            if m == honest {
                rep.case(key(fam, x, y), &format!("share:noop-mutation:{fam}"), false);
            } else {
                eval_share(sq, seed, &m, &root, fam, must, false, key(fam, x, y), rep);
            }
        }
    };
    // proven shares
    let mut share_idx = pick3(n);
    // first share of every row
    let mut acc = 0usize;
    for p in &honest.share_proofs {
        share_idx.push(acc);
        acc += (p.end - p.start) as usize;
    }
    share_idx.sort();
    share_idx.dedup();
    for &i in &share_idx {
        run("share-payload-flip", i, 0, true, &|m| { m.data[i][100] ^= 1; true }, rep);
        run("share-last-byte-flip", i, 0, true, &|m| { m.data[i][511] ^= 0x80; true }, rep);
        run("share-namespace-byte-flip", i, 0, true, &|m| { m.data[i][NS - 1] ^= 1; true }, rep);
        run("share-truncated", i, 0, true, &|m| { m.data[i].pop(); true }, rep);
        if i + 1 < n {
            run("share-pair-swapped", i, 0, true, &|m| { m.data.swap(i, i + 1); true }, rep);
        }
    }
    run("share-last-dropped", 0, 0, true, &|m| { m.data.pop(); true }, rep);
    run("share-last-duplicated", 0, 0, true, &|m| { let d = m.data.last().unwrap().clone(); m.data.push(d); true }, rep);
    run("shares-empty", 0, 0, true, &|m| { m.data.clear(); true }, rep);
    // namespace
    run("namespace-other", 0, 0, true, &|m| { m.namespace_id = other_ns[1..].to_vec(); m.namespace_version = other_ns[0] as u32; true }, rep);
    run("namespace-last-byte-flip", 0, 0, true, &|m| { let l = m.namespace_id.len(); m.namespace_id[l - 1] ^= 1; true }, rep);
    run("namespace-parity", 0, 0, true, &|m| { m.namespace_id = vec![0xff; 28]; m.namespace_version = 255; true }, rep);
    run("namespace-version-256", 0, 0, true, &|m| { m.namespace_version += 256; true }, rep);
    // NMT siblings (inner nodes) and ranges, per row
    for r in 0..rows {
        let ns_n = honest.share_proofs[r].nodes.len();
        for x in 0..ns_n {
            run("nmt-node-digest-flip", r, x, true, &|m| { m.share_proofs[r].nodes[x][89] ^= 1; true }, rep);
            run("nmt-node-minns-flip", r, x, true, &|m| { m.share_proofs[r].nodes[x][28] ^= 1; true }, rep);
            run("nmt-node-maxns-flip", r, x, true, &|m| { m.share_proofs[r].nodes[x][57] ^= 1; true }, rep);
            run("nmt-node-removed", r, x, true, &|m| { m.share_proofs[r].nodes.remove(x); true }, rep);
            if x + 1 < ns_n {
                run("nmt-node-pair-swapped", r, x, true, &|m| { m.share_proofs[r].nodes.swap(x, x + 1); true }, rep);
            }
        }
        run("nmt-node-extra", r, 0, true, &|m| { m.share_proofs[r].nodes.push(vec![0xff; 90]); true }, rep);
        // claimed positions: decided by ground truth
        run("nmt-range-shift+1", r, 0, false, &|m| { m.share_proofs[r].start += 1; m.share_proofs[r].end += 1; true }, rep);
        run("nmt-range-shift-1", r, 0, false, &|m| if m.share_proofs[r].start > 0 { m.share_proofs[r].start -= 1; m.share_proofs[r].end -= 1; true } else { false }, rep);
        run("nmt-range-end+1", r, 0, false, &|m| { m.share_proofs[r].end += 1; true }, rep);
        run("nmt-range-start+1", r, 0, false, &|m| { m.share_proofs[r].start += 1; true }, rep);
        run("nmt-range-empty", r, 0, false, &|m| { m.share_proofs[r].end = m.share_proofs[r].start; true }, rep);
        run("nmt-range-negative", r, 0, false, &|m| { m.share_proofs[r].start = -1; true }, rep);
        run("nmt-absence-leaf-set", r, 0, false, &|m| { m.share_proofs[r].leaf_hash = vec![0u8; 90]; true }, rep);
        // proven roots and the row proof's inner nodes
        run("row-root-digest-flip", r, 0, true, &|m| { m.row_proof.as_mut().unwrap().row_roots[r][60] ^= 1; true }, rep);
        run("row-root-minns-flip", r, 0, true, &|m| { m.row_proof.as_mut().unwrap().row_roots[r][28] ^= 1; true }, rep);
        let na = honest.row_proof.as_ref().unwrap().proofs[r].aunts.len();
        for x in 0..na {
            run("row-proof-inner-node-flip", r, x, true, &|m| { m.row_proof.as_mut().unwrap().proofs[r].aunts[x][7] ^= 1; true }, rep);
        }
        run("row-proof-inner-node-removed", r, 0, true, &|m| { m.row_proof.as_mut().unwrap().proofs[r].aunts.remove(0); true }, rep);
        run("row-proof-leafhash-flip", r, 0, true, &|m| { m.row_proof.as_mut().unwrap().proofs[r].leaf_hash[0] ^= 1; true }, rep);
        run("row-proof-index+1", r, 0, false, &|m| { m.row_proof.as_mut().unwrap().proofs[r].index += 1; true }, rep);
        run("row-proof-index+total", r, 0, false, &|m| { let p = &mut m.row_proof.as_mut().unwrap().proofs[r]; p.index += p.total; true }, rep);
    }
    // counts
    run("count:last-nmt-proof-dropped", 0, 0, true, &|m| { m.share_proofs.pop(); true }, rep);
    run("count:last-nmt-proof-duplicated", 0, 0, true, &|m| { let p = m.share_proofs.last().unwrap().clone(); m.share_proofs.push(p); true }, rep);
    run("count:last-row-root-dropped", 0, 0, true, &|m| { m.row_proof.as_mut().unwrap().row_roots.pop(); true }, rep);
    run("count:last-row-pair-dropped", 0, 0, true, &|m| { let rp = m.row_proof.as_mut().unwrap(); rp.row_roots.pop(); rp.proofs.pop(); true }, rep);
    run("span:end+1", 0, 0, true, &|m| { m.row_proof.as_mut().unwrap().end_row += 1; true }, rep);
    run("span:start+1", 0, 0, true, &|m| { m.row_proof.as_mut().unwrap().start_row += 1; true }, rep);
    run("row-proof-missing", 0, 0, true, &|m| { m.row_proof = None; true }, rep);
    if rows >= 2 {
        run("nmt-proofs-reversed", 0, 0, true, &|m| { m.share_proofs.reverse(); true }, rep);
        run("row-roots-reversed", 0, 0, true, &|m| { m.row_proof.as_mut().unwrap().row_roots.reverse(); true }, rep);
    }
    // other data root
    let other = flip(&root, 31, 0);
    eval_share(sq, seed, &honest, &other, "other-data-root", true, false, key("other-data-root", 0, 0), rep);
}

/// Sub-range endpoints of a run [s, e): all of them for short runs, the structurally
/// distinct ones (run ends, row boundaries and their neighbours) for long runs.
fn endpoints(k: usize, s: usize, e: usize, all_upto: usize) -> Vec<usize> {
    if e - s <= all_upto {
        return (s..=e).collect();
    }
    let mut v = BTreeSet::new();
    for x in [s, s + 1, s + 2, e - 2, e - 1, e] {
        v.insert(x);
    }
    let mut row = s / k * k;
    while row <= e {
        for x in [row.wrapping_sub(1), row, row + 1] {
            if x >= s && x <= e {
                v.insert(x);
            }
        }
        row += k;
    }
    v.into_iter().collect()
}

// =====================================================================================

enum Job {
    Merkle(Arc<Tree>, usize, bool, bool),
    Row(Arc<Square>, usize, usize),
    Share(Arc<Square>, [u8; NS], [u8; NS], usize, usize),
}

fn main() {
    let ctx = Ctx::from_args("C13");
    let quick = ctx.quick();
    let max_n: usize = ctx.tier.pick(64, 300);
    let full_upto: usize = 64; // O(n^2)-per-tree families are complete up to here
    let cross_upto: usize = ctx.tier.pick(12, 24);
    let ks: Vec<usize> = ctx.tier.pick(vec![1, 2, 4, 8], vec![1, 2, 4, 8, 16]);
    let all_upto: usize = ctx.tier.pick(24, 48);

    let rep = if let Some(c) = ctx.replay_case() {
        let mut rep = Report::new();
        match c["part"].as_str().unwrap_or("") {
            "merkle" => {
                let (m, fam, honest) = m_from_json(&c);
                eval_m(&m, &fam, honest, 0, &mut rep);
            }
            "merkle-prover" => {
                let n = c["n"].as_u64().unwrap() as usize;
                let t = tree(n, ctx.seed);
                merkle_cases(&t, c["i"].as_u64().unwrap() as usize, false, false, &mut rep);
            }
            "row" => {
                let raw: RawRowProof = serde_json::from_value(c["raw"].clone()).expect("raw row proof");
                let root = c["root"].as_str().map(|s| h32(&hex::decode(s).unwrap()));
                eval_row(&raw, &root, c["family"].as_str().unwrap(), c["must_reject"].as_bool().unwrap(), c["honest"].as_bool().unwrap(), 0, &mut rep);
            }
            "row-prover" => {
                let sq = build_square(c["k"].as_u64().unwrap() as usize, ctx.seed).unwrap_or_else(|e| machinery_error("C13", &e));
                row_cases(&sq, c["a"].as_u64().unwrap() as usize, c["b"].as_u64().unwrap() as usize, &mut rep);
            }
            "share" => {
                let raw: RawShareProof = serde_json::from_value(c["raw"].clone()).expect("raw share proof");
                let seed = c["seed"].as_u64().unwrap();
                let sq = build_square(c["k"].as_u64().unwrap() as usize, seed).unwrap_or_else(|e| machinery_error("C13", &e));
                let root = h32(&unhx(&c["root"]));
                eval_share(&sq, seed, &raw, &root, c["family"].as_str().unwrap(), c["must_reject"].as_bool().unwrap(), c["honest"].as_bool().unwrap(), 0, &mut rep);
            }
            other => machinery_error("C13", &format!("unknown replay part {other:?}")),
        }
        rep
    } else {
        // fixtures
        let trees: Vec<Arc<Tree>> = (1..=max_n).into_par_iter().map(|n| Arc::new(tree(n, ctx.seed))).collect();
        let squares: Vec<Arc<Square>> = ks
            .par_iter()
            .map(|k| Arc::new(build_square(*k, ctx.seed).unwrap_or_else(|e| machinery_error("C13", &e))))
            .collect();
        // jobs, simplest first
        let mut jobs: Vec<Job> = vec![];
        for t in &trees {
            for i in 0..t.n {
                jobs.push(Job::Merkle(t.clone(), i, t.n <= full_upto, t.n <= cross_upto));
            }
        }
        for sq in &squares {
            let w = sq.w();
            for a in 0..w {
                for b in a..w {
                    jobs.push(Job::Row(sq.clone(), a, b));
                }
            }
        }
        let mut share_ranges = 0u64;
        for sq in &squares {
            let runs = sq.runs();
            for (ri, (ns, s, e)) in runs.iter().enumerate() {
                let other = if runs.len() > 1 { runs[(ri + 1) % runs.len()].0 } else { ns_v0(&[0x77]) };
                let pts = endpoints(sq.k, *s, *e, all_upto);
                for &x in &pts {
                    for &y in &pts {
                        if x < y {
                            jobs.push(Job::Share(sq.clone(), *ns, other, x, y));
                            share_ranges += 1;
                        }
                    }
                }
            }
        }
        let seed = ctx.seed;
        let mut rep = par_cases(jobs, |job, rep| match job {
            Job::Merkle(t, i, full, cross) => merkle_cases(&t, i, full, cross, rep),
            Job::Row(sq, a, b) => row_cases(&sq, a, b, rep),
            Job::Share(sq, ns, other, s, e) => share_cases(&sq, seed, &ns, &other, s, e, rep),
        });
        rep.extra("merkle_leaf_counts", json!(format!("1..={max_n}")));
        rep.extra("ods_widths", json!(ks));
        rep.extra("share_ranges", json!(share_ranges));
        let _ = quick;
        rep
    };

    finish(
        &ctx,
        rep,
        Spec {
            rule: "merkle: leaf counts n=1..=N (64 quick, 300 thorough) x every index i x {honest (oracle-built, and the repo prover compared with it); leaf j / aunts of j for every j!=i (n<=64; structural neighbours of i, ends and power-of-two offsets above); leaf/leaf-hash/root bit flips; index and total := every value in 0..=2*nextpow2(n)+2 (n<=64; neighbours, powers of two and offsets above) plus 2^32, 2^63-1, 2^63, usize::MAX; every (index,total) pair in 0..=n+2 x 1..=n+2 for n<=12 (24 thorough); each aunt flipped (2 bits), removed, duplicated, swapped with its neighbour; extra / reversed / no aunts}. row: ODS widths k in {1,2,4,8} (+16 thorough), every row range a<=b of the 2k rows x {oracle-built honest, repo prover; each root: 4 flips, replaced by next row / column root, truncated; each inner proof: every aunt flipped/removed/swapped, extra aunt, leaf hash flipped, index/total +-1, +2w,+4w,+8w; start/end +-1, +65536, swapped; roots/proofs dropped, duplicated, appended, emptied, reversed; other/empty data root; observations: span shifted, pairs reversed, column pair}. share: same squares, every namespace run, every sub-range [s,e) of it (runs longer than 24 (48 thorough): run ends, row boundaries and neighbours) x {honest oracle-built; shares flipped/truncated/swapped/dropped/duplicated; 4 namespace changes; every NMT node: 3 flips, removed, swapped, extra; NMT range shifted/grown/shrunk/emptied/negative/absence; row roots flipped; every row-proof aunt flipped, removed, leaf hash, index; counts and span; reversals; other data root}. distinct = distinct (part, parameters, family, mutation parameter); non-trivial = every mutated case (merkle: only those whose leaf matches the proof's leaf hash, so that the verdict depends on index/total/aunts)",
            assumptions: &[
                "payload bytes (leaves, share contents) come from VERIF_SEED; the properties do not depend on them (SHA-256 collision resistance assumed: an altered node is expected to change the recomputed root)",
                "merkle: a mutated `total` (or index+total) for which the RFC-6962 recomputation still yields the root (same tree shape along the path, e.g. leaf 0 of 3 with total 4) is accepted by any verifier that only sees (leaf, index, total, aunts, root); such cases are classed accept:still-valid-by-recomputation and are not violations",
                "row/share: the proofs' merkle indices are not tied to start_row (span shifted, pairs reversed, a column root with its own inclusion proof): the statement does not demand failure; recorded as observations (accept:valid-not-demanded-to-fail / accept:true-claim)",
                "a panic of any verify function is a violation (…-verify-panics), except MerkleProof::verify on values that cannot be decoded from the wire (total 0 or > i64::MAX, only reachable by writing the public fields), which is counted as a refusal",
                "the repo has no ShareProof prover: proofs are built by the harness' own NMT prover and must first agree with nmt-rs' sibling list and be accepted (self-check)",
            ],
            required_classes: &[
                "merkle:accept:honest",
                "merkle:prover-agrees",
                "merkle:reject:index",
                "merkle:reject:total",
                "merkle:reject:aunt-flip",
                "merkle:reject:leaf-other+hash",
                "row:accept:honest",
                "row:reject:root-digest-flip",
                "row:reject:inner-node-flip",
                "row:reject:span:end+1",
                "row:reject:count:last-root-dropped",
                "share:accept:honest",
                "share:reject:share-payload-flip",
                "share:reject:nmt-node-digest-flip",
                "share:reject:row-root-digest-flip",
                "share:reject:namespace-other",
            ],
            exhaustive: true,
        },
    );
}
