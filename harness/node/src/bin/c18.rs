//! C18 — Store insertion constraints admit exactly the legal ranges.   (engine E1)
//!
//! Space: every stored set over heights 1..=N (2^N sets) x every candidate range a..=b with
//! 0 <= a,b <= N+1 (valid and invalid), plus the same shapes shifted so that the universe
//! ends at u64::MAX.  Oracle: truth table written from the statement over a BTreeSet.
use lumina_node::block_ranges::{BlockRange, BlockRanges};
use lv_core::*;
use serde_json::json;
use std::collections::BTreeSet;

fn build(set: &BTreeSet<u64>) -> BlockRanges {
    let mut r = BlockRanges::new();
    for h in set {
        r.insert_relaxed(*h..=*h).unwrap();
    }
    r
}

/// Oracle from the statement.
fn oracle(stored: &BTreeSet<u64>, a: u64, b: u64) -> Option<(bool, bool)> {
    if a == 0 || a > b {
        return None; // not a valid range
    }
    if (a..=b).any(|h| stored.contains(&h)) {
        return None;
    }
    let below = a > 1 && stored.contains(&(a - 1));
    let above = b < u64::MAX && stored.contains(&(b + 1));
    let nothing = stored.is_empty();
    let above_all = stored.iter().next_back().is_some_and(|m| a > *m);
    if nothing || above_all || below || above {
        Some((below, above))
    } else {
        None
    }
}

fn eval(mask: u32, n: u64, off: u64, a: u64, b: u64, rep: &mut Report) {
    let stored: BTreeSet<u64> = (0..n).filter(|i| mask >> i & 1 == 1).map(|i| off + 1 + i).collect();
    let ranges = build(&stored);
    let range: BlockRange = a..=b;
    let got = guard(|| ranges.check_insertion_constraints(&range));
    let want = oracle(&stored, a, b);
    let key = fnv64(format!("{mask}/{off}/{a}/{b}").as_bytes());
    let case = json!({"stored": stored, "range": [a, b]});
    match got {
        Err(p) => {
            rep.case(key, "panic", true);
            rep.violation("panic", format!("check_insertion_constraints panicked: {p}"), case);
        }
        Ok(res) => {
            let got = res.ok();
            let class = match (got, want) {
                (Some(_), _) => "admitted",
                (None, _) => "refused",
            };
            // non-trivial: the candidate is a valid range and the store is non-empty
            rep.case(key, class, a != 0 && a <= b && !stored.is_empty());
            if rep.wants_sample() && mask % 37 == 5 {
                rep.sample(|| json!({"case": case, "result": format!("{got:?}")}));
            }
            if got != want {
                let k = match (got, want) {
                    (Some(_), None) => "illegal-range-admitted",
                    (None, Some(_)) => "legal-range-refused",
                    _ => "wrong-neighbour-flags",
                };
                rep.violation(k, format!("expected {want:?}, got {got:?}"), case);
            }
        }
    }
}

fn main() {
    let ctx = Ctx::from_args("C18");
    let n: u64 = ctx.tier.pick(8, 10);
    let rep = if let Some(c) = ctx.replay_case() {
        let stored: BTreeSet<u64> = serde_json::from_value(c["stored"].clone()).unwrap();
        let (a, b) = (c["range"][0].as_u64().unwrap(), c["range"][1].as_u64().unwrap());
        let mut rep = Report::new();
        let off = stored.iter().next().map(|m| if *m > 1000 { u64::MAX - n } else { 0 }).unwrap_or(0);
        let mask = stored.iter().fold(0u32, |m, h| m | 1 << (h - off - 1));
        eval(mask, n, off, a, b, &mut rep);
        rep
    } else {
        let offs = [0u64, u64::MAX - n];
        let cases: Vec<(u32, u64)> = (0..(1u32 << n)).flat_map(|m| offs.iter().map(move |o| (m, *o))).collect();
        par_cases(cases, |(mask, off), rep| {
            // candidate endpoints: off+0 ..= off+n+1 (saturating at the top), plus 0
            let mut pts: Vec<u64> = (0..=n + 1).map(|i| off.saturating_add(i)).collect();
            pts.push(0);
            pts.sort();
            pts.dedup();
            for &a in &pts {
                for &b in &pts {
                    eval(mask, n, off, a, b, rep);
                }
            }
        })
    };
    finish(
        &ctx,
        rep,
        Spec {
            rule: "all 2^N stored sets over heights off+1..=off+N (N=8 quick, 10 thorough; off in {0, u64::MAX-N}) x every candidate (a,b) with endpoints in {0} ∪ off..=off+N+1, valid or not; distinct = (set, off, a, b); non-trivial = valid candidate range against a non-empty store",
            assumptions: &["heights outside the two universes are represented by the shifted copy only"],
            required_classes: &["admitted", "refused"],
            exhaustive: true,
        },
    );
}
