//! C40 — Shrex peer pools contain only peers that announced the right data.  (engine E2)
//!
//! System under test: the real `PoolTracker<InMemoryStore>` (node/src/p2p/shrex/
//! pool_tracker.rs) behind `lumina_node::verif::shwap::VPool`, polled by the harness on a
//! current-thread tokio runtime with the clock paused.  A state is an operation history
//! replayed on a fresh tracker + store; states are de-duplicated on the tracker's private
//! state (hook `verif_snapshot`), the store contents and the oracle's bookkeeping.
//!
//! Oracle (from the statement; it never predicts pool contents, it only checks what the
//! statement demands of the observed answers) — after every operation, for every height
//! 0..=35, `get_pool(h)` is asked:
//!  * it never panics (nor does any other call);
//!  * `Ok(peers)` only if header h is stored and every offered peer announced the data
//!    hash of that header since it was last blocked;
//!  * peers of an `AddPeers` event announced the data hash of some stored header;
//!  * a peer that announced for a height twice while that height was tracked, or announced
//!    a hash other than the stored header's for a validated height (before or after the
//!    validation), is in a `BlockPeers` event by the end of the next poll;
//!  * heights more than ten below the newest height ever seen validated are neither
//!    validated nor candidates.
use std::collections::{BTreeMap, BTreeSet, HashSet};
use std::sync::atomic::{AtomicU64, Ordering};
use std::sync::{Arc, Mutex, OnceLock};
use std::time::Duration;

use celestia_types::hash::Hash;
use celestia_types::test_utils::ExtendedHeaderGenerator;
use celestia_types::{DataAvailabilityHeader, ExtendedHeader};
use futures::FutureExt;
use lumina_node::store::{InMemoryStore, Store};
use lumina_node::verif::shwap::{PeerId, VGetPoolError, VPool, VPoolEvent, VPoolPoll, empty_eds_data_hash, peer_id};
use lv_core::*;
use serde::{Deserialize, Serialize};
use serde_json::json;

#[path = "../shared/shwap_squares.rs"]
mod shwap_squares;

const MAX_H: u64 = 35;
const WINDOW: u64 = 10;
const TIMEOUT: Duration = Duration::from_millis(120_000 + 1);

/// Data-hash label of every height of the one chain all histories use.  "E" = empty block;
/// heights 1 and 2 are both empty, heights 3 and 12 carry the same non-empty square.
const CHAIN: [&str; 34] = [
    "E", "E", "A", "D4", "D5", "D6", "D7", "D8", "D9", "D10", "B", "A", "C", "E", "D15", "D16", "D17", "D18", "D19", "D20", "D21", "D22", "D23", "D24", "D25", "D26", "D27", "D28", "D29",
    "D30", "D31", "F", "D33", "D34",
];

struct Chain {
    headers: BTreeMap<u64, ExtendedHeader>,
    /// label -> hash value; includes "X" (a hash no header has) and "E"
    value: BTreeMap<&'static str, Hash>,
}

fn chain(seed: u64) -> &'static Chain {
    static C: OnceLock<Chain> = OnceLock::new();
    C.get_or_init(|| {
        let mut generator = ExtendedHeaderGenerator::new();
        let mut headers = BTreeMap::new();
        let mut value: BTreeMap<&'static str, Hash> = BTreeMap::new();
        for (i, label) in CHAIN.iter().enumerate() {
            let h = i as u64 + 1;
            let header = if *label == "E" {
                generator.next_empty()
            } else {
                let variant = fnv64(label.as_bytes()) & 0xffff;
                let (ods, _) = shwap_squares::build_ods(seed, 1, shwap_squares::Layout::Plain, variant);
                let eds = celestia_types::ExtendedDataSquare::from_ods(ods, celestia_types::AppVersion::latest())
                    .unwrap_or_else(|e| machinery_error("C40", &format!("fixture square: {e}")));
                generator.next_with_dah(DataAvailabilityHeader::from_eds(&eds))
            };
            if header.height() != h {
                machinery_error("C40", "generator height");
            }
            let dh = header.header.data_hash.unwrap_or_else(|| machinery_error("C40", "header without data hash"));
            if let Some(prev) = value.get(*label) {
                if *prev != dh {
                    machinery_error("C40", "same label, different data hash");
                }
            } else if value.values().any(|v| *v == dh) {
                machinery_error("C40", "different labels, same data hash");
            }
            value.insert(*label, dh);
            headers.insert(h, header);
        }
        if value["E"] != empty_eds_data_hash() {
            machinery_error("C40", "empty header's data hash is not lumina's empty-square hash");
        }
        value.insert("X", Hash::Sha256([0x5a; 32]));
        Chain { headers, value }
    })
}

fn label_of(h: u64) -> &'static str {
    CHAIN[(h - 1) as usize]
}

/// Labels of the hash values peers can announce.
const LABELS: [&str; 7] = ["E", "A", "B", "C", "X", "D4", "F"];

fn label_index(l: &str) -> u8 {
    LABELS.iter().position(|x| *x == l).unwrap_or_else(|| machinery_error("C40", &format!("unknown hash label {l}"))) as u8
}

/// Compact operation (histories are kept per state); its JSON form is `OpJson`.
#[derive(Clone, Copy, Debug, PartialEq, Eq, Serialize, Deserialize)]
#[serde(into = "OpJson", from = "OpJson")]
enum Op {
    /// insert header h into the empty store and poll until pending (what the unit tests'
    /// `setup_tracker` does); only from the initial state
    Boot { h: u8 },
    /// header h arrives in the store
    Hdr { h: u8 },
    /// `add_peer_for_hash(peer p, hash LABELS[hash], h)`
    Add { p: u8, hash: u8, h: u8 },
    /// `poll` until `Pending`
    Poll,
    /// clock + 120 s
    Timeout,
}

#[derive(Clone, Debug, Serialize, Deserialize)]
#[serde(tag = "op", rename_all = "snake_case")]
enum OpJson {
    Boot { h: u64 },
    Hdr { h: u64 },
    Add { p: u8, hash: String, h: u64 },
    Poll,
    Timeout,
}

impl From<Op> for OpJson {
    fn from(o: Op) -> OpJson {
        match o {
            Op::Boot { h } => OpJson::Boot { h: h as u64 },
            Op::Hdr { h } => OpJson::Hdr { h: h as u64 },
            Op::Add { p, hash, h } => OpJson::Add { p, hash: LABELS[hash as usize].to_string(), h: h as u64 },
            Op::Poll => OpJson::Poll,
            Op::Timeout => OpJson::Timeout,
        }
    }
}

impl From<OpJson> for Op {
    fn from(o: OpJson) -> Op {
        match o {
            OpJson::Boot { h } => Op::Boot { h: h as u8 },
            OpJson::Hdr { h } => Op::Hdr { h: h as u8 },
            OpJson::Add { p, hash, h } => Op::Add { p, hash: label_index(&hash), h: h as u8 },
            OpJson::Poll => Op::Poll,
            OpJson::Timeout => Op::Timeout,
        }
    }
}

#[derive(Clone, Debug, PartialEq, Eq, PartialOrd, Ord, Serialize)]
enum St {
    NotTracked,
    TooOld,
    Cand,
    Ok(Vec<u8>),
}

struct Cfg {
    event_heights: Vec<u64>,
    peers: u8,
    seed: u64,
    /// whether peers also announce the empty-square hash for non-empty heights
    empty_hash_announced: bool,
    /// whether peers also announce the data hash of another height
    other_height_hash_announced: bool,
}

#[derive(Clone)]
struct State {
    hist: Vec<Op>,
    peers_used: u8,
    stored: BTreeSet<u64>,
    dead: bool,
}

fn hash_labels_for(cfg: &Cfg, h: u64) -> Vec<u8> {
    let right = label_of(h);
    let mut v = vec![label_index(right), label_index("X")];
    // the data hash of another height (first later event height, cyclically, whose hash is
    // neither this height's nor the empty one)
    let n = if cfg.other_height_hash_announced { cfg.event_heights.len() } else { 0 };
    let pos = cfg.event_heights.iter().position(|x| *x == h).unwrap_or(0);
    for k in 1..n {
        let o = label_of(cfg.event_heights[(pos + k) % n]);
        if o != right && o != "E" {
            v.push(label_index(o));
            break;
        }
    }
    if right != "E" && cfg.empty_hash_announced {
        v.push(label_index("E"));
    }
    v
}

fn ops(cfg: &Cfg, s: &State) -> Vec<Op> {
    if s.dead {
        return vec![];
    }
    let mut v = vec![];
    if s.hist.is_empty() {
        for (i, &h) in cfg.event_heights.iter().take(2).enumerate() {
            if i == 0 || h <= 3 {
                v.push(Op::Boot { h: h as u8 });
            }
        }
    }
    let top = s.stored.iter().next_back().copied();
    for &h in &cfg.event_heights {
        if s.stored.contains(&h) {
            continue;
        }
        let insertable = s.stored.is_empty() || top.is_some_and(|t| h > t) || s.stored.contains(&(h - 1)) || s.stored.contains(&(h + 1));
        if insertable {
            v.push(Op::Hdr { h: h as u8 });
        }
    }
    for &h in &cfg.event_heights {
        for p in 0..=s.peers_used.min(cfg.peers - 1) {
            for hash in hash_labels_for(cfg, h) {
                v.push(Op::Add { p, hash, h: h as u8 });
            }
        }
    }
    v.push(Op::Poll);
    v.push(Op::Timeout);
    v
}

// ------------------------------------------------------------------ oracle bookkeeping

#[derive(Default)]
struct Model {
    stored: BTreeSet<u64>,
    status: Vec<St>,
    /// height -> announcements (peer, hash label) the tracker took into a pool, since the
    /// pool appeared, minus those of peers blocked since
    votes: BTreeMap<u64, Vec<(u8, &'static str)>>,
    /// peer -> hash labels announced since the peer was last seen in a BlockPeers event
    live: BTreeMap<u8, BTreeSet<&'static str>>,
    /// peer -> why a BlockPeers event is owed by the end of the next poll
    owed: BTreeMap<u8, &'static str>,
    newest_validated: u64,
    /// bookkeeping of header tasks for the state key only: (height, started, expired)
    tasks: Vec<(u64, bool, bool)>,
}

struct Outcome {
    key: u64,
    class: String,
    violations: Vec<(String, String)>,
    dead: bool,
    nontrivial: bool,
}

fn peer_index(p: &PeerId, ids: &[PeerId]) -> u8 {
    ids.iter().position(|x| x == p).map(|i| i as u8).unwrap_or(u8::MAX)
}

fn observe(pool: &VPool<InMemoryStore>, ids: &[PeerId]) -> Result<Vec<St>, String> {
    let mut v = Vec::with_capacity(MAX_H as usize + 1);
    for h in 0..=MAX_H {
        let r = std::panic::catch_unwind(std::panic::AssertUnwindSafe(|| pool.get_pool(h)));
        match r {
            Err(_) => return Err(format!("get_pool({h}) panicked: {}", take_last_panic().unwrap_or_default())),
            Ok(Ok(peers)) => {
                let mut idx: Vec<u8> = peers.iter().map(|p| peer_index(p, ids)).collect();
                idx.sort();
                v.push(St::Ok(idx));
            }
            Ok(Err(VGetPoolError::CandidatesNotValidated)) => v.push(St::Cand),
            Ok(Err(VGetPoolError::HeightTooOld)) => v.push(St::TooOld),
            Ok(Err(VGetPoolError::HeightNotTracked)) => v.push(St::NotTracked),
        }
    }
    Ok(v)
}

/// Replays `hist` on a fresh tracker; the returned violations are those raised by the
/// *last* operation (earlier ones were reported when their prefix was explored).
fn run(cfg: &Cfg, hist: &[Op]) -> Outcome {
    let ch = chain(cfg.seed);
    let ids: Vec<PeerId> = (0..cfg.peers).map(peer_id).collect();
    let rt = tokio::runtime::Builder::new_current_thread()
        .enable_time()
        .start_paused(true)
        .build()
        .unwrap_or_else(|e| machinery_error("C40", &format!("runtime: {e}")));
    let res = guard(|| {
        rt.block_on(async {
            let store = Arc::new(InMemoryStore::new());
            let mut pool = VPool::new(store.clone());
            let mut m = Model::default();
            let mut viol: Vec<(String, String)> = vec![];
            let mut class = String::from("init");
            let mut dead = false;
            m.status = match observe(&pool, &ids) {
                Ok(s) => s,
                Err(p) => {
                    return (vec![viol_pair("get-pool-panicked", p)], "panic".to_string(), true, 0u64, false);
                }
            };
            let n = hist.len();
            for (i, op) in hist.iter().enumerate() {
                let last = i + 1 == n;
                let mut v: Vec<(String, String)> = vec![];
                let pre = m.status.clone();
                let mut blocked_now: BTreeSet<u8> = BTreeSet::new();
                let mut added_now: Vec<u8> = vec![];
                let live_before = m.live.clone();
                let mut polled = false;
                class = match op {
                    Op::Boot { h } | Op::Hdr { h } => {
                        let h = &(*h as u64);
                        let header = ch.headers[h].clone();
                        if let Err(e) = store.insert(header).await {
                            machinery_error("C40", &format!("store refused header {h}: {e} (history {hist:?})"));
                        }
                        m.stored.insert(*h);
                        if matches!(op, Op::Boot { .. }) {
                            polled = true;
                            "boot".to_string()
                        } else {
                            "hdr".to_string()
                        }
                    }
                    Op::Add { p, hash, h } => {
                        let value = ch.value[LABELS[*hash as usize]];
                        let r = std::panic::catch_unwind(std::panic::AssertUnwindSafe(|| pool.add_peer_for_hash(ids[*p as usize], value, *h as u64)));
                        if r.is_err() {
                            v.push(viol_pair("add-peer-panicked", format!("add_peer_for_hash panicked: {}", take_last_panic().unwrap_or_default())));
                            dead = true;
                        }
                        "add".to_string()
                    }
                    Op::Poll => {
                        polled = true;
                        "poll".to_string()
                    }
                    Op::Timeout => {
                        tokio::time::advance(TIMEOUT).await;
                        for t in m.tasks.iter_mut() {
                            if t.1 {
                                t.2 = true;
                            }
                        }
                        "timeout".to_string()
                    }
                };
                if polled && !dead {
                    match std::panic::AssertUnwindSafe(pool.poll_all()).catch_unwind().await {
                        Err(_) => {
                            v.push(viol_pair("poll-panicked", format!("PoolTracker::poll panicked: {}", take_last_panic().unwrap_or_default())));
                            dead = true;
                        }
                        Ok(steps) => {
                            for s in steps {
                                match s {
                                    VPoolPoll::Event(VPoolEvent::BlockPeers(ps)) => {
                                        for p in ps {
                                            blocked_now.insert(peer_index(&p, &ids));
                                        }
                                    }
                                    VPoolPoll::Event(VPoolEvent::AddPeers(ps)) => {
                                        for p in ps {
                                            added_now.push(peer_index(&p, &ids));
                                        }
                                    }
                                    _ => {}
                                }
                            }
                            let stored = m.stored.clone();
                            m.tasks.retain(|t| !(stored.contains(&t.0) || (t.1 && t.2)));
                            for t in m.tasks.iter_mut() {
                                t.1 = true;
                            }
                        }
                    }
                }
                // ---- observe
                let post = if dead {
                    pre.clone()
                } else {
                    match observe(&pool, &ids) {
                        Ok(s) => s,
                        Err(p) => {
                            v.push(viol_pair("get-pool-panicked", p));
                            dead = true;
                            pre.clone()
                        }
                    }
                };
                if !dead {
                    // ---- bookkeeping + obligations
                    if let Op::Add { p, hash, h } = op {
                        let (hash, h) = (LABELS[*hash as usize], &(*h as u64));
                        m.live.entry(*p).or_default().insert(hash);
                        let hi = *h as usize;
                        let accepted = matches!(post[hi], St::Cand | St::Ok(_));
                        if accepted {
                            let votes = m.votes.entry(*h).or_default();
                            let twice = votes.iter().any(|(q, _)| q == p);
                            let validated_before = matches!(pre[hi], St::Ok(_));
                            if twice {
                                m.owed.insert(*p, if validated_before { "double-announcer-after-validation-not-blocked" } else { "double-announcer-not-blocked" });
                                class = format!("add:second-announcement-{}", if validated_before { "validated" } else { "candidates" });
                            }
                            if validated_before && m.stored.contains(h) && hash != label_of(*h) {
                                m.owed.insert(*p, "wrong-hash-announcer-for-validated-height-not-blocked");
                                class = "add:wrong-hash-to-validated".into();
                            } else if validated_before && !twice {
                                class = "add:to-validated".into();
                            } else if !twice {
                                class = if matches!(pre[hi], St::Cand) { "add:vote".into() } else { "add:new-pool".into() };
                            }
                            votes.push((*p, hash));
                            if matches!(pre[hi], St::NotTracked | St::TooOld) && matches!(post[hi], St::Cand) {
                                m.tasks.push((*h, false, false));
                            }
                        } else {
                            class = "add:ignored".into();
                        }
                    }
                    if polled {
                        let mut newly = 0;
                        for h in 0..=MAX_H {
                            let hi = h as usize;
                            if matches!(pre[hi], St::Cand) && matches!(post[hi], St::Ok(_)) {
                                newly += 1;
                                if m.stored.contains(&h) {
                                    for (p, hash) in m.votes.get(&h).cloned().unwrap_or_default() {
                                        if hash != label_of(h) {
                                            m.owed.entry(p).or_insert("wrong-hash-announcer-not-blocked-at-validation");
                                        }
                                    }
                                }
                            }
                        }
                        for (p, why) in std::mem::take(&mut m.owed) {
                            if !blocked_now.contains(&p) {
                                v.push(viol_pair(why, format!("peer {p} owed a BlockPeers event by the end of this poll ({why}); blocked in this poll: {blocked_now:?}")));
                            }
                        }
                        for p in &added_now {
                            let ok = live_before.get(p).is_some_and(|l| m.stored.iter().any(|h| l.contains(label_of(*h))));
                            if !ok {
                                v.push(viol_pair(
                                    "peer-added-without-announcing-a-stored-headers-data-hash",
                                    format!("AddPeers contains peer {p}, whose announcements since its last block are {:?}; stored heights {:?}", live_before.get(p), m.stored),
                                ));
                            }
                        }
                        for p in &blocked_now {
                            m.live.remove(p);
                            for votes in m.votes.values_mut() {
                                votes.retain(|(q, _)| q != p);
                            }
                        }
                        let timeouts = pre.iter().zip(post.iter()).filter(|(a, b)| matches!(a, St::Cand) && matches!(b, St::NotTracked)).count();
                        if matches!(op, Op::Poll) {
                            class = if newly > 0 && !blocked_now.is_empty() {
                                "poll:validated+blocked".into()
                            } else if newly > 0 {
                                "poll:validated".into()
                            } else if timeouts > 0 {
                                "poll:pool-timed-out".into()
                            } else if !blocked_now.is_empty() {
                                "poll:blocked".into()
                            } else if !added_now.is_empty() {
                                "poll:added".into()
                            } else {
                                "poll:idle".into()
                            };
                        }
                    }
                    for h in 0..=MAX_H {
                        let hi = h as usize;
                        match &post[hi] {
                            St::NotTracked | St::TooOld => {
                                m.votes.remove(&h);
                            }
                            St::Ok(peers) => {
                                m.newest_validated = m.newest_validated.max(h);
                                if !m.stored.contains(&h) {
                                    v.push(viol_pair("pool-validated-without-stored-header", format!("get_pool({h}) is Ok but no header {h} is stored")));
                                } else {
                                    for p in peers {
                                        if !m.live.get(p).is_some_and(|l| l.contains(label_of(h))) {
                                            v.push(viol_pair(
                                                "peer-offered-without-announcing-the-headers-data-hash",
                                                format!("get_pool({h}) offers peer {p}; header {h} has data hash {}; the peer's announcements since its last block: {:?}", label_of(h), m.live.get(p)),
                                            ));
                                        }
                                    }
                                }
                            }
                            St::Cand => {}
                        }
                    }
                    for h in 0..=MAX_H {
                        if h + WINDOW < m.newest_validated && matches!(post[h as usize], St::Ok(_) | St::Cand) {
                            v.push(viol_pair(
                                "stale-pool-not-dropped",
                                format!("height {h} is more than ten below the newest validated height {} but get_pool answers {:?}", m.newest_validated, post[h as usize]),
                            ));
                        }
                        if matches!(pre[h as usize], St::Ok(_) | St::Cand) && matches!(post[h as usize], St::TooOld) && last {
                            class = format!("evicted+{class}");
                        }
                    }
                    m.status = post;
                } else {
                    class = "panic".into();
                }
                if last {
                    viol = v;
                }
                if dead {
                    break;
                }
            }
            // ---- state key
            let key = if dead {
                fnv64(format!("dead|{hist:?}").as_bytes())
            } else {
                let snap = pool.snapshot();
                fnv64(
                    format!(
                        "{snap}|{:?}|{:?}|{:?}|{:?}|{}|{:?}",
                        m.stored,
                        {
                            let mut v = m.votes.clone();
                            for l in v.values_mut() {
                                l.sort();
                            }
                            v.retain(|_, l| !l.is_empty());
                            v
                        },
                        m.live,
                        m.owed,
                        m.newest_validated,
                        {
                            let mut t = m.tasks.clone();
                            t.sort();
                            t
                        }
                    )
                    .as_bytes(),
                )
            };
            let nontrivial = m.status.iter().any(|s| matches!(s, St::Cand | St::Ok(_)));
            (viol, class, dead, key, nontrivial)
        })
    });
    match res {
        Ok((violations, class, dead, key, nontrivial)) => Outcome { key, class, violations, dead, nontrivial },
        Err(p) => Outcome {
            key: fnv64(format!("dead|{hist:?}").as_bytes()),
            class: "panic".into(),
            violations: vec![viol_pair("tracker-panicked", format!("panic outside the guarded calls: {p}"))],
            dead: true,
            nontrivial: true,
        },
    }
}

fn viol_pair(k: &str, what: String) -> (String, String) {
    (k.to_string(), what)
}

const RULE: &str = "histories of operations on a fresh PoolTracker<InMemoryStore> (empty store), ALL histories up to the depth bound, breadth first, operations: \
Boot{h} (first operation only, h the lowest event height, or the second lowest if <= 3: header h stored and poll until pending, as the unit tests' setup does), Hdr{h} (header h arrives; any order the store's adjacency rule admits), \
Add{peer, hash, h} = add_peer_for_hash, Poll (poll until Pending), Timeout (paused clock +120 s); after every operation get_pool(h) is asked for every h in 0..=35. \
One 34-header chain: heights 1,2,14 are empty blocks (same data hash), heights 3 and 12 carry the same non-empty square, all others differ. \
Searches: quick = (a) event heights {1,2,11}, 2 peers, hash in {data hash of header h, X (no header has it)}, depth 7; (b) event heights {1,12,13} (heads 11 and 12 above a tracked height), same peers/hashes, depth 6; (e) event heights {11,32} (one head update jumping 21 heights past a tracked pool), same peers/hashes, depth 6. \
thorough = (a), (b) and (e) to depth 8; (c) event heights {3,12,13}, 2 peers, {right, X}, depth 8; (d) event heights {1,2,3,11,12,13}, 3 peers, hash in {right, X, data hash of another height, empty-square hash}, depth 5. \
Peers are introduced in index order (symmetry). state = distinct (tracker private state via verif_snapshot, stored heights, oracle bookkeeping); transition = one operation replayed on the real tracker; \
non-trivial state = at least one height is tracked (candidates or validated). See `searches` for per-search counts and `caps_hit` for bounds not completed.";

fn main() {
    let ctx = Ctx::from_args("C40");
    let env_list = |k: &str| -> Option<Vec<u64>> { std::env::var(k).ok().map(|s| s.split(',').filter_map(|x| x.trim().parse().ok()).collect()) };
    let env_u = |k: &str| -> Option<u64> { std::env::var(k).ok().and_then(|s| s.parse().ok()) };
    let seed = ctx.seed;
    let mk = |heights: &[u64], peers: u8, other: bool, empty: bool, depth: usize| -> (Cfg, usize) {
        (
            Cfg {
                event_heights: heights.to_vec(),
                peers,
                seed,
                empty_hash_announced: empty,
                other_height_hash_announced: other,
            },
            depth,
        )
    };
    // (alphabet, depth bound) of every search of the tier
    let mut searches: Vec<(Cfg, usize)> = if let Some(h) = env_list("C40_HEIGHTS") {
        vec![mk(
            &h,
            env_u("C40_PEERS").unwrap_or(2) as u8,
            env_u("C40_OTHER") == Some(1),
            env_u("C40_EMPTY") == Some(1),
            env_u("C40_DEPTH").unwrap_or(6) as usize,
        )]
    } else if ctx.quick() {
        vec![mk(&[1, 2, 11], 2, false, false, 7), mk(&[1, 12, 13], 2, false, false, 6), mk(&[11, 32], 2, false, false, 6)]
    } else {
        vec![
            mk(&[1, 2, 11], 2, false, false, 8),
            mk(&[1, 12, 13], 2, false, false, 8),
            mk(&[3, 12, 13], 2, false, false, 8),
            mk(&[11, 32], 2, false, false, 8),
            mk(&[1, 2, 3, 11, 12, 13], 3, true, true, 5),
        ]
    };
    let _ = chain(seed);
    let mut rep = Report::new();
    if let Some(c) = ctx.replay_case() {
        let (mut cfg, _) = searches.remove(0);
        cfg.peers = 3;
        let hist: Vec<Op> = serde_json::from_value(c["history"].clone()).unwrap_or_else(|e| machinery_error("C40", &format!("bad replay history: {e}")));
        // every prefix, so that the violation is found wherever it is raised
        for n in 1..=hist.len() {
            let o = run(&cfg, &hist[..n]);
            rep.evaluations += 1;
            *rep.classes.entry(o.class.clone()).or_insert(0) += 1;
            for (k, what) in o.violations {
                rep.violation(&k, what, json!({"history": &hist[..n]}));
            }
            if o.dead {
                break;
            }
        }
    } else {
        let nontrivial: Mutex<HashSet<u64>> = Mutex::new(HashSet::new());
        let with_pool = AtomicU64::new(0);
        let mut per_search = vec![];
        let t0 = std::time::Instant::now();
        let total_wall = env_u("C40_WALL").unwrap_or(ctx.tier.pick(600, 3000));
        for (cfg, depth) in &searches {
            let bcfg = BfsConfig {
                max_depth: *depth,
                max_states: ctx.tier.pick(2_000_000, 10_000_000),
                wall_cap: Duration::from_secs(total_wall.saturating_sub(t0.elapsed().as_secs())),
                dedup: true,
            };
            let (s0, t0n) = (rep.states, rep.transitions);
            let init = State { hist: vec![], peers_used: 0, stored: BTreeSet::new(), dead: false };
            let init_key = run(cfg, &[]).key;
            bfs(
                init,
                init_key,
                &bcfg,
                |s| ops(cfg, s),
                |s, o| {
                    let mut hist = s.hist.clone();
                    hist.push(*o);
                    let out = run(cfg, &hist);
                    if out.nontrivial {
                        with_pool.fetch_add(1, Ordering::Relaxed);
                        nontrivial.lock().unwrap().insert(out.key);
                    }
                    let mut stored = s.stored.clone();
                    let mut peers_used = s.peers_used;
                    match o {
                        Op::Boot { h } | Op::Hdr { h } => {
                            stored.insert(*h as u64);
                        }
                        Op::Add { p, .. } => peers_used = peers_used.max(*p + 1),
                        _ => {}
                    }
                    Step {
                        next: State { hist, peers_used, stored, dead: out.dead },
                        key: out.key,
                        class: out.class,
                        violations: out.violations,
                    }
                },
                &mut rep,
            );
            per_search.push(json!({
                "event_heights": cfg.event_heights,
                "peers": cfg.peers,
                "hashes": if cfg.other_height_hash_announced { "right, X, other height's, empty" } else { "right, X" },
                "depth_bound": depth,
                "states": rep.states - s0,
                "transitions": rep.transitions - t0n,
            }));
        }
        rep.extra("distinct_nontrivial_by_construction", json!(nontrivial.lock().unwrap().len()));
        rep.extra("transitions_into_states_with_a_tracked_height", json!(with_pool.load(Ordering::Relaxed)));
        rep.extra("searches", json!(per_search));
        rep.extra("chain_data_hash_labels", json!(CHAIN.to_vec()));
    }
    finish(
        &ctx,
        rep,
        Spec {
            rule: RULE,
            assumptions: &[
                "Poll means: call PoolTracker::poll until it returns Pending (the swarm's behaviour); single poll steps are not interleaved with other operations",
                "the validation timeout is reached by advancing the paused tokio clock by 120 s + 1 ms; its countdown starts at the first poll after the pool was created (that is when the task's future is first polled)",
                "'announced the data hash of the stored header at that height' is read as: announced that hash value (for whatever height) since the peer was last blocked — the weakest reading, so that no alarm depends on the interpretation",
                "'newest validated height' is the largest height the harness has seen get_pool answer Ok for; the tracker's own head can only be higher",
                "peers are interchangeable: histories are explored up to renaming of peers",
                "de-duplication key includes the tracker's private fields (hook), so two histories are merged only when the tracker itself cannot tell them apart; the pending header tasks are represented by their count plus the harness's started/expired bookkeeping",
            ],
            required_classes: &["add:ignored", "add:new-pool", "add:vote", "add:second-announcement-candidates", "add:to-validated", "add:wrong-hash-to-validated", "poll:validated*", "poll:blocked", "poll:pool-timed-out", "evicted+*"],
            exhaustive: true,
        },
    );
}
