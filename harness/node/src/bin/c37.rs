//! C37 — Header subscriptions deliver a gap-free increasing stream.   (engine E2)
//!
//! System: the real `BroadcastingStore<InMemoryStore>` (through
//! `lumina_node::verif::small::VBroadcastingStore`) on a tokio current-thread runtime with
//! the clock paused, plus two subscriber tasks that drain the broadcast channel: A
//! subscribed before the first `init_broadcast`, B right after it.  On every receipt a
//! subscriber asks the store whether that height is stored.
//!
//! The store starts with the network head 10 only (what `try_init` leaves in an empty
//! store).  Events: `Ins(a,b)` = `announce_insert` of the headers a..=b (accepted or refused
//! by the store), `Hist(k)` = `announce_insert` of a range below the head, `Reinit(h)` = what
//! the syncer does on a reconnection (`try_init`: insert the network head h unless it is
//! the store's head already, then `init_broadcast(h)`).
use celestia_types::ExtendedHeader;
use celestia_types::test_utils::ExtendedHeaderGenerator;
use lumina_node::store::{InMemoryStore, Store};
use lumina_node::verif::small::VBroadcastingStore;
use lv_core::*;
use rayon::prelude::*;
use serde::{Deserialize, Serialize};
use serde_json::{Value, json};
use std::sync::{Arc, Mutex, OnceLock};
use std::time::Duration;
use tokio::sync::broadcast::error::RecvError;

const HEAD: u64 = 10;
const LO: u64 = 11;
const TOP: u64 = 16;
const CHAIN_LEN: u64 = 80;
/// historical ranges (below the head), in the order the syncer would fetch them
const HIST: [(u64, u64); 2] = [(8, 9), (5, 7)];

fn chain() -> &'static Vec<ExtendedHeader> {
    static C: OnceLock<Vec<ExtendedHeader>> = OnceLock::new();
    C.get_or_init(|| ExtendedHeaderGenerator::new().next_many(CHAIN_LEN))
}
fn hdr(h: u64) -> ExtendedHeader {
    chain()[(h - 1) as usize].clone()
}
fn hdrs(a: u64, b: u64) -> Vec<ExtendedHeader> {
    (a..=b).map(hdr).collect()
}

#[derive(Clone, Debug, Serialize, Deserialize, PartialEq)]
enum Ev {
    Ins(u64, u64),
    Hist(usize),
    Reinit(u64),
}

#[derive(Clone, Debug, PartialEq)]
enum Rec {
    /// height, header is the chain's header of that height, stored at the time of receipt
    Got(u64, bool, bool),
    Lagged(u64),
}

type Log = Arc<Mutex<Vec<Rec>>>;

struct Sys {
    bs: VBroadcastingStore<InMemoryStore>,
    store: Arc<InMemoryStore>,
    a: Log,
    b: Log,
    reinits: usize,
}

async fn settle() {
    // paused clock: returns once every other task is blocked
    tokio::time::sleep(Duration::from_millis(1)).await;
}

fn spawn_subscriber(bs: &VBroadcastingStore<InMemoryStore>, store: Arc<InMemoryStore>) -> Log {
    let log: Log = Default::default();
    let mut rx = bs.subscribe();
    let l = log.clone();
    tokio::spawn(async move {
        loop {
            match rx.recv().await {
                Ok(h) => {
                    let height = h.height();
                    let stored = store.has_at(height).await;
                    let genuine = height >= 1 && height <= CHAIN_LEN && h.hash() == hdr(height).hash();
                    l.lock().unwrap().push(Rec::Got(height, genuine, stored));
                }
                Err(RecvError::Lagged(n)) => l.lock().unwrap().push(Rec::Lagged(n)),
                Err(RecvError::Closed) => break,
            }
        }
    });
    log
}

impl Sys {
    async fn new() -> Sys {
        let store = Arc::new(InMemoryStore::new());
        store.insert(hdr(HEAD)).await.expect("head into empty store");
        let mut bs = VBroadcastingStore::new(store.clone());
        let a = spawn_subscriber(&bs, store.clone());
        bs.init_broadcast(hdr(HEAD));
        let b = spawn_subscriber(&bs, store.clone());
        settle().await;
        Sys { bs, store, a, b, reinits: 0 }
    }

    async fn stored(&self) -> Vec<(u64, u64)> {
        self.store.get_stored_header_ranges().await.unwrap().as_ref().iter().map(|r| (*r.start(), *r.end())).collect()
    }

    /// highest H such that HEAD..=H are all stored
    async fn contiguous_top(&self) -> u64 {
        let mut h = HEAD;
        while self.store.has_at(h + 1).await {
            h += 1;
        }
        h
    }

    fn heights(log: &Log) -> Vec<u64> {
        log.lock().unwrap().iter().filter_map(|r| if let Rec::Got(h, ..) = r { Some(*h) } else { None }).collect()
    }

    /// Safety part of the oracle, on the complete logs.
    fn check_streams(&self, viol: &mut Vec<(String, String)>) {
        for (name, log, first) in [("A", &self.a, HEAD), ("B", &self.b, HEAD + 1)] {
            let recs = log.lock().unwrap().clone();
            let mut prev: Option<u64> = None;
            for r in &recs {
                match r {
                    Rec::Lagged(n) => viol.push(("subscriber-lagged".into(), format!("subscriber {name} lagged by {n}"))),
                    Rec::Got(h, genuine, stored) => {
                        match prev {
                            None if *h != first => viol.push((
                                "stream-wrong-start".into(),
                                format!("subscriber {name}: first height {h}, expected {first} (network head {HEAD})"),
                            )),
                            Some(p) if *h != p + 1 => viol.push((
                                if *h <= p { "stream-repeats-or-goes-back" } else { "stream-has-gap" }.into(),
                                format!("subscriber {name}: height {h} after {p}; stream {:?}", Sys::heights(log)),
                            )),
                            _ => {}
                        }
                        if !stored {
                            viol.push(("received-before-stored".into(), format!("subscriber {name} received height {h} that the store does not have")));
                        }
                        if !genuine {
                            viol.push(("received-foreign-header".into(), format!("subscriber {name} received a header at {h} that nobody inserted")));
                        }
                        prev = Some(*h);
                    }
                }
            }
        }
    }

    /// Applies one event, then settles; returns (class, violations).
    async fn apply(&mut self, ev: &Ev) -> (String, Vec<(String, String)>) {
        let mut viol = vec![];
        let last_sent_before = self.bs.last_sent_height().expect("initialised");
        let class;
        match ev {
            Ev::Ins(a, b) => {
                let r = self.bs.announce_insert(hdrs(*a, *b)).await;
                settle().await;
                let forward = *a > last_sent_before;
                class = match (&r, forward) {
                    (Ok(()), true) => "insert:accepted-above-last-sent",
                    (Ok(()), false) => "insert:accepted-below-last-sent",
                    (Err(_), true) => "insert:refused-above-last-sent",
                    (Err(_), false) => "insert:refused-below-last-sent",
                }
                .to_string();
                if r.is_ok() && forward {
                    // completeness: everything stored contiguously above the head is out
                    let top = self.contiguous_top().await;
                    for (name, log) in [("A", &self.a), ("B", &self.b)] {
                        let got = Sys::heights(log).last().copied().unwrap_or(HEAD);
                        if got < top {
                            viol.push((
                                "stored-height-not-delivered".into(),
                                format!(
                                    "after inserting {a}..={b}: heights {HEAD}..={top} are all stored but subscriber {name} has only up to {got}; stored {:?}, pending {:?}",
                                    self.stored().await,
                                    self.bs.pending_heights()
                                ),
                            ));
                        }
                    }
                }
            }
            Ev::Hist(k) => {
                let (a, b) = HIST[*k];
                let r = self.bs.announce_insert(hdrs(a, b)).await;
                settle().await;
                class = if r.is_ok() { "historical:accepted" } else { "historical:refused" }.to_string();
            }
            Ev::Reinit(h) => {
                // try_init: insert the network head unless the store's head is that header
                let head = hdr(*h);
                let store_head = self.store.get_head().await.expect("store is never empty");
                let mut ok = true;
                if store_head.hash() != head.hash() {
                    ok = self.store.insert(head.clone()).await.is_ok();
                }
                if ok {
                    self.bs.init_broadcast(head);
                    self.reinits += 1;
                    class = if *h <= last_sent_before {
                        "reinit:head-already-sent"
                    } else if store_head.height() == *h {
                        "reinit:head-is-store-head"
                    } else {
                        "reinit:new-head"
                    }
                    .to_string();
                } else {
                    class = "reinit:head-refused-by-store".to_string();
                }
                settle().await;
            }
        }
        self.check_streams(&mut viol);
        (class, viol)
    }

    async fn key_string(&self) -> String {
        format!(
            "{:?}|{:?}|{:?}|{:?}|{:?}|{}",
            self.stored().await,
            self.bs.last_sent_height(),
            self.bs.pending_heights(),
            self.a.lock().unwrap(),
            self.b.lock().unwrap(),
            self.reinits
        )
    }

    /// Events enabled in this state.  `Ins` ranges that straddle the last sent height are
    /// excluded: `announce_insert` states that as its precondition (debug_assert), and the
    /// syncer only asks for ranges that are missing from the store.
    async fn enabled(&self, max_reinits: usize) -> Vec<Ev> {
        let ls = self.bs.last_sent_height().unwrap();
        let mut v = vec![];
        for a in LO..=TOP {
            for b in a..=TOP {
                if a <= ls && ls <= b {
                    continue;
                }
                v.push(Ev::Ins(a, b));
            }
        }
        for k in 0..HIST.len() {
            v.push(Ev::Hist(k));
        }
        if self.reinits < max_reinits {
            let sh = self.store.head_height().await.unwrap();
            for h in sh..=TOP {
                v.push(Ev::Reinit(h));
            }
        }
        v
    }
}

fn runtime() -> tokio::runtime::Runtime {
    tokio::runtime::Builder::new_current_thread().enable_time().start_paused(true).build().unwrap()
}

/// Result of running a history on a fresh system.
struct Run {
    /// class + violations of every event
    steps: Vec<(String, Vec<(String, String)>)>,
    key: String,
    enabled: Vec<Ev>,
    stale_pending: bool,
    final_stream: Vec<u64>,
    stored: Vec<(u64, u64)>,
}

/// Replays `hist` (checking every step) on a fresh system.
fn run_history(hist: &[Ev], max_reinits: usize) -> Result<Run, String> {
    guard(|| {
        let rt = runtime();
        rt.block_on(async {
            let mut sys = Sys::new().await;
            let mut steps = vec![];
            for e in hist {
                steps.push(sys.apply(e).await);
            }
            let ls = sys.bs.last_sent_height().unwrap();
            let stale_pending = sys.bs.pending_heights().iter().any(|r| r.last().is_some_and(|h| *h <= ls));
            Run {
                steps,
                key: sys.key_string().await,
                enabled: sys.enabled(max_reinits).await,
                stale_pending,
                final_stream: Sys::heights(&sys.a),
                stored: sys.stored().await,
            }
        })
    })
}

// ------------------------------------------------------------------------------- E2 (BFS)

#[derive(Clone)]
struct St {
    hist: Vec<Ev>,
    enabled: Vec<Ev>,
}

fn run_bfs(max_reinits: usize, depth: usize, wall: u64, max_states: usize, rep: &mut Report) {
    let init = run_history(&[], max_reinits).expect("initial system");
    for (k, w) in init.steps.iter().flat_map(|s| s.1.clone()) {
        rep.violation(&k, w, json!({"history": []}));
    }
    let cfg = BfsConfig { max_depth: depth, max_states, wall_cap: Duration::from_secs(wall), dedup: true };
    let stale = std::sync::atomic::AtomicU64::new(0);
    bfs(
        St { hist: vec![], enabled: init.enabled.clone() },
        fnv64(init.key.as_bytes()),
        &cfg,
        |s| s.enabled.clone(),
        |s, ev| {
            let mut hist = s.hist.clone();
            hist.push(ev.clone());
            match run_history(&hist, max_reinits) {
                Ok(run) => {
                    let (class, violations) = run.steps.last().cloned().unwrap();
                    if run.stale_pending {
                        stale.fetch_add(1, std::sync::atomic::Ordering::Relaxed);
                    }
                    Step { next: St { hist, enabled: run.enabled }, key: fnv64(run.key.as_bytes()), class, violations }
                }
                Err(p) => Step {
                    next: St { hist: hist.clone(), enabled: vec![] },
                    key: fnv64(format!("panic{hist:?}").as_bytes()),
                    class: "panic".into(),
                    violations: vec![("panic".into(), format!("{ev:?} panicked: {p}"))],
                },
            }
        },
        rep,
    );
    rep.extra("transitions_into_state_with_stale_pending_entry", json!(stale.into_inner()));
}

// ------------------------------------------------------------------------------- E1 (partitions)

/// All ordered partitions of LO..=TOP into contiguous ranges.
fn compositions() -> Vec<Vec<(u64, u64)>> {
    let n = (TOP - LO) as u32; // number of possible cut points
    (0..1u32 << n)
        .map(|cuts| {
            let mut v = vec![];
            let mut start = LO;
            for i in 0..n {
                if cuts >> i & 1 == 1 {
                    v.push((start, LO + i as u64));
                    start = LO + i as u64 + 1;
                }
            }
            v.push((start, TOP));
            v
        })
        .collect()
}

/// Extra events interleaved into a partition history (thorough): relative to the state
/// at the position where they are inserted.
#[derive(Clone, Copy, Debug, Serialize, Deserialize, PartialEq)]
enum Extra {
    Hist0,
    Hist1,
    /// re-initialisation with head = last sent + d (d = 0, 1, 2), if the store allows it
    ReinitLastSentPlus(u64),
    /// re-initialisation with the store's head (beyond any pending range), and head + 1
    ReinitStoreHeadPlus(u64),
    /// an insert the store must refuse: the first piece inserted so far, again
    Repeat,
}

const EXTRAS: [Extra; 8] = [
    Extra::Hist0,
    Extra::Hist1,
    Extra::ReinitLastSentPlus(0),
    Extra::ReinitLastSentPlus(1),
    Extra::ReinitLastSentPlus(2),
    Extra::ReinitStoreHeadPlus(0),
    Extra::ReinitStoreHeadPlus(1),
    Extra::Repeat,
];

/// Runs one partition history: `order[i]` indexes `pieces`; `extra = (position, what)`.
/// At the end the pieces the store refused are offered again until nothing changes.
fn run_partition(pieces: &[(u64, u64)], order: &[usize], extra: Option<(usize, Extra)>) -> Result<(Vec<Ev>, Run), String> {
    guard(|| {
        let rt = runtime();
        rt.block_on(async {
            let mut sys = Sys::new().await;
            let mut steps = vec![];
            let mut hist: Vec<Ev> = vec![];
            let mut refused: Vec<(u64, u64)> = vec![];
            for pos in 0..=order.len() {
                if let Some((p, x)) = extra {
                    if p == pos {
                        let ls = sys.bs.last_sent_height().unwrap();
                        let sh = sys.store.head_height().await.unwrap();
                        let ev = match x {
                            Extra::Hist0 => Some(Ev::Hist(0)),
                            Extra::Hist1 => Some(Ev::Hist(1)),
                            Extra::ReinitLastSentPlus(d) => (ls + d >= sh && ls + d <= TOP + 1).then_some(Ev::Reinit(ls + d)),
                            Extra::ReinitStoreHeadPlus(d) => (sh + d <= TOP + 1).then_some(Ev::Reinit(sh + d)),
                            Extra::Repeat => hist.iter().find_map(|e| match e {
                                Ev::Ins(a, b) if !(*a <= ls && ls <= *b) => Some(Ev::Ins(*a, *b)),
                                _ => None,
                            }),
                        };
                        if let Some(ev) = ev {
                            steps.push(sys.apply(&ev).await);
                            hist.push(ev);
                        }
                    }
                }
                if pos < order.len() {
                    let (a, b) = pieces[order[pos]];
                    let ls = sys.bs.last_sent_height().unwrap();
                    if a <= ls && ls <= b {
                        // a re-initialisation head landed inside this piece and was sent:
                        // the syncer would never ask for this range any more
                        continue;
                    }
                    let ev = Ev::Ins(a, b);
                    let s = sys.apply(&ev).await;
                    if s.0.starts_with("insert:refused") {
                        refused.push((a, b));
                    }
                    steps.push(s);
                    hist.push(ev);
                }
            }
            // the syncer asks again for what is still missing
            loop {
                let mut progress = false;
                let mut still = vec![];
                for (a, b) in refused.drain(..) {
                    let ls = sys.bs.last_sent_height().unwrap();
                    if a <= ls && ls <= b {
                        continue;
                    }
                    let ev = Ev::Ins(a, b);
                    let s = sys.apply(&ev).await;
                    if s.0.starts_with("insert:refused") {
                        still.push((a, b));
                    } else {
                        progress = true;
                    }
                    steps.push(s);
                    hist.push(ev);
                }
                refused = still;
                if !progress || refused.is_empty() {
                    break;
                }
            }
            let run = Run {
                steps,
                key: String::new(),
                enabled: vec![],
                stale_pending: false,
                final_stream: Sys::heights(&sys.a),
                stored: sys.stored().await,
            };
            (hist, run)
        })
    })
}

fn record_run(rep: &mut Report, hist: &[Ev], run: &Run, pure: bool) {
    for (i, (class, viol)) in run.steps.iter().enumerate() {
        rep.case_nokey(class);
        for (k, w) in viol {
            rep.violation(k, w.clone(), json!({"history": hist[..=i.min(hist.len() - 1)]}));
        }
    }
    if pure {
        // no re-initialisation: at the end everything is stored and everything was delivered
        let want: Vec<u64> = (HEAD..=TOP).collect();
        let all_stored = run.stored.iter().any(|(s, e)| *s <= HEAD && *e >= TOP);
        rep.case_nokey(if all_stored { "partition:complete" } else { "partition:incomplete" });
        if !all_stored {
            rep.violation("partition-not-storable".into(), format!("pieces could not all be inserted: stored {:?}", run.stored), json!({"history": hist}));
        } else if run.final_stream != want {
            rep.violation(
                "stored-height-not-delivered".into(),
                format!("all of {HEAD}..={TOP} stored but the subscriber saw {:?}", run.final_stream),
                json!({"history": hist}),
            );
        }
    }
}

fn run_partitions(with_extras: bool, rep: &mut Report) -> (u64, u64) {
    let mut cases: Vec<(Vec<(u64, u64)>, Vec<usize>)> = vec![];
    let mut comps = compositions();
    comps.sort_by_key(|c| c.len());
    for c in comps {
        for p in permutations(c.len()) {
            cases.push((c.clone(), p));
        }
    }
    let pure = cases.len() as u64;
    let r = par_cases(cases.clone(), |(pieces, order), rep| match run_partition(&pieces, &order, None) {
        Ok((hist, run)) => record_run(rep, &hist, &run, true),
        Err(p) => {
            rep.case_nokey("panic");
            rep.violation("panic", p, json!({"pieces": pieces, "order": order}));
        }
    });
    rep.merge_in(r);
    let mut mixed = 0;
    if with_extras {
        let all: Vec<(Vec<(u64, u64)>, Vec<usize>, usize, Extra)> = cases
            .iter()
            .flat_map(|(c, o)| (0..=o.len()).flat_map(move |pos| EXTRAS.iter().map(move |x| (c.clone(), o.clone(), pos, *x))))
            .collect();
        mixed = all.len() as u64;
        let r = par_cases(all, |(pieces, order, pos, x), rep| match run_partition(&pieces, &order, Some((pos, x))) {
            Ok((hist, run)) => record_run(rep, &hist, &run, false),
            Err(p) => {
                rep.case_nokey("panic");
                rep.violation("panic", p, json!({"pieces": pieces, "order": order, "extra": [json!(pos), json!(x)]}));
            }
        });
        rep.merge_in(r);
    }
    (pure, mixed)
}

// ------------------------------------------------------------------------------- long ranges

/// One range longer than the broadcast channel (capacity 16) with draining subscribers:
/// nothing may be lost.
fn run_long(len: u64, rep: &mut Report) {
    let case = json!({"long_range": len});
    let r = guard(|| {
        runtime().block_on(async {
            let mut sys = Sys::new().await;
            let s = sys.apply(&Ev::Ins(LO, LO + len - 1)).await;
            (s, Sys::heights(&sys.a))
        })
    });
    match r {
        Err(p) => {
            rep.case_nokey("panic");
            rep.violation("panic", p, case);
        }
        Ok(((class, viol), stream)) => {
            rep.case_nokey(&format!("long-range:{class}"));
            for (k, w) in viol {
                rep.violation(&k, w, case.clone());
            }
            let want: Vec<u64> = (HEAD..LO + len).collect();
            if stream != want {
                rep.violation("stored-height-not-delivered", format!("range of {len} headers: subscriber saw {stream:?}"), case);
            }
        }
    }
}

fn main() {
    let ctx = Ctx::from_args("C37");
    let mut rep = Report::new();
    rep.sample_cap = 8;
    let _ = chain();

    if let Some(c) = ctx.replay_case() {
        replay(&ctx, &c, &mut rep);
    } else {
        let (pure, mixed) = run_partitions(!ctx.quick(), &mut rep);
        for len in [15, 16, 17, 33, 64] {
            run_long(len, &mut rep);
        }
        let e1 = rep.evaluations;
        let mut b = Report::new();
        run_bfs(ctx.tier.pick(2, 3), ctx.tier.pick(7, 16), ctx.tier.pick(45, 700), ctx.tier.pick(400_000, 4_000_000), &mut b);
        let bfs_states = b.states;
        rep.merge_in(b);
        rep.extra("partition_histories", json!(pure));
        rep.extra("partition_histories_with_one_extra_event", json!(mixed));
        rep.extra("e1_events_applied", json!(e1));
        rep.extra("bfs_states", json!(bfs_states));
        rep.extra("distinct_by_construction", json!(pure + mixed + 5 + bfs_states));
        rep.extra("distinct_nontrivial_by_construction", json!(pure + mixed + bfs_states - 1));
    }
    rep.violations.sort_by_key(|v| (v.key.clone(), v.case.to_string().len()));
    finish(
        &ctx,
        rep,
        Spec {
            rule: "real BroadcastingStore<InMemoryStore>, network head 10 stored, two draining subscribers (one from before the first init_broadcast, one from after it). (1) every ordered partition of 11..=16 into contiguous ranges in every insertion order (1631 histories); pieces the store refuses (no adjacent neighbour) are offered again at the end, then 10..=16 must have been delivered exactly; thorough: each of them with one extra event inserted at every position from {historical insert 8..=9, historical insert 5..=7, re-initialisation with head = last sent +0/+1/+2, with the store head +0/+1, repeated (refused) insert}. (2) BFS over all event histories with de-duplication on (stored ranges, last sent height, pending list in order, both subscribers' logs, re-initialisations used): events = announce_insert of every range a..=b in 11..=16 that does not straddle the last sent height (accepted or refused by the store), the two historical ranges in any order, re-initialisation with any head from the store head to 16 (at most 2 (q) / 3 (t) per history); depth 7 (q) / until no new state appears (t; reached before depth 16). (3) single ranges of 15,16,17,33,64 headers against the 16-slot channel. After every event: each subscriber's stream is consecutive (+1), starts at the head (A) / head+1 (B), every received header is a genuine one and stored at the moment of receipt, no Lagged; after every accepted insert above the last sent height: every height stored contiguously above the head has been delivered",
            assumptions: &[
                "the first init_broadcast itself broadcasts the network head (already stored by try_init): a subscriber that exists before it sees head, head+1, ...; one that subscribes after it sees head+1, ... — both are accepted as 'starting after that head'",
                "a re-initialisation head is stored by try_init, not by announce_insert; the code delivers it on the next accepted announce_insert ('sorted out on next insert'), so completeness is demanded after every accepted insert above the last sent height, not after a re-initialisation alone",
                "Ins ranges that contain the last sent height are not generated (announce_insert's debug_assert precondition; the syncer only asks for missing ranges)",
                "subscribers drain promptly (they are always ready to receive); a slow subscriber can lag on the 16-slot broadcast channel by design",
                "S17 (DESIGN §5): a re-initialisation head at or below the last sent height stays in `pending` forever; counted in transitions_into_state_with_stale_pending_entry, it causes no stream violation",
            ],
            required_classes: &[
                "insert:accepted-above-last-sent", "insert:refused-above-last-sent", "insert:refused-below-last-sent",
                "historical:accepted", "historical:refused", "reinit:new-head", "reinit:head-is-store-head",
                "reinit:head-already-sent", "partition:complete", "long-range:insert:accepted-above-last-sent",
            ],
            exhaustive: true,
        },
    );
}

fn replay(ctx: &Ctx, c: &Value, rep: &mut Report) {
    if let Some(h) = c.get("history") {
        let hist: Vec<Ev> = serde_json::from_value(h.clone()).expect("history");
        match run_history(&hist, usize::MAX) {
            Ok(run) => {
                for (i, (class, viol)) in run.steps.iter().enumerate() {
                    rep.case_nokey(class);
                    for (k, w) in viol {
                        rep.violation(k, w.clone(), json!({"history": hist[..=i]}));
                    }
                }
                // end-of-history completeness for pure partition histories
                let pure = hist.iter().all(|e| matches!(e, Ev::Ins(..)));
                let all_stored = run.stored.iter().any(|(s, e)| *s <= HEAD && *e >= TOP);
                if pure && all_stored && run.final_stream != (HEAD..=TOP).collect::<Vec<u64>>() {
                    rep.violation("stored-height-not-delivered", format!("subscriber saw {:?}", run.final_stream), json!({"history": hist}));
                }
            }
            Err(p) => rep.violation("panic", p, json!({"history": hist})),
        }
    } else if let Some(l) = c.get("long_range") {
        run_long(l.as_u64().unwrap(), rep);
    } else if c.get("pieces").is_some() {
        let pieces: Vec<(u64, u64)> = serde_json::from_value(c["pieces"].clone()).unwrap();
        let order: Vec<usize> = serde_json::from_value(c["order"].clone()).unwrap();
        let extra: Option<(usize, Extra)> = c.get("extra").map(|e| (e[0].as_u64().unwrap() as usize, serde_json::from_value(e[1].clone()).unwrap()));
        match run_partition(&pieces, &order, extra) {
            Ok((hist, run)) => record_run(rep, &hist, &run, extra.is_none()),
            Err(p) => rep.violation("panic", p, c.clone()),
        }
    } else {
        machinery_error(&ctx.id, "unknown replay case");
    }
}
