//! C28 — Header-ex client accepts only well-formed, validated responses.   (engine E1)
//!
//! Code under test: `decode_and_verify_responses` (node/src/p2p/header_ex/client.rs) through
//! `lumina_node::verif::header_ex::decode_and_verify_responses`.
//!
//! Space: every request of a fixed list (height requests origin x amount, a hash request, a
//! head request, height requests with an origin at / above the largest representable
//! height) x **every** response list of length 0..=L over a 15-entry alphabet built around
//! the request's origin.  Oracle (from the statement, three-valued, see `oracle`):
//!   * a *clean* response (non-empty, at most `amount` entries, every entry an individually
//!     valid header, heights exactly start, start+1, ...; hash request: one header with that
//!     hash; head request: one header) must be accepted and returned unchanged;
//!   * a response that contains no individually valid header for `start` (resp. with the
//!     hash / at all) cannot be read as such a run in any way: must be an error;
//!   * anything in between may be refused, and if it is accepted the accepted value must
//!     itself be such a run, made only of validated headers that are in the response.
use celestia_proto::p2p::pb::header_request::Data;
use celestia_proto::p2p::pb::{HeaderRequest, HeaderResponse};
use celestia_types::ExtendedHeader;
use celestia_types::test_utils::{ExtendedHeaderGenerator, invalidate};
use lumina_node::verif::header_ex::decode_and_verify_responses;
use lv_core::*;
use serde_json::{Value, json};
use tendermint_proto::Protobuf;

#[path = "../shared/hex_common.rs"]
mod hex_common;
use hex_common::block_on;

const ST_INVALID: i32 = 0;
const ST_OK: i32 = 1;
const ST_NOT_FOUND: i32 = 2;
const ST_UNKNOWN: i32 = 7;

struct Entry {
    label: String,
    resp: HeaderResponse,
    /// the header this entry carries if it is an individually valid header with status OK
    valid: Option<ExtendedHeader>,
    /// the header the body decodes to although the entry is not a validated header
    unvalidated: Option<ExtendedHeader>,
}

impl Entry {
    fn height(&self) -> Option<u64> {
        self.valid.as_ref().map(|h| h.height())
    }
    fn hash(&self) -> Option<Vec<u8>> {
        self.valid.as_ref().map(|h| h.hash().as_bytes().to_vec())
    }
}

struct Alphabet {
    name: String,
    entries: Vec<Entry>,
}

impl Alphabet {
    fn idx(&self, label: &str) -> Option<usize> {
        self.entries.iter().position(|e| e.label == label)
    }
}

fn ok_resp(h: &ExtendedHeader) -> HeaderResponse {
    HeaderResponse {
        body: h.clone().encode_vec(),
        status_code: ST_OK,
    }
}

/// Alphabet around origin `o`: valid@max(1,o-1)..=o+4, fork@o, fork@o+1, a decodable but
/// invalid header @o, a bit-flipped body, an empty body, NotFound, Invalid, an unknown status
/// code and NotFound each carrying the valid body @o.  `extra_top`: additionally a valid header
/// at height 2^63-1 (largest representable).
fn alphabet(o: u64, extra_top: bool, seed: u64) -> Alphabet {
    let lo = o.saturating_sub(1).max(1);
    let mut g = ExtendedHeaderGenerator::new_from_height(lo);
    let chain: Vec<ExtendedHeader> = g.next_many(o + 4 - lo + 1);
    let at = |h: u64| chain[(h - lo) as usize].clone();
    let mut entries = vec![];
    for h in &chain {
        entries.push(Entry {
            label: format!("valid@{}", h.height()),
            resp: ok_resp(h),
            valid: Some(h.clone()),
            unvalidated: None,
        });
    }
    for h in [o, o + 1] {
        let f = g.another_of(&at(h));
        entries.push(Entry {
            label: format!("fork@{h}"),
            resp: ok_resp(&f),
            valid: Some(f),
            unvalidated: None,
        });
    }
    {
        let mut bad = at(o);
        invalidate(&mut bad);
        entries.push(Entry {
            label: format!("invalidated@{o}"),
            resp: ok_resp(&bad),
            valid: None,
            unvalidated: Some(bad),
        });
    }
    {
        // flip one bit of the encoded valid header; position from the payload seed, moved on
        // until the result is not a valid header any more (decided by celestia-types, which is
        // not the code under test here)
        let body = at(o).encode_vec();
        let mut pos = (Fill::new(seed, 28).next_u64() as usize) % body.len();
        let flipped = loop {
            let mut b = body.clone();
            b[pos] ^= 0x10;
            let still_valid = ExtendedHeader::decode(&b[..]).ok().is_some_and(|h| h.validate().is_ok());
            if !still_valid {
                break b;
            }
            pos = (pos + 1) % body.len();
        };
        let dec = ExtendedHeader::decode(&flipped[..]).ok();
        entries.push(Entry {
            label: format!("bitflip@{o}"),
            resp: HeaderResponse {
                body: flipped,
                status_code: ST_OK,
            },
            valid: None,
            unvalidated: dec,
        });
    }
    entries.push(Entry {
        label: "emptybody".into(),
        resp: HeaderResponse {
            body: vec![],
            status_code: ST_OK,
        },
        valid: None,
        unvalidated: None,
    });
    entries.push(Entry {
        label: "notfound".into(),
        resp: HeaderResponse {
            body: vec![],
            status_code: ST_NOT_FOUND,
        },
        valid: None,
        unvalidated: None,
    });
    entries.push(Entry {
        label: "invalid".into(),
        resp: HeaderResponse {
            body: vec![],
            status_code: ST_INVALID,
        },
        valid: None,
        unvalidated: None,
    });
    entries.push(Entry {
        label: format!("unknown{ST_UNKNOWN}+valid@{o}"),
        resp: HeaderResponse {
            body: at(o).encode_vec(),
            status_code: ST_UNKNOWN,
        },
        valid: None,
        unvalidated: Some(at(o)),
    });
    entries.push(Entry {
        label: format!("notfound+valid@{o}"),
        resp: HeaderResponse {
            body: at(o).encode_vec(),
            status_code: ST_NOT_FOUND,
        },
        valid: None,
        unvalidated: Some(at(o)),
    });
    if extra_top {
        let top = i64::MAX as u64;
        if let Ok(h) = guard(|| ExtendedHeaderGenerator::new_from_height(top).next()) {
            entries.push(Entry {
                label: format!("valid@{top}"),
                resp: ok_resp(&h),
                valid: Some(h),
                unvalidated: None,
            });
        }
    }
    // fixture sanity: the classification above against celestia-types' own decode+validate
    for e in &entries {
        let really = e.resp.status_code == ST_OK
            && ExtendedHeader::decode(&e.resp.body[..]).ok().is_some_and(|h| h.validate().is_ok());
        if really != e.valid.is_some() {
            machinery_error("C28", &format!("fixture entry {} misclassified", e.label));
        }
    }
    Alphabet {
        name: format!("around{o}{}", if extra_top { "+top" } else { "" }),
        entries,
    }
}

#[derive(Clone, Debug)]
enum Kind {
    Height { start: u64 },
    Hash { hash: Vec<u8> },
    Head,
}

struct Req {
    label: String,
    kind: Kind,
    amount: u64,
    request: HeaderRequest,
    alpha: usize,
}

fn requests(alphas: &mut Vec<Alphabet>, seed: u64, max_amount: u64) -> Vec<Req> {
    let mut reqs = vec![];
    for o in [1u64, 2, 5] {
        alphas.push(alphabet(o, false, seed));
        let a = alphas.len() - 1;
        for amount in 1..=max_amount {
            reqs.push(Req {
                label: format!("height:{o}x{amount}"),
                kind: Kind::Height { start: o },
                amount,
                request: HeaderRequest {
                    data: Some(Data::Origin(o)),
                    amount,
                },
                alpha: a,
            });
        }
    }
    // hash / head requests use the alphabet around 2 (index 1)
    let a2 = 1;
    let known = alphas[a2].entries[alphas[a2].idx("valid@2").unwrap()].hash().unwrap();
    reqs.push(Req {
        label: "hash:valid@2".into(),
        kind: Kind::Hash { hash: known.clone() },
        amount: 1,
        request: HeaderRequest {
            data: Some(Data::Hash(known)),
            amount: 1,
        },
        alpha: a2,
    });
    reqs.push(Req {
        label: "head".into(),
        kind: Kind::Head,
        amount: 1,
        request: HeaderRequest {
            data: Some(Data::Origin(0)),
            amount: 1,
        },
        alpha: a2,
    });
    // S16: origins at / above the largest representable height
    alphas.push(alphabet(2, true, seed));
    let atop = alphas.len() - 1;
    for o in [i64::MAX as u64 - 1, i64::MAX as u64, 1u64 << 63, u64::MAX - 1, u64::MAX] {
        for amount in 1..=2u64 {
            reqs.push(Req {
                label: format!("height:{o}x{amount}"),
                kind: Kind::Height { start: o },
                amount,
                request: HeaderRequest {
                    data: Some(Data::Origin(o)),
                    amount,
                },
                alpha: atop,
            });
        }
    }
    reqs
}

struct Verdict {
    class: String,
    violation: Option<(&'static str, String)>,
}

/// The oracle, written from the statement only.
fn oracle(req: &Req, alpha: &Alphabet, idxs: &[u8], got: &Result<Result<Vec<ExtendedHeader>, String>, String>) -> Verdict {
    let es: Vec<&Entry> = idxs.iter().map(|i| &alpha.entries[*i as usize]).collect();
    let matches_start = |e: &Entry| match &req.kind {
        Kind::Height { start } => e.height() == Some(*start),
        Kind::Hash { hash } => e.hash().as_ref() == Some(hash),
        Kind::Head => e.valid.is_some(),
    };
    let all_valid = es.iter().all(|e| e.valid.is_some());
    let clean = !es.is_empty()
        && es.len() as u64 <= req.amount
        && all_valid
        && match &req.kind {
            Kind::Height { start } => es.iter().enumerate().all(|(i, e)| start.checked_add(i as u64) == e.height()),
            Kind::Hash { .. } => es.len() == 1 && matches_start(es[0]),
            Kind::Head => es.len() == 1,
        };
    // is there any way at all to read a run (of length >= 1) out of this response?
    let readable = es.iter().any(|e| matches_start(e));

    match got {
        Err(p) => Verdict {
            class: "panic".into(),
            violation: Some(("panic", format!("decode_and_verify_responses panicked: {p}"))),
        },
        Ok(Err(kind)) => {
            if clean {
                Verdict {
                    class: format!("reject:{kind}"),
                    violation: Some(("clean-response-rejected", format!("a clean response was refused with {kind}"))),
                }
            } else if readable {
                Verdict {
                    class: format!("reject:may:{kind}"),
                    violation: None,
                }
            } else {
                Verdict {
                    class: format!("reject:must:{kind}"),
                    violation: None,
                }
            }
        }
        Ok(Ok(r)) => {
            let v = |k: &'static str, w: String| Verdict {
                class: "accept:bad".into(),
                violation: Some((k, w)),
            };
            if r.is_empty() {
                return v("accepted-empty", "accepted with an empty header list".into());
            }
            // "of at most the requested amount": a response carrying more entries than were
            // requested is oversized whatever the surplus entries are (the quantifier lists
            // oversized responses); it cannot be read as a response to this request.
            if es.len() as u64 > req.amount {
                return v(
                    "oversized-response-accepted",
                    format!("a response of {} entries was accepted for amount {}", es.len(), req.amount),
                );
            }
            if r.len() as u64 > req.amount {
                return v("accepted-more-than-amount", format!("{} headers accepted for amount {}", r.len(), req.amount));
            }
            // every accepted header is a validated header of the response (multiset inclusion)
            let mut used = vec![false; es.len()];
            for h in r {
                let slot = (0..es.len()).find(|j| !used[*j] && es[*j].valid.as_ref() == Some(h));
                match slot {
                    Some(j) => used[j] = true,
                    None => {
                        let unval = es.iter().any(|e| e.unvalidated.as_ref() == Some(h));
                        return if unval {
                            v("accepted-unvalidated-header", format!("accepted a header (height {}) carried by an entry that is not a validated header", h.height()))
                        } else {
                            v("accepted-header-not-in-response", format!("accepted header at height {} is not (or not that often) in the response", h.height()))
                        };
                    }
                }
            }
            match &req.kind {
                Kind::Height { start } => {
                    for (i, h) in r.iter().enumerate() {
                        if start.checked_add(i as u64) != Some(h.height()) {
                            let hs: Vec<u64> = r.iter().map(|h| h.height()).collect();
                            return v("accepted-wrong-heights", format!("accepted heights {hs:?} for start {start}"));
                        }
                    }
                }
                Kind::Hash { hash } => {
                    if r.len() != 1 {
                        return v("hash-accepted-multiple", format!("{} headers accepted for a hash request", r.len()));
                    }
                    if r[0].hash().as_bytes() != &hash[..] {
                        return v("accepted-wrong-hash", "accepted a header with another hash".into());
                    }
                }
                Kind::Head => {
                    if r.len() != 1 {
                        return v("head-accepted-multiple", format!("{} headers accepted for a head request", r.len()));
                    }
                }
            }
            if clean {
                let same = r.len() == es.len() && r.iter().zip(&es).all(|(h, e)| e.valid.as_ref() == Some(h));
                if !same {
                    return v("clean-response-altered", "a clean response was accepted but not returned as sent".into());
                }
                return Verdict {
                    class: "accept:clean".into(),
                    violation: None,
                };
            }
            // tolerated readings (sound value out of an unclean response): name the shape
            let lead = es.iter().take_while(|e| e.valid.is_some()).count();
            let shape = if all_valid {
                "reordered"
            } else if r.len() == lead {
                "valid-prefix-before-junk"
            } else {
                "other"
            };
            Verdict {
                class: format!("accept:tolerated:{shape}"),
                violation: None,
            }
        }
    }
}

fn eval(req: &Req, alpha: &Alphabet, idxs: &[u8], rep: &mut Report) {
    let responses: Vec<HeaderResponse> = idxs.iter().map(|i| alpha.entries[*i as usize].resp.clone()).collect();
    let got = guard(|| {
        block_on(decode_and_verify_responses(&req.request, &responses)).map_err(|e| format!("{e:?}").split(['(', ' ']).next().unwrap_or("").to_string())
    });
    let verdict = oracle(req, alpha, idxs, &got);
    let labels: Vec<&str> = idxs.iter().map(|i| alpha.entries[*i as usize].label.as_str()).collect();
    let key = fnv64(format!("{}|{}|{:?}", req.label, alpha.name, idxs).as_bytes());
    let nontrivial = !idxs.is_empty() && idxs.len() as u64 <= req.amount && idxs.iter().any(|i| alpha.entries[*i as usize].valid.is_some());
    rep.case(key, &verdict.class, nontrivial);
    let case = || json!({"request": req.label, "alphabet": alpha.name, "entries": labels});
    if rep.wants_sample() && key % 9973 == 7 {
        rep.sample(|| {
            json!({"case": case(), "result": match &got {
            Ok(Ok(r)) => json!({"accepted_heights": r.iter().map(|h| h.height()).collect::<Vec<_>>()}),
            Ok(Err(k)) => json!({"error": k}),
            Err(p) => json!({"panic": p}),
        }, "class": verdict.class})
        });
    }
    if let Some((k, what)) = verdict.violation {
        rep.violation(k, what, case());
    }
}

/// All index vectors of length `len` over `n` symbols that start with `prefix`.
fn for_each_list(n: usize, len: usize, prefix: &[u8], f: &mut dyn FnMut(&[u8])) {
    let mut cur: Vec<u8> = prefix.to_vec();
    cur.resize(len, 0);
    let p = prefix.len();
    loop {
        f(&cur);
        let mut i = len;
        loop {
            if i == p {
                return;
            }
            i -= 1;
            if (cur[i] as usize) + 1 < n {
                cur[i] += 1;
                for c in cur.iter_mut().skip(i + 1) {
                    *c = 0;
                }
                break;
            }
        }
    }
}

fn main() {
    let ctx = Ctx::from_args("C28");
    let max_len: usize = ctx.tier.pick(4, 5);
    let max_amount: u64 = ctx.tier.pick(4, 5);
    let mut alphas: Vec<Alphabet> = vec![];
    let reqs = requests(&mut alphas, ctx.seed, max_amount);

    let rep = if let Some(c) = ctx.replay_case() {
        let mut rep = Report::new();
        let rl = c["request"].as_str().unwrap_or_default();
        let Some(req) = reqs.iter().find(|r| r.label == rl) else {
            machinery_error("C28", &format!("replay: unknown request {rl}"));
        };
        let alpha = &alphas[req.alpha];
        let idxs: Vec<u8> = c["entries"]
            .as_array()
            .map(|a| {
                a.iter()
                    .map(|l| alpha.idx(l.as_str().unwrap_or_default()).unwrap_or_else(|| machinery_error("C28", &format!("replay: unknown entry {l}"))) as u8)
                    .collect()
            })
            .unwrap_or_default();
        eval(req, alpha, &idxs, &mut rep);
        rep
    } else {
        // units ordered by list length (simplest first), then request, then 2-entry prefix
        let mut units: Vec<(usize, usize, Vec<u8>)> = vec![];
        for len in 0..=max_len {
            for (ri, r) in reqs.iter().enumerate() {
                let n = alphas[r.alpha].entries.len();
                match len {
                    0 => units.push((0, ri, vec![])),
                    1 => (0..n).for_each(|a| units.push((1, ri, vec![a as u8]))),
                    _ => {
                        for a in 0..n {
                            for b in 0..n {
                                units.push((len, ri, vec![a as u8, b as u8]));
                            }
                        }
                    }
                }
            }
        }
        let mut rep = par_cases(units, |(len, ri, prefix), rep| {
            let req = &reqs[ri];
            let alpha = &alphas[req.alpha];
            for_each_list(alpha.entries.len(), len, &prefix, &mut |idxs| eval(req, alpha, idxs, rep));
        });
        rep.extra("requests", json!(reqs.iter().map(|r| r.label.clone()).collect::<Vec<_>>()));
        rep.extra(
            "alphabets",
            Value::Object(alphas.iter().map(|a| (a.name.clone(), json!(a.entries.iter().map(|e| e.label.clone()).collect::<Vec<_>>()))).collect()),
        );
        rep.extra("max_list_len", json!(max_len));
        rep
    };
    finish(
        &ctx,
        rep,
        Spec {
            rule: "requests {height origin∈{1,2,5} x amount 1..A} ∪ {hash of valid@2, head} ∪ {height origin∈{2^63-2, 2^63-1, 2^63, u64::MAX-1, u64::MAX} x amount 1..2} x ALL response lists of length 0..=L (L=A=4 quick, 5 thorough) over the 15-entry alphabet around the origin {valid@max(1,o-1)..o+4, fork@o, fork@o+1, invalidated@o (decodes, fails validate), bitflip@o, empty body, NotFound, Invalid, unknown status 7 + valid body, NotFound + valid body} (+ valid@2^63-1 for the top origins); distinct = (request, list); non-trivial = non-empty list of at most `amount` entries containing at least one validated header",
            assumptions: &[
                "headers come from celestia_types::test_utils::ExtendedHeaderGenerator (single validator, key from thread_rng): the property does not depend on key material; VERIF_SEED only picks the flipped bit",
                "which alphabet entries are 'individually validated headers' is decided once per entry by celestia-types' decode + validate() (not the code under test of this property, see C01-C03)",
                "reading of the statement: it constrains what is accepted (the accepted value is a non-empty run start, start+1, .. of at most `amount` validated headers of the response) and requires clean responses to be accepted unchanged; responses that are not clean but contain a validated header for `start` (re-ordered entries, validated entries followed by junk, surplus entries) may be refused or read as such a run, but a response with more entries than the requested amount must be refused whatever the surplus entries are - the repo's own tests request_range_responds_with_unsorted_headers / .._invalid_headaer_in_the_middle pin that the client sorts and keeps the validated prefix; the classes accept:tolerated:* count them",
                "requests are valid ones (HeaderRequestExt::is_valid), as the handler guarantees before decode_and_verify_responses runs",
            ],
            required_classes: &["accept:clean", "reject:must*"],
            exhaustive: true,
        },
    );
}
