//! C10 — Bitswap accepts Shwap blocks only when they verify against the DAH.  (engine E1)
//!
//! Code under test: `ShwapMultihasher::hash` (node/src/p2p/shwap.rs) through
//! `lumina_node::verif::shwap::shwap_multihash`, with a real `InMemoryStore` that holds the
//! headers of heights 1..=3 (real DAHs of squares written by the harness).  A small side
//! check covers `get_block_container` (the CID equality named by the property's anchors).
//!
//! Oracle (written from the statement, byte level, shares no code with /repo): the input is
//! parsed with the generic protobuf structs and a hand-written CID parser; `Ok(h)` is
//! legal only if the multihash code is a shwap code, the embedded CID is an identifier of
//! that very kind, a header is stored at its height, the container's shares are exactly
//! what the square committed by that header holds at the identifier's coordinates
//! (brute-force look-up in the raw share matrix), and `h` is the multihash of the embedded
//! identifier.  Codes other than the three shwap codes must give `UnknownMultihashCode`.
#[path = "../shared/shwap_squares.rs"]
mod shwap_squares;

use std::collections::BTreeMap;
use std::sync::Arc;

use celestia_proto::bitswap::Block;
use celestia_proto::shwap::{
    Row as RawRow, RowNamespaceData as RawRnd, Sample as RawSample, Share as RawShare,
};
use celestia_types::nmt::Namespace;
use celestia_types::row::Row;
use celestia_types::sample::Sample;
use celestia_types::test_utils::ExtendedHeaderGenerator;
use celestia_types::AxisType;
use lumina_node::store::{InMemoryStore, Store};
use lumina_node::verif::shwap::{get_block_container, shwap_multihash};
use lv_core::*;
use prost::Message;
use serde::{Deserialize, Serialize};
use serde_json::json;
use shwap_squares::*;

const RULE: &str = "store: headers 1..=3 with the DAHs of harness-written squares (ODS widths quick 2,2,1 / thorough 4,4,2; layouts plain, with-share-v1, plain). \
containers: for every stored height every honest sample (every cell x proof axis row/col), every honest row (every index x transmitted half left/right), every honest row-namespace-data \
(every row x namespace in {tx, each user namespace, absent-inside-range, below all, above all users, tail padding, parity} that the row root's range covers), \
plus one mutant per class on base containers of every height (sample: share byte flipped, neighbour's share, axis flag flipped, proof start/end shifted, sibling dropped, sibling added, share missing, proof missing, \
absence flag set, share of 511/513 bytes; row: byte flipped, two shares exchanged, half flag flipped, share dropped, share duplicated, no shares; namespace data: first/last share dropped, foreign share appended, byte flipped, \
proof range shifted, sibling dropped, shares removed but presence proof kept, proof of another row). \
embedded ids: kinds {row, sample, row-namespace-data} x heights {0,1,2,3,4(not stored)} x row,col in {0..=W, 65535} (W = largest extended width) x the namespace list. \
evaluations = every container x every embedded id x multihash code in {row 0x7801, sample 0x7811, rnd 0x7821, sha2-256 0x12, 0}; plus raw inputs {empty, cid only, container only, block followed by 0x00 / by an unknown field, cid followed by a byte, garbage} x the five codes. \
distinct = (container, embedded id, code); non-trivial = shwap code of the id's kind, stored height, container of that kind (the multihasher has to look at shares and roots).";

// ------------------------------------------------------------------ independent CID / id encoding

#[derive(Clone, Copy, PartialEq, Eq, Debug, Serialize, Deserialize, PartialOrd, Ord)]
enum Kind {
    Row,
    Sample,
    Rnd,
}

impl Kind {
    fn codec(self) -> u64 {
        match self {
            Kind::Row => 0x7800,
            Kind::Sample => 0x7810,
            Kind::Rnd => 0x7820,
        }
    }
    fn mh(self) -> u64 {
        self.codec() + 1
    }
    fn id_len(self) -> usize {
        match self {
            Kind::Row => 10,
            Kind::Sample => 12,
            Kind::Rnd => 39,
        }
    }
    fn of_code(code: u64) -> Option<Kind> {
        [Kind::Row, Kind::Sample, Kind::Rnd].into_iter().find(|k| k.mh() == code)
    }
}

fn varint(mut x: u64) -> Vec<u8> {
    let mut v = vec![];
    loop {
        let b = (x & 0x7f) as u8;
        x >>= 7;
        if x == 0 {
            v.push(b);
            return v;
        }
        v.push(b | 0x80);
    }
}

fn read_varint(b: &[u8]) -> Option<(u64, &[u8])> {
    let mut x = 0u64;
    for (i, byte) in b.iter().enumerate().take(10) {
        x |= ((byte & 0x7f) as u64) << (7 * i);
        if byte & 0x80 == 0 {
            return Some((x, &b[i + 1..]));
        }
    }
    None
}

#[derive(Clone, PartialEq, Eq, Debug, Serialize, Deserialize, PartialOrd, Ord)]
struct IdSpec {
    kind: Kind,
    height: u64,
    row: u16,
    col: u16,
    ns: Vec<u8>,
}

impl IdSpec {
    fn digest(&self) -> Vec<u8> {
        let mut d = self.height.to_be_bytes().to_vec();
        d.extend_from_slice(&self.row.to_be_bytes());
        match self.kind {
            Kind::Row => {}
            Kind::Sample => d.extend_from_slice(&self.col.to_be_bytes()),
            Kind::Rnd => d.extend_from_slice(&self.ns),
        }
        d
    }
    fn cid(&self) -> Vec<u8> {
        let d = self.digest();
        let mut v = vec![0x01];
        v.extend(varint(self.kind.codec()));
        v.extend(varint(self.kind.mh()));
        v.extend(varint(d.len() as u64));
        v.extend(d);
        v
    }
}

/// (codec, multihash code, digest, rest) of a CIDv1 prefix of `b`.
fn parse_cid(b: &[u8]) -> Option<(u64, u64, Vec<u8>, usize)> {
    let (ver, r) = read_varint(b)?;
    if ver != 1 {
        return None;
    }
    let (codec, r) = read_varint(r)?;
    let (mh, r) = read_varint(r)?;
    let (len, r) = read_varint(r)?;
    if (r.len() as u64) < len {
        return None;
    }
    let d = r[..len as usize].to_vec();
    Some((codec, mh, d, r.len() - len as usize))
}

fn mh_bytes(code: u64, digest: &[u8]) -> Vec<u8> {
    let mut v = varint(code);
    v.extend(varint(digest.len() as u64));
    v.extend_from_slice(digest);
    v
}

// ------------------------------------------------------------------ fixture

struct Fx {
    store: Arc<InMemoryStore>,
    /// height -> square
    squares: BTreeMap<u64, Sq>,
    max_ew: usize,
}

fn fixture(ctx: &Ctx) -> Fx {
    let plan: Vec<(usize, Layout)> = ctx.tier.pick(
        vec![(2, Layout::Plain), (2, Layout::WithV1), (1, Layout::Plain)],
        vec![(4, Layout::Plain), (4, Layout::WithV1), (2, Layout::Plain)],
    );
    let store = Arc::new(InMemoryStore::new());
    let mut generator = ExtendedHeaderGenerator::new();
    let mut squares = BTreeMap::new();
    let mut max_ew = 0;
    for (i, (w, layout)) in plan.into_iter().enumerate() {
        let sq = build(ctx.seed, w, layout, 0x10 + i as u64).unwrap_or_else(|e| machinery_error("C10", &e));
        check_dah_independently(&sq).unwrap_or_else(|e| machinery_error("C10", &e));
        let header = generator.next_with_dah(sq.dah.clone());
        let height = header.height();
        if height != i as u64 + 1 {
            machinery_error("C10", "generator height");
        }
        futures::executor::block_on(store.insert(header)).unwrap_or_else(|e| machinery_error("C10", &format!("store insert: {e}")));
        max_ew = max_ew.max(sq.eds_width());
        squares.insert(height, sq);
    }
    Fx { store, squares, max_ew }
}

fn namespaces(fx: &Fx) -> Vec<Ns> {
    let mut v: Vec<Ns> = vec![ns_v0(0), TX_NS, absent_ns_after(1), ns_v0(0xffff_ffff), TAIL_PADDING, PARITY];
    for sq in fx.squares.values() {
        for ns in &sq.ods_ns {
            v.push(*ns);
        }
    }
    v.sort();
    v.dedup();
    v
}

#[derive(Clone)]
struct Container {
    desc: String,
    kind: Kind,
    bytes: Vec<u8>,
    honest_for: Option<IdSpec>,
}

fn enc_sample(s: &Sample) -> RawSample {
    RawSample::from(s.clone())
}

fn containers(fx: &Fx) -> Vec<Container> {
    let mut out = vec![];
    let nss = namespaces(fx);
    for (&h, sq) in &fx.squares {
        let ew = sq.eds_width();
        let w = sq.w;
        let fail = |what: &str| -> ! { machinery_error("C10", &format!("fixture container {what} at height {h}")) };
        // ---------------- samples
        let mut sample_bases: Vec<(IdSpec, RawSample)> = vec![];
        for r in 0..ew {
            for c in 0..ew {
                for (axis, an) in [(AxisType::Row, "row"), (AxisType::Col, "col")] {
                    let s = Sample::new(r as u16, c as u16, axis, &sq.eds).unwrap_or_else(|_| fail("sample"));
                    let raw = enc_sample(&s);
                    let id = IdSpec { kind: Kind::Sample, height: h, row: r as u16, col: c as u16, ns: vec![] };
                    out.push(Container {
                        desc: format!("sample(h{h};{r},{c};{an}-proof)"),
                        kind: Kind::Sample,
                        bytes: raw.encode_to_vec(),
                        honest_for: Some(id.clone()),
                    });
                    let base = (r == 0 && c == 0) || (r == 0 && c == ew - 1) || (r == ew - 1 && c == ew - 1) || (r == w.min(ew - 1) && c == 0);
                    if base {
                        sample_bases.push((id, raw));
                    }
                }
            }
        }
        for (id, raw) in &sample_bases {
            let (r, c) = (id.row as usize, id.col as usize);
            let tag = format!("sample(h{h};{r},{c};axis{})", raw.proof_type);
            let mut push = |name: &str, m: RawSample| {
                out.push(Container { desc: format!("{tag}/{name}"), kind: Kind::Sample, bytes: m.encode_to_vec(), honest_for: None });
            };
            let mut m = raw.clone();
            m.share.as_mut().unwrap().data[100] ^= 1;
            push("share-byte-flipped", m);
            let mut m = raw.clone();
            m.share = Some(RawShare { data: sq.cells[r][(c + 1) % ew].clone() });
            push("neighbour-share", m);
            let mut m = raw.clone();
            m.proof_type ^= 1;
            push("axis-flag-flipped", m);
            let mut m = raw.clone();
            {
                let p = m.proof.as_mut().unwrap();
                p.start += 1;
                p.end += 1;
            }
            push("proof-range-shifted", m);
            let mut m = raw.clone();
            m.proof.as_mut().unwrap().end += 1;
            push("proof-range-widened", m);
            let mut m = raw.clone();
            m.proof.as_mut().unwrap().nodes.pop();
            push("sibling-dropped", m);
            let mut m = raw.clone();
            {
                let p = m.proof.as_mut().unwrap();
                let extra = p.nodes.first().cloned().unwrap_or_else(|| vec![0u8; 90]);
                p.nodes.push(extra);
            }
            push("sibling-added", m);
            let mut m = raw.clone();
            m.share = None;
            push("share-missing", m);
            let mut m = raw.clone();
            m.proof = None;
            push("proof-missing", m);
            let mut m = raw.clone();
            m.proof.as_mut().unwrap().leaf_hash = vec![0u8; 90];
            push("absence-flag-set", m);
            let mut m = raw.clone();
            m.share.as_mut().unwrap().data.pop();
            push("share-511-bytes", m);
            let mut m = raw.clone();
            m.share.as_mut().unwrap().data.push(0);
            push("share-513-bytes", m);
        }
        // ---------------- rows
        for r in 0..ew {
            let row = Row::new(r as u16, &sq.eds).unwrap_or_else(|_| fail("row"));
            let left = RawRow::from(row);
            let right = RawRow {
                shares_half: (w..ew).map(|c| RawShare { data: sq.cells[r][c].clone() }).collect(),
                half_side: 1,
            };
            let id = IdSpec { kind: Kind::Row, height: h, row: r as u16, col: 0, ns: vec![] };
            for (name, raw) in [("left", &left), ("right", &right)] {
                out.push(Container {
                    desc: format!("row(h{h};{r};{name}-half)"),
                    kind: Kind::Row,
                    bytes: raw.encode_to_vec(),
                    honest_for: Some(id.clone()),
                });
                if r == 0 || r == ew - 1 {
                    let tag = format!("row(h{h};{r};{name}-half)");
                    let mut push = |mname: &str, m: RawRow| {
                        out.push(Container { desc: format!("{tag}/{mname}"), kind: Kind::Row, bytes: m.encode_to_vec(), honest_for: None });
                    };
                    let mut m = raw.clone();
                    m.shares_half[0].data[200] ^= 1;
                    push("byte-flipped", m);
                    if w >= 2 {
                        let mut m = raw.clone();
                        m.shares_half.swap(0, w - 1);
                        push("shares-exchanged", m);
                    }
                    let mut m = raw.clone();
                    m.half_side ^= 1;
                    push("half-flag-flipped", m);
                    let mut m = raw.clone();
                    m.shares_half.pop();
                    push("share-dropped", m);
                    let mut m = raw.clone();
                    let dup = m.shares_half[0].clone();
                    m.shares_half.push(dup);
                    push("share-duplicated", m);
                    let mut m = raw.clone();
                    m.shares_half.clear();
                    push("no-shares", m);
                }
            }
        }
        // ---------------- row namespace data
        let mut rnd_by_row: BTreeMap<usize, Vec<(IdSpec, RawRnd)>> = BTreeMap::new();
        for ns in &nss {
            let Ok(namespace) = Namespace::from_raw(ns) else { continue };
            let rows = sq.eds.get_namespace_data(namespace, &sq.dah, h).unwrap_or_else(|_| fail("namespace data"));
            for (rid, data) in rows {
                let r = rid.row_index() as usize;
                let raw = RawRnd::from(data);
                let id = IdSpec { kind: Kind::Rnd, height: h, row: r as u16, col: 0, ns: ns.to_vec() };
                out.push(Container {
                    desc: format!("rnd(h{h};{r};ns={})", hex::encode(&ns[NS - 4..])),
                    kind: Kind::Rnd,
                    bytes: raw.encode_to_vec(),
                    honest_for: Some(id.clone()),
                });
                rnd_by_row.entry(r).or_default().push((id, raw));
            }
        }
        for (r, list) in &rnd_by_row {
            if !(*r == 0 || *r == w - 1 || *r == ew - 1) {
                continue;
            }
            for (id, raw) in list {
                let tag = format!("rnd(h{h};{r};ns={})", hex::encode(&id.ns[NS - 4..]));
                let mut push = |mname: &str, m: RawRnd| {
                    out.push(Container { desc: format!("{tag}/{mname}"), kind: Kind::Rnd, bytes: m.encode_to_vec(), honest_for: None });
                };
                if !raw.shares.is_empty() {
                    let mut m = raw.clone();
                    m.shares.remove(0);
                    push("first-share-dropped", m);
                    let mut m = raw.clone();
                    m.shares.pop();
                    push("last-share-dropped", m);
                    let mut m = raw.clone();
                    m.shares[0].data[300] ^= 1;
                    push("byte-flipped", m);
                    let mut m = raw.clone();
                    m.shares.clear();
                    push("shares-removed-presence-proof-kept", m);
                }
                let mut m = raw.clone();
                // a share of the row that is not of this namespace (or the parity neighbour)
                let foreign = (0..ew).find(|c| sq.cell_ns(*r, *c).to_vec() != id.ns).map(|c| sq.cells[*r][c].clone());
                if let Some(f) = foreign {
                    m.shares.push(RawShare { data: f });
                    push("foreign-share-appended", m);
                }
                let mut m = raw.clone();
                if let Some(p) = m.proof.as_mut() {
                    p.start += 1;
                    p.end += 1;
                }
                push("proof-range-shifted", m);
                let mut m = raw.clone();
                if let Some(p) = m.proof.as_mut() {
                    p.nodes.pop();
                }
                push("sibling-dropped", m);
                // proof of another row, shares of this one
                if let Some((_, other)) = rnd_by_row.iter().filter(|(or, _)| *or != r).flat_map(|(_, l)| l.iter()).find(|(oid, _)| oid.ns == id.ns) {
                    let mut m = raw.clone();
                    m.proof = other.proof.clone();
                    push("proof-of-another-row", m);
                }
            }
        }
    }
    out
}

fn ids(fx: &Fx) -> Vec<IdSpec> {
    let mut idx: Vec<u16> = (0..=fx.max_ew as u16).collect();
    idx.push(u16::MAX);
    let heights = [1u64, 2, 3, 4, 0];
    let nss = namespaces(fx);
    let mut out = vec![];
    for &height in &heights {
        for &row in &idx {
            out.push(IdSpec { kind: Kind::Row, height, row, col: 0, ns: vec![] });
            for &col in &idx {
                out.push(IdSpec { kind: Kind::Sample, height, row, col, ns: vec![] });
            }
            for ns in &nss {
                out.push(IdSpec { kind: Kind::Rnd, height, row, col: 0, ns: ns.to_vec() });
            }
        }
    }
    out
}

// ------------------------------------------------------------------ oracle

enum Verdict {
    /// must be `Err("UnknownMultihashCode")`
    Unknown,
    /// must be an error; why
    Reject(&'static str),
    /// `Ok` is legal, and then it must be exactly these multihash bytes
    MayAccept(Vec<u8>),
}

fn judge(fx: &Fx, code: u64, input: &[u8]) -> Verdict {
    let Some(kind) = Kind::of_code(code) else {
        return Verdict::Unknown;
    };
    let Ok(block) = Block::decode(input) else {
        return Verdict::Reject("block-not-protobuf");
    };
    let Some((codec, mh, digest, _trailing)) = parse_cid(&block.cid) else {
        return Verdict::Reject("embedded-cid-undecodable");
    };
    if codec != kind.codec() || mh != kind.mh() || digest.len() != kind.id_len() {
        return Verdict::Reject("embedded-id-of-another-kind");
    }
    let height = u64::from_be_bytes(digest[0..8].try_into().unwrap());
    let row = u16::from_be_bytes(digest[8..10].try_into().unwrap()) as usize;
    let Some(sq) = fx.squares.get(&height) else {
        return Verdict::Reject("no-header-stored-at-the-ids-height");
    };
    let ew = sq.eds_width();
    if row >= ew {
        return Verdict::Reject("row-outside-the-square");
    }
    match kind {
        Kind::Sample => {
            let col = u16::from_be_bytes(digest[10..12].try_into().unwrap()) as usize;
            if col >= ew {
                return Verdict::Reject("column-outside-the-square");
            }
            let Ok(raw) = RawSample::decode(&block.container[..]) else {
                return Verdict::Reject("container-not-a-sample");
            };
            let Some(share) = raw.share else {
                return Verdict::Reject("sample-without-share");
            };
            if share.data != sq.cells[row][col] {
                return Verdict::Reject("sample-share-is-not-the-share-at-the-coordinates");
            }
        }
        Kind::Row => {
            let Ok(raw) = RawRow::decode(&block.container[..]) else {
                return Verdict::Reject("container-not-a-row");
            };
            let half: Vec<&Vec<u8>> = raw.shares_half.iter().map(|s| &s.data).collect();
            let left: Vec<&Vec<u8>> = sq.cells[row][..sq.w].iter().collect();
            let right: Vec<&Vec<u8>> = sq.cells[row][sq.w..].iter().collect();
            let ok = match raw.half_side {
                0 => half == left,
                1 => half == right,
                _ => half == left || half == right,
            };
            if !ok {
                return Verdict::Reject("row-shares-are-not-the-committed-row");
            }
        }
        Kind::Rnd => {
            let ns = &digest[10..39];
            let Ok(raw) = RawRnd::decode(&block.container[..]) else {
                return Verdict::Reject("container-not-namespace-data");
            };
            let got: Vec<&Vec<u8>> = raw.shares.iter().map(|s| &s.data).collect();
            let want: Vec<&Vec<u8>> = (0..ew).filter(|c| sq.cell_ns(row, *c)[..] == *ns).map(|c| &sq.cells[row][c]).collect();
            // The parity namespace is outside the namespace range of an original row's root by
            // construction (ignore-max-namespace), so for such a row "no shares" is the NMT's
            // legal answer as well; the parity cells themselves are accepted too.
            let parity_in_original_row = *ns == PARITY[..] && row < sq.w;
            if got != want && !(parity_in_original_row && got.is_empty()) {
                return Verdict::Reject("namespace-shares-are-not-the-rows-shares-of-that-namespace");
            }
        }
    }
    Verdict::MayAccept(mh_bytes(kind.mh(), &digest))
}

fn eval(fx: &Fx, code: u64, input: &[u8], honest: bool, nontrivial: bool, key: u64, describe: &dyn Fn() -> serde_json::Value, rep: &mut Report) {
    let verdict = judge(fx, code, input);
    let got = guard(|| futures::executor::block_on(shwap_multihash(fx.store.clone(), code, input)));
    let case = || {
        let mut c = describe();
        c["code"] = json!(code);
        c["input_hex"] = json!(hex::encode(input));
        c
    };
    match got {
        Err(p) => {
            rep.case(key, "panic", nontrivial);
            rep.violation("multihasher-panicked", format!("ShwapMultihasher::hash panicked: {p}"), case());
        }
        Ok(Ok(h)) => {
            rep.case(key, if honest { "accept:honest" } else { "accept" }, nontrivial);
            if rep.wants_sample() && honest && key % 17 == 0 {
                rep.sample(|| json!({"case": describe(), "code": code, "result": format!("Ok({})", hex::encode(&h))}));
            }
            match verdict {
                Verdict::Unknown => rep.violation("hash-for-unknown-multihash-code", format!("code {code:#x} is not a shwap code but a hash was produced"), case()),
                Verdict::Reject(why) => rep.violation(&format!("accepted:{why}"), format!("a hash was produced although the oracle says: {why}"), case()),
                Verdict::MayAccept(want) => {
                    if h != want {
                        rep.violation(
                            "hash-is-not-the-embedded-ids-multihash",
                            format!("got {} want {}", hex::encode(&h), hex::encode(&want)),
                            case(),
                        );
                    }
                }
            }
        }
        Ok(Err(e)) => {
            let class = if e == "UnknownMultihashCode" {
                "reject:unknown-code".to_string()
            } else {
                match &verdict {
                    Verdict::Reject(why) => format!("reject:{why}"),
                    Verdict::Unknown => "reject:other-error-for-unknown-code".to_string(),
                    Verdict::MayAccept(_) => "reject:although-content-matches".to_string(),
                }
            };
            rep.case(key, &class, nontrivial);
            if rep.wants_sample() && key % 9973 == 0 {
                rep.sample(|| json!({"case": describe(), "code": code, "result": format!("Err({e})")}));
            }
            match verdict {
                Verdict::Unknown if e != "UnknownMultihashCode" => rep.violation(
                    "unknown-code-not-reported-as-unknown",
                    format!("code {code:#x}: expected UnknownMultihashCode, got {e}"),
                    case(),
                ),
                Verdict::MayAccept(_) | Verdict::Reject(_) if e == "UnknownMultihashCode" => rep.violation(
                    "shwap-code-reported-as-unknown",
                    format!("code {code:#x} is a shwap code but UnknownMultihashCode was reported"),
                    case(),
                ),
                Verdict::MayAccept(_) if honest => rep.violation("honest-block-rejected", format!("honest block for its own id rejected: {e}"), case()),
                _ => {}
            }
        }
    }
}

fn block_bytes(cid: &[u8], container: &[u8]) -> Vec<u8> {
    Block { cid: cid.to_vec(), container: container.to_vec() }.encode_to_vec()
}

const CODES: [u64; 5] = [0x7801, 0x7811, 0x7821, 0x12, 0];

fn main() {
    let ctx = Ctx::from_args("C10");
    let fx = fixture(&ctx);

    let rep = if let Some(c) = ctx.replay_case() {
        let code = c["code"].as_u64().unwrap_or_else(|| machinery_error("C10", "replay: code"));
        let input = hex::decode(c["input_hex"].as_str().unwrap_or("")).unwrap_or_else(|_| machinery_error("C10", "replay: input_hex"));
        let mut rep = Report::new();
        if c["gbc_expected_cid_hex"].is_string() {
            let cid = hex::decode(c["gbc_expected_cid_hex"].as_str().unwrap()).unwrap();
            eval_gbc(&cid, &input, &mut rep);
        } else {
            let honest = c["honest"].as_bool().unwrap_or(false);
            eval(&fx, code, &input, honest, true, 0, &|| c.clone(), &mut rep);
        }
        rep
    } else {
        let conts = containers(&fx);
        let idl = ids(&fx);
        let n_cont = conts.len();
        let n_ids = idl.len();
        // simplest first: containers are generated height 1 first, samples at (0,0) first
        let idx: Vec<usize> = (0..n_cont).collect();
        let mut rep = par_cases(idx, |ci, rep| {
            let cont = &conts[ci];
            for id in &idl {
                let cid = id.cid();
                let input = block_bytes(&cid, &cont.bytes);
                for code in CODES {
                    let honest = cont.honest_for.as_ref() == Some(id) && code == id.kind.mh();
                    let nontrivial = Kind::of_code(code) == Some(id.kind) && fx.squares.contains_key(&id.height) && cont.kind == id.kind;
                    let key = fnv64(format!("{}|{:?}|{}", cont.desc, id, code).as_bytes());
                    let describe = || json!({"container": cont.desc, "embedded_id": id, "honest": honest});
                    eval(&fx, code, &input, honest, nontrivial, key, &describe, rep);
                }
            }
        });
        // raw inputs
        let base = conts.iter().find(|c| c.honest_for.is_some()).unwrap();
        let base_id = base.honest_for.clone().unwrap();
        let good = block_bytes(&base_id.cid(), &base.bytes);
        let mut raws: Vec<(&str, Vec<u8>)> = vec![
            ("empty-input", vec![]),
            ("cid-only", Block { cid: base_id.cid(), container: vec![] }.encode_to_vec()),
            ("container-only", Block { cid: vec![], container: base.bytes.clone() }.encode_to_vec()),
            ("garbage", vec![0xff; 40]),
        ];
        let mut t = good.clone();
        t.push(0);
        raws.push(("block-then-zero-byte", t));
        let mut t = good.clone();
        t.extend_from_slice(&[0x78, 0x01]);
        raws.push(("block-then-unknown-field", t));
        let mut cid_plus = base_id.cid();
        cid_plus.push(0x55);
        raws.push(("cid-then-extra-byte", block_bytes(&cid_plus, &base.bytes)));
        let mut cont_plus = base.bytes.clone();
        cont_plus.extend_from_slice(&[0x78, 0x01]);
        raws.push(("container-then-unknown-field", block_bytes(&base_id.cid(), &cont_plus)));
        let mut cid_v0 = vec![0x12, 0x20];
        cid_v0.extend_from_slice(&[7u8; 32]);
        raws.push(("cid-v0", block_bytes(&cid_v0, &base.bytes)));
        for (name, input) in &raws {
            for code in CODES {
                let key = fnv64(format!("raw|{name}|{code}").as_bytes());
                let describe = || json!({"raw_input": name});
                eval(&fx, code, input, false, Kind::of_code(code).is_some(), key, &describe, &mut rep);
            }
        }
        // get_block_container: expected cid x block of every id pair of a small id set
        let small: Vec<&IdSpec> = idl.iter().filter(|i| i.height <= 2 && i.row <= 1 && i.col <= 1).collect();
        for a in &small {
            for b in &small {
                let input = block_bytes(&b.cid(), &base.bytes);
                eval_gbc(&a.cid(), &input, &mut rep);
            }
            let mut plus = a.cid();
            plus.push(1);
            eval_gbc(&a.cid(), &block_bytes(&plus, &base.bytes), &mut rep);
        }
        rep.extra("containers", json!(n_cont));
        rep.extra("embedded_ids", json!(n_ids));
        rep.extra("codes", json!(CODES));
        rep.extra("squares", json!(fx.squares.iter().map(|(h, s)| json!({"height": h, "ods_width": s.w, "layout": s.layout.name()})).collect::<Vec<_>>()));
        rep
    };
    finish(
        &ctx,
        rep,
        Spec {
            rule: RULE,
            assumptions: &[
                "the store is a real InMemoryStore; header fields other than the DAH do not influence the multihasher",
                "trailing bytes after a well-formed embedded CID are not treated as making the identifier undecodable (the statement only asks that it decodes)",
                "row-namespace-data for the parity namespace in a row of the original quadrant may be answered with no shares (the namespace is outside the row root's range because the tree ignores the maximum namespace)",
                "for an accepted block the oracle compares shares, not proofs: a block whose shares are the committed ones may be accepted whatever its proof bytes are",
                "honest blocks for their own identifier are additionally expected to be accepted (C04/C05 round-trip clauses)",
                "sha-256 collision resistance",
            ],
            required_classes: &[
                "accept:honest",
                "reject:unknown-code",
                "reject:no-header-stored-at-the-ids-height",
                "reject:embedded-id-of-another-kind",
                "reject:sample-share-is-not-the-share-at-the-coordinates",
                "reject:row-shares-are-not-the-committed-row",
                "reject:namespace-shares-are-not-the-rows-shares-of-that-namespace",
                "reject:although-content-matches",
                "gbc:ok",
                "gbc:err",
            ],
            exhaustive: true,
        },
    );
}

/// `get_block_container(expected, block)`: `Ok(container)` only if the block's CID is the
/// expected one, and then the container is the block's.
fn eval_gbc(expected_cid: &[u8], input: &[u8], rep: &mut Report) {
    let key = fnv64(format!("gbc|{}|{}", hex::encode(expected_cid), hex::encode(fnv64(input).to_le_bytes())).as_bytes());
    let case = || json!({"gbc_expected_cid_hex": hex::encode(expected_cid), "input_hex": hex::encode(input), "code": 0});
    let block = Block::decode(input).ok();
    match guard(|| get_block_container(expected_cid, input)) {
        Err(p) => {
            rep.case(key, "panic", true);
            rep.violation("get-block-container-panicked", p, case());
        }
        Ok(Ok(c)) => {
            rep.case(key, "gbc:ok", true);
            let same = block.as_ref().is_some_and(|b| b.cid.starts_with(expected_cid) && parse_cid(&b.cid).map(|p| b.cid.len() - p.3) == Some(expected_cid.len()));
            if !same {
                rep.violation("block-container-returned-for-another-cid", "Ok although the block's CID is not the expected one".into(), case());
            } else if block.is_some_and(|b| b.container != c) {
                rep.violation("block-container-differs", "returned bytes are not the block's container".into(), case());
            }
        }
        Ok(Err(_)) => rep.case(key, "gbc:err", true),
    }
}
