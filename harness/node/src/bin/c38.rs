//! C38 — The syncer keeps the store on the network's chain and converges.   (engine E3 envdfs)
//!
//! System: the real `Syncer` + `InMemoryStore` + mocked `P2p`, paused clock.  Peers serve the
//! honest chain A (20 headers, network head 16 at start); a second chain B (same chain id and
//! validator key, different at every height, every header individually valid) supplies the
//! adversarial answers.  Environment menu at every step, for the outstanding header request:
//! honest full [default] / all-but-last prefix / first header only / header-ex error / B range /
//! A|B splice / B|A splice / `Ok(empty)`; head requests: honest head [default] / stale honest
//! head / advanced honest head / error; header-sub announces the next honest head or skips one;
//! disconnect / reconnect; 61 s pass.
//!
//! Oracle.  Safety after every event: every stored height holds chain A's header (by hash).
//! Bounded liveness: every execution ends with a default-only (honest) tail; at its end every
//! height inside the sampling window up to the head the syncer was told about must be stored,
//! and the tail must finish (syncer idle) within 40 events.
use lv_core::*;
use std::time::Duration;

#[path = "../shared/syncer_sys.rs"]
mod syncer_sys;
use syncer_sys::*;

fn configs(tier: Tier) -> Vec<SysCfg> {
    let menu = Menu {
        prefix: true,
        error: true,
        adversarial: true,
        fork: false,
        store_call_prune: false,
        head_variants: true,
        header_sub: true,
        prune: false,
        disconnect: true,
        clock: true,
    };
    let base = SysCfg {
        name: "all-in-window-batch4",
        old_upto: 0,
        init_head: 16,
        total: 20,
        batch: 4,
        prefill: None,
        menu,
        oracles: Oracles { c24: false, c25: false, c38: true },
        tail_events: 40,
        max_events: 60,
        aging: None,
    };
    let mut v = vec![
        base.clone(),
        SysCfg { name: "old6-batch4", old_upto: 6, ..base.clone() },
        SysCfg { name: "all-in-window-batch4-prefilled-11-14", prefill: Some(11..=14), ..base.clone() },
    ];
    if tier == Tier::Thorough {
        v.push(SysCfg { name: "all-in-window-batch7", batch: 7, ..base });
    }
    v
}

fn main() {
    let ctx = Ctx::from_args("C38");
    let mut rep = Report::new();
    if let Some(c) = ctx.replay_case() {
        let cfgs = configs(Tier::Thorough);
        let name = c["config"].as_str().unwrap_or("all-in-window-batch4").to_string();
        let Some(cfg) = cfgs.iter().find(|c| c.name == name) else {
            machinery_error(&ctx.id, &format!("unknown config {name}"));
        };
        let ch = Chains::build(cfg.old_upto, cfg.total).unwrap_or_else(|e| machinery_error(&ctx.id, &e));
        let choices: Vec<u32> = serde_json::from_value(c["choices"].clone()).unwrap_or_else(|e| machinery_error(&ctx.id, &format!("bad choices: {e}")));
        replay_into(cfg, &ch, &choices, &mut rep).unwrap_or_else(|e| machinery_error(&ctx.id, &e));
    } else {
        let bound = ctx.tier.pick(3, 4);
        let cfgs = configs(ctx.tier);
        let per_cfg_cap = Duration::from_secs(ctx.tier.pick(50, 840) / cfgs.len() as u64);
        for cfg in &cfgs {
            let ch = Chains::build(cfg.old_upto, cfg.total).unwrap_or_else(|e| machinery_error(&ctx.id, &e));
            // the first configuration gets the full bound, the others one deviation less
            let b = if cfg.name == "all-in-window-batch4" { bound } else { bound - 1 };
            explore_cfg(cfg, &ch, b, per_cfg_cap, u64::MAX, &mut rep).unwrap_or_else(|e| machinery_error(&ctx.id, &e));
        }
        coverage_into(&mut rep);
    }
    finish(
        &ctx,
        rep,
        Spec {
            rule: "E3 envdfs on the real Syncer+InMemoryStore+mocked P2p (paused clock): all environment choice sequences with <= 3 (quick) / <= 4 (thorough) non-default choices on config all-in-window-batch4 and <= 2 / <= 3 on old6-batch4, all-in-window-batch4-prefilled-11-14 [+ all-in-window-batch7 in thorough]; default = honest full answer to the oldest request / reconnect / run init timers / stop when idle; menu per step = range request {honest, all-but-last prefix, first only, header-ex error, fork-B range, A|B splice, B|A splice, Ok(empty)} x head request {honest, stale honest, advanced honest, error} x {header-sub next head, skip one} x {disconnect, reconnect} x {61 s pass}; horizon 40 default-only events after the last deviation, 60 events absolute; evaluation = one complete execution, transition = one environment event followed by the oracles, states = distinct property-level observation traces",
            assumptions: &[
                "Time::now() is not seamed: header times are >= 2 h away from the sampling-window edge",
                "the mock sits behind the header-ex client's per-header validation (C28): answers are contiguous runs of individually valid headers starting at the requested height (honest chain A or fork B, which shares chain id and validator key with A but differs at every height); Ok(empty) over-approximates the client",
                "head requests (origin 0) are answered by trusted peers: honest heads only (current, stale or advanced); header-sub delivers honest, strictly increasing heads (what P2p::on_header_sub_message forwards)",
                "liveness target = every in-window height up to the highest head told to the syncer; bounded: default-only tail of at most 40 events",
                "one environment event at a time with a settle in between",
            ],
            required_classes: &[
                "completed",
                "cov:batches-checked",
                "cov:foreign-or-spliced-answers",
                "cov:batches-failed",
                "cov:reconnects",
                "cov:heads-announced",
            ],
            exhaustive: true,
        },
    );
}
