fn main() { let _ = lumina_node::verif::daser::VMockDaser::new; }
