//! C33 — Data sampling marks a block sampled only after full success.   (engine E3 + E1)
//!
//! Real `Daser` worker + `InMemoryStore` (behind a logging `Store` wrapper) + mocked `P2p`,
//! see `shared/daser_sys.rs`.  Oracle (from the statement): when a `GetShwapCid` is sent the
//! store's sampling metadata of that height already holds the CIDs of all chosen shares;
//! chosen shares are distinct, inside the square, min(w², 16) many; `mark_as_sampled(h)` /
//! `get_sampled_ranges ∋ h` only after every chosen share of one sampling of h was answered
//! with a valid sample (and none timed out).  Also checked here: the Daser half of C35.
#[path = "../shared/daser_sys.rs"]
mod daser_sys;

use daser_sys::*;
use lumina_node::verif::daser::random_indexes;
use lv_core::*;
use serde_json::json;
use std::sync::Mutex;
use std::time::Duration;

const PROPS: &[&str] = &["C33", "C35"];

/// E1 part: `random_indexes` for every width (the system part only has even widths <= 64).
fn eval_random_indexes(w: u16, max: usize, rep: &mut Report) {
    let want = (w as usize * w as usize).min(max);
    for round in 0..8u32 {
        let key = fnv64(format!("ri/{w}/{max}/{round}").as_bytes());
        let case = json!({"random_indexes": {"width": w, "max": max}});
        match guard(|| random_indexes(w, max)) {
            Err(p) => {
                rep.case(key, "indexes:panic", true);
                rep.violation("random-indexes-panic", format!("random_indexes({w},{max}) panicked: {p}"), case);
            }
            Ok(set) => {
                let class = if w as usize * w as usize <= max { "indexes:whole-square" } else { "indexes:random-subset" };
                rep.case(key, class, false);
                if set.len() != want {
                    rep.violation(
                        "chosen-shares-wrong-count",
                        format!("random_indexes({w},{max}) returned {} shares, expected {want}", set.len()),
                        case.clone(),
                    );
                }
                if let Some(bad) = set.iter().find(|(r, c)| *r >= w || *c >= w) {
                    rep.violation("chosen-share-outside-square", format!("random_indexes({w},{max}) returned {bad:?}"), case);
                }
            }
        }
    }
}

fn cfg(name: &str, widths: &[u16], initial: (u64, u64), limit: usize, allowance: usize, horizon: usize, menu: Menu) -> Cfg {
    Cfg {
        name: name.into(),
        widths: widths.to_vec(),
        old: 0,
        initial: vec![initial],
        pre_sampled: vec![],
        limit,
        allowance,
        horizon,
        menu,
        preset_highest: None,
        preset_backlog: 0,
    }
}

/// (configuration, deviation bound); simplest first.
fn cfgs(quick: bool) -> Vec<(Cfg, usize)> {
    let answers_reps = Menu { all_positions: false, pairs: true, ..Menu::answers_only() };
    let answers_pairs = Menu { pairs: true, ..Menu::answers_only() };
    let balanced = |m: Menu| Menu { balanced_default: true, ..m };
    let env = |prune: Vec<u64>, all_positions: bool| Menu {
        all_positions,
        timeouts: true,
        insert_head: true,
        backfill: false,
        reconnect: true,
        prune,
        report_highest: vec![],
        clock: true,
        pairs: true,
        balanced_default: false,
    };
    let mut v = vec![];
    // 1. one block of width 2: every answer order x every success/timeout assignment (4!·2^4)
    v.push((cfg("w2-exhaustive", &[2], (1, 1), 1, 0, 8, Menu::answers_only()), 8));
    // 2. two blocks of width 2 sampled concurrently, every outstanding request answerable
    v.push((cfg("w2x2-concurrent", &[2, 2], (1, 2), 2, 0, 12, answers_pairs.clone()), if quick { 3 } else { 5 }));
    // 2b. the same with the default path keeping both blocks level (A,B,A,B,...): every state
    // "each block has k requests left" is on the default path, so two blocks finishing in the
    // same poll of the Daser task (one pair delivery) is a single deviation
    v.push((cfg("w2x2-balanced", &[2, 2], (1, 2), 2, 0, 12, balanced(answers_pairs.clone())), if quick { 2 } else { 4 }));
    // 3. one block of width 4 (16 samples = the whole square)
    v.push((cfg("w4-single", &[4], (1, 1), 1, 0, 20, answers_reps.clone()), if quick { 3 } else { 4 }));
    v.push((cfg("w4-single-all-positions", &[4], (1, 1), 1, 0, 20, Menu::answers_only()), 2));
    // 4. widths 8..64 (16 of many), store growing
    v.push((cfg("wide-8-16-32-64", &[8, 16, 32, 64], (1, 1), 1, 1, 90, Menu { insert_head: true, ..answers_reps.clone() }), 2));
    // 5. more blocks in flight
    v.push((cfg("w2x3-concurrent", &[2, 2, 2], (1, 3), 3, 0, 16, answers_pairs.clone()), if quick { 2 } else { 3 }));
    v.push((cfg("w2x3-balanced", &[2, 2, 2], (1, 3), 3, 0, 16, balanced(answers_pairs.clone())), 2));
    v.push((cfg("w4+w2-concurrent", &[4, 2], (1, 2), 2, 0, 24, answers_reps.clone()), if quick { 2 } else { 3 }));
    // 6. store growing and pruned, peers lost and regained, clock advancing
    v.push((cfg("growing-pruned", &[2, 2, 2, 4], (1, 2), 2, 1, 72, env(vec![1, 2], false)), 2));
    v.push((cfg("growing-pruned-small", &[2, 2, 2], (1, 2), 2, 1, 40, env(vec![1, 2], false)), if quick { 2 } else { 3 }));
    v.push((cfg("growing-pruned-balanced", &[2, 2, 2, 4], (1, 2), 2, 1, 72, balanced(env(vec![1, 2], false))), 2));
    if !quick {
        v.push((cfg("growing-pruned-all-positions", &[2, 2, 2, 4], (1, 2), 2, 1, 72, env(vec![1, 2], true)), 2));
        v.push((cfg("growing-pruned-deep", &[2, 2, 2, 4], (1, 2), 2, 1, 72, env(vec![2], false)), 3));
    }
    v
}

fn main() {
    let ctx = Ctx::from_args("C33");
    start_watchdog(&ctx.id);
    let mut rep = Report::new();
    let stats: Stats = Mutex::new(Default::default());
    if let Some(case) = ctx.replay_case() {
        if let Some(ri) = case.get("random_indexes") {
            eval_random_indexes(ri["width"].as_u64().unwrap() as u16, ri["max"].as_u64().unwrap() as usize, &mut rep);
        } else if let Err(e) = replay(&case, PROPS, &mut rep) {
            machinery_error(&ctx.id, &e);
        }
    } else {
        let mut widths: Vec<u16> = (1..=64).collect();
        widths.extend([65, 127, 128, 255, 256, 512, 1024, 4096, u16::MAX]);
        for w in widths {
            for max in [16usize] {
                eval_random_indexes(w, max, &mut rep);
            }
        }
        let budget = ctx.tier.pick(100.0, 840.0);
        for (cfg, bound) in cfgs(ctx.quick()) {
            let t = std::time::Instant::now();
            let left = (budget - ctx.elapsed_s()).max(1.0);
            let ex = Explore { bound, wall_cap: Duration::from_secs_f64(left), max_execs: 20_000_000 };
            if let Err(e) = explore_cfg(&cfg, &ex, PROPS, &stats, &mut rep) {
                // a violation found on the way is the more useful verdict
                if rep.violation_count == 0 {
                    machinery_error(&ctx.id, &e);
                }
                eprintln!("machinery problem after a violation: {e}");
                break;
            }
            let (ok, to) = {
                let s = stats.lock().unwrap();
                (s.get("block-all-shares-ok").copied().unwrap_or(0), s.get("block-timed-out").copied().unwrap_or(0))
            };
            eprintln!(
                "cfg {} done in {:.1}s (evaluations so far {}, blocks ok/timed-out so far {ok}/{to})",
                cfg.name,
                t.elapsed().as_secs_f64(),
                rep.evaluations
            );
        }
        merge_stats(&stats, &mut rep);
    }
    finish(
        &ctx,
        rep,
        Spec {
            rule: "E1: random_indexes(w,16) for w in 1..=64 ∪ {65,127,128,255,256,512,1024,4096,65535}, 8 calls each. E3: real Daser over InMemoryStore+mocked P2p, executions = sequences of environment events (answer outstanding sample request k with a valid sample / RequestTimedOut, deliver two answers back-to-back without letting the Daser run in between (oldest outstanding requests of two different blocks, all ordered block pairs x {ok,timeout}^2, one choice), insert next head, WantToPrune/remove, disconnect/reconnect, advance clock 61 s / 5 h), choice 0 = answer oldest request successfully; cfg w2-exhaustive: all 4!·2^4 answer orders x success/timeout assignments of one width-2 block; w2x2-concurrent: two width-2 blocks in flight, <=3 (quick) / 5 (thorough) deviations over all outstanding positions; w2x2-balanced / w2x3-balanced / growing-pruned-balanced: same systems with the default path answering the block with the most outstanding requests first (blocks stay level, so 'every block has one request left' is on the default path), <=2 (w2x2-balanced thorough: 4); w4-single: 16 samples, <=3 / 4 deviations over oldest/newest position, and <=2 over all positions; wide-8-16-32-64: heads of width 8,16,32,64 arriving, <=2; w2x3-concurrent: three width-2 blocks in flight, <=2 / 3; w4+w2-concurrent: <=2 / 3; growing-pruned: 4 blocks, limit 2+1, heads arriving, WantToPrune/remove of heights 1,2, disconnect/reconnect, clock, <=2; growing-pruned-small: 3 blocks, <=2 / 3; thorough adds growing-pruned over all positions (<=2) and growing-pruned-deep (<=3, WantToPrune of height 2 only). An execution is non-trivial when it deviates from the all-success default; distinct = distinct choice sequences (states = distinct property-level observation traces)",
            assumptions: &[
                "wall clock Time::now() is not seamed: header times are 1 h (inside) / 6 h (outside) old against a 4 h sampling window",
                "the mocked P2p stands for bitswap: an answer is either a sample that decodes and verifies against the header's DAH (checked when the fixture builds it) or RequestTimedOut; undecodable data never reaches the Daser (ShwapMultihasher rejects it earlier)",
                "share identities chosen by thread_rng are not part of the oracle (only counts, distinctness, bounds, set equalities)",
                "the pruner follows its protocol: it removes a height only after WantToPrune(h) was granted",
            ],
            required_classes: &[
                "completed",
                "indexes:whole-square",
                "indexes:random-subset",
                "seen:block-marked-sampled",
                "seen:block-timed-out",
                "seen:chosen:whole-square",
                "seen:chosen:16-of-many",
                "seen:prune-refused",
                "seen:prune-granted",
            ],
            exhaustive: true,
        },
    );
}
