//! C39 — Peer tracker counts match peer states.   (engine E2)
//!
//! The real `PeerTracker` (through `lumina_node::verif::small::VPeerTracker`) is driven by
//! every history of peer events up to a depth, breadth-first, de-duplicated on the full
//! per-peer view.  `PeerTracker` cannot be cloned, so a state is its event history and the
//! tracker is rebuilt by replaying it on a fresh instance.  `gc` reads `std::time::Instant`;
//! expiry is made reachable with the `verif_age_disconnected` hook (event `Age`).
use lumina_node::verif::small::{PeerId, VPeerTracker, VPeerView, peer_id};
use lv_core::*;
use serde::{Deserialize, Serialize};
use serde_json::json;
use std::collections::{BTreeMap, BTreeSet};
use std::sync::OnceLock;
use std::time::Duration;

const TAGS: [u32; 2] = [1, 2];
const CONNS: usize = 2;
const AGENTS: [&str; 6] = [
    "lumina/celestia/0.1.0",
    "celestia-node/celestia/bridge/v0.1/abc",
    "celestia-node/celestia/full/v0.1/abc",
    "celestia-node/celestia/light/v0.1/abc",
    "celestia-node/celestia",
    "junk",
];
/// What the agent strings above must be classified as (full node = bridge or full).
const AGENT_IS_FULL: [bool; 6] = [false, true, true, false, false, false];
/// `EXPIRED_AFTER` is documented as 120 s; ageing by 121 s must expire, a fresh peer must not.
const AGE: Duration = Duration::from_secs(121);
const EXPIRY: Duration = Duration::from_secs(120);

fn pid(i: usize) -> PeerId {
    static IDS: OnceLock<Vec<PeerId>> = OnceLock::new();
    IDS.get_or_init(|| (0..8).map(|i| peer_id(10 + i as u8)).collect())[i]
}

#[derive(Clone, Debug, Serialize, Deserialize, PartialEq)]
enum Ev {
    AddPeer(usize),
    AddConn(usize, usize),
    RemConn(usize, usize),
    Trust(usize, bool),
    Protect(usize, u32),
    Unprotect(usize, u32),
    Archival(usize),
    Agent(usize, usize),
    Age(usize),
    Gc,
}

fn conn_id(p: usize, c: usize) -> usize {
    p * 10 + c + 1
}

fn alphabet(peers: usize) -> Vec<Ev> {
    let mut v = vec![];
    for p in 0..peers {
        v.push(Ev::AddPeer(p));
        for c in 0..CONNS {
            v.push(Ev::AddConn(p, c));
            v.push(Ev::RemConn(p, c));
        }
        v.push(Ev::Trust(p, true));
        v.push(Ev::Trust(p, false));
        for t in TAGS {
            v.push(Ev::Protect(p, t));
            v.push(Ev::Unprotect(p, t));
        }
        v.push(Ev::Archival(p));
        for a in 0..AGENTS.len() {
            v.push(Ev::Agent(p, a));
        }
        v.push(Ev::Age(p));
    }
    v.push(Ev::Gc);
    v
}

// ------------------------------------------------------------------------------- model

#[derive(Clone, Copy, Debug, PartialEq, Eq)]
enum Expired {
    No,
    Yes,
    /// `remove_connection` on a peer that was already disconnected: whether that restarts
    /// the expiry clock is not stated anywhere; both answers are accepted.
    Unknown,
}

/// What the statement's vocabulary says about one peer, maintained independently of the
/// tracker: connections, trust, protection tags.  (`archival` and the node kind are taken
/// from the tracker's own per-peer accessors: the statement defines the statistics as a
/// recount of those.)
#[derive(Clone, Debug, PartialEq)]
struct PeerM {
    conns: BTreeSet<usize>,
    trusted: bool,
    tags: BTreeSet<u32>,
    expired: Expired,
}

impl PeerM {
    fn new() -> PeerM {
        PeerM { conns: BTreeSet::new(), trusted: false, tags: BTreeSet::new(), expired: Expired::No }
    }
}

type Model = BTreeMap<usize, PeerM>;

/// BFS state, kept small (millions are stored): the history as indices into the alphabet
/// and the model packed into one byte per peer.
#[derive(Clone)]
struct St {
    hist: Vec<u8>,
    model: [u8; 4],
}

fn pack(m: &Model) -> [u8; 4] {
    let mut out = [0u8; 4];
    for (p, pm) in m {
        let mut b = 1u8;
        for c in &pm.conns {
            b |= 2 << c;
        }
        if pm.trusted {
            b |= 8;
        }
        for (i, t) in TAGS.iter().enumerate() {
            if pm.tags.contains(t) {
                b |= 16 << i;
            }
        }
        b |= match pm.expired {
            Expired::No => 0,
            Expired::Yes => 64,
            Expired::Unknown => 128,
        };
        out[*p] = b;
    }
    out
}

fn unpack(x: &[u8; 4]) -> Model {
    let mut m = Model::new();
    for (p, b) in x.iter().enumerate() {
        if b & 1 == 0 {
            continue;
        }
        m.insert(
            p,
            PeerM {
                conns: (0..CONNS).filter(|c| b & (2 << c) != 0).collect(),
                trusted: b & 8 != 0,
                tags: TAGS.iter().enumerate().filter(|(i, _)| b & (16 << i) != 0).map(|(_, t)| *t).collect(),
                expired: if b & 64 != 0 { Expired::Yes } else if b & 128 != 0 { Expired::Unknown } else { Expired::No },
            },
        );
    }
    m
}

/// Snapshot of everything observable on the real tracker.
#[derive(Debug, Clone, PartialEq)]
struct Obs {
    peers: BTreeMap<usize, (VPeerView, Vec<u32>, Option<bool>)>,
    info: [u64; 4],
    watched: [u64; 4],
    protected_len: Vec<usize>,
    all_conns: usize,
}

fn observe(t: &VPeerTracker, peers: usize) -> Obs {
    let views = t.peers();
    let mut m = BTreeMap::new();
    for v in views {
        let idx = (0..peers.max(8)).find(|i| pid(*i) == v.id).expect("unknown peer id in tracker");
        let tags: Vec<u32> = TAGS.iter().copied().filter(|tag| t.is_protected_with_tag(&v.id, *tag)).collect();
        let expired = t.disconnected_for(&v.id).map(|d| d > EXPIRY);
        m.insert(idx, (v, tags, expired));
    }
    let i = t.info();
    let w = t.info_watcher().borrow().clone();
    Obs {
        peers: m,
        info: [i.num_connected_peers, i.num_connected_trusted_peers, i.num_connected_full_nodes, i.num_connected_archival_nodes],
        watched: [w.num_connected_peers, w.num_connected_trusted_peers, w.num_connected_full_nodes, w.num_connected_archival_nodes],
        protected_len: TAGS.iter().map(|tag| t.protected_len(*tag)).collect(),
        all_conns: t.all_connections_len(),
    }
}

fn obs_key(o: &Obs) -> u64 {
    let mut s = String::new();
    for (i, (v, tags, exp)) in &o.peers {
        s.push_str(&format!(
            "{i}:{}{}{}{}{}{:?}{:?}{:?};",
            v.connected as u8, v.trusted as u8, v.protected as u8, v.archival as u8, v.full as u8, v.connections, tags, exp
        ));
    }
    s.push_str(&format!("{:?}{:?}{:?}{}", o.info, o.watched, o.protected_len, o.all_conns));
    fnv64(s.as_bytes())
}

/// Applies one event to the real tracker; returns the call's return value, if any.
fn apply(t: &mut VPeerTracker, ev: &Ev) -> Option<bool> {
    match ev {
        Ev::AddPeer(p) => Some(t.add_peer_id(&pid(*p))),
        Ev::AddConn(p, c) => {
            t.add_connection(&pid(*p), conn_id(*p, *c));
            None
        }
        Ev::RemConn(p, c) => {
            t.remove_connection(&pid(*p), conn_id(*p, *c));
            None
        }
        Ev::Trust(p, b) => {
            t.set_trusted(&pid(*p), *b);
            None
        }
        Ev::Protect(p, tag) => Some(t.protect(&pid(*p), *tag)),
        Ev::Unprotect(p, tag) => Some(t.unprotect(&pid(*p), *tag)),
        Ev::Archival(p) => {
            t.mark_as_archival(&pid(*p));
            None
        }
        Ev::Agent(p, a) => {
            t.on_agent_version(&pid(*p), AGENTS[*a]);
            None
        }
        Ev::Age(p) => Some(t.age_disconnected(&pid(*p), AGE)),
        Ev::Gc => {
            t.gc();
            None
        }
    }
}

fn class_of(ev: &Ev, ret: Option<bool>, before: &Obs, after: &Obs) -> String {
    match ev {
        Ev::AddPeer(_) => format!("add_peer_id:{}", ret.unwrap()),
        Ev::AddConn(..) => "add_connection".into(),
        Ev::RemConn(..) => "remove_connection".into(),
        Ev::Trust(..) => "set_trusted".into(),
        Ev::Protect(..) => format!("protect:{}", ret.unwrap()),
        Ev::Unprotect(..) => format!("unprotect:{}", ret.unwrap()),
        Ev::Archival(_) => "mark_as_archival".into(),
        Ev::Agent(..) => "on_agent_version".into(),
        Ev::Age(_) => format!("age:{}", ret.unwrap()),
        Ev::Gc => {
            if after.peers.len() < before.peers.len() { "gc:removed".into() } else { "gc:kept-all".into() }
        }
    }
}

/// One transition on the real tracker + the oracle.  `t` is in the state of `model`.
fn transition(t: &mut VPeerTracker, model: &Model, ev: &Ev, peers: usize) -> (Model, Obs, String, Vec<(String, String)>) {
    let mut viol = vec![];
    let before = observe(t, peers);
    let ret = match guard(|| apply(t, ev)) {
        Ok(r) => r,
        Err(p) => {
            viol.push(("panic".to_string(), format!("{ev:?} panicked: {p}")));
            return (model.clone(), before, "panic".into(), viol);
        }
    };
    let after = observe(t, peers);
    let class = class_of(ev, ret, &before, &after);
    let mut m = model.clone();

    // ---- model step (from the documented meaning of each event)
    match ev {
        Ev::AddPeer(p) => {
            let was_new = !m.contains_key(p);
            m.entry(*p).or_insert_with(PeerM::new);
            if ret != Some(was_new) {
                viol.push(("add-peer-id-return".into(), format!("add_peer_id returned {ret:?}, peer unknown before = {was_new}")));
            }
        }
        Ev::AddConn(p, c) => {
            let pm = m.entry(*p).or_insert_with(PeerM::new);
            pm.conns.insert(*c);
            pm.expired = Expired::No;
        }
        Ev::RemConn(p, c) => {
            if let Some(pm) = m.get_mut(p) {
                let was_connected = !pm.conns.is_empty();
                pm.conns.remove(c);
                if pm.conns.is_empty() {
                    pm.expired = if was_connected { Expired::No } else { Expired::Unknown };
                }
            }
        }
        Ev::Trust(p, b) => {
            m.entry(*p).or_insert_with(PeerM::new).trusted = *b;
        }
        Ev::Protect(p, tag) => {
            let pm = m.entry(*p).or_insert_with(PeerM::new);
            let was = !pm.tags.is_empty();
            pm.tags.insert(*tag);
            if ret != Some(!was) {
                viol.push(("protect-return".into(), format!("protect returned {ret:?}, peer was protected before = {was}")));
            }
        }
        Ev::Unprotect(p, tag) => {
            let (was, is) = match m.get_mut(p) {
                Some(pm) => {
                    let was = !pm.tags.is_empty();
                    pm.tags.remove(tag);
                    (was, !pm.tags.is_empty())
                }
                None => (false, false),
            };
            if ret != Some(was && !is) {
                viol.push(("unprotect-return".into(), format!("unprotect returned {ret:?}, protected before = {was}, after = {is}")));
            }
        }
        Ev::Archival(p) => {
            m.entry(*p).or_insert_with(PeerM::new);
        }
        Ev::Agent(p, a) => {
            // classification of the agent string for a connected peer
            if let Some(pm) = m.get(p) {
                if !pm.conns.is_empty() {
                    let full = after.peers.get(p).map(|x| x.0.full);
                    if full != Some(AGENT_IS_FULL[*a]) {
                        viol.push(("agent-version-kind".into(), format!("agent {:?} on a connected peer: is_full = {full:?}", AGENTS[*a])));
                    }
                }
            }
        }
        Ev::Age(p) => {
            let can = m.get(p).is_some_and(|pm| pm.conns.is_empty());
            if ret != Some(can) {
                // the hook itself failed (e.g. Instant underflow): machinery, not property
                viol.push(("machinery-age-hook".into(), format!("age hook returned {ret:?}, expected {can}")));
            }
            if can {
                m.get_mut(p).unwrap().expired = Expired::Yes;
            }
        }
        Ev::Gc => {
            let mut next = Model::new();
            for (p, pm) in &m {
                let real_kept = after.peers.contains_key(p);
                let connected = !pm.conns.is_empty();
                let protected = !pm.tags.is_empty();
                if (connected || protected) && !real_kept {
                    viol.push((
                        if connected { "gc-forgot-connected-peer" } else { "gc-forgot-protected-peer" }.into(),
                        format!("gc removed peer {p} (connected={connected}, protected tags {:?})", pm.tags),
                    ));
                }
                // Which disconnected, unprotected peers gc forgets (and when) is not part of the
                // statement ("never forgets a connected or protected peer"): keeping an expired
                // peer (e.g. a trusted one) or forgetting one early is not judged.  The model
                // simply follows what the real tracker kept.
                if real_kept {
                    next.insert(*p, pm.clone());
                }
            }
            m = next;
        }
    }

    // ---- the tracked peers are the model's peers, with the model's flags
    let real_ids: BTreeSet<usize> = after.peers.keys().copied().collect();
    let model_ids: BTreeSet<usize> = m.keys().copied().collect();
    if real_ids != model_ids {
        viol.push(("tracked-peer-set".into(), format!("after {ev:?}: tracker knows {real_ids:?}, expected {model_ids:?}")));
    }
    for (p, pm) in &m {
        if let Some((v, tags, _)) = after.peers.get(p) {
            let want_conns: Vec<String> = {
                let mut c: Vec<String> = pm.conns.iter().map(|c| conn_id(*p, *c).to_string()).collect();
                c.sort();
                c
            };
            let ok = v.connected == !pm.conns.is_empty()
                && v.connections == want_conns
                && v.trusted == pm.trusted
                && v.protected == !pm.tags.is_empty()
                && tags.iter().copied().collect::<BTreeSet<u32>>() == pm.tags
                && t.is_connected(&v.id) == v.connected
                && t.is_protected(&v.id) == v.protected;
            if !ok {
                viol.push(("peer-state".into(), format!("after {ev:?}: peer {p} view {v:?} tags {tags:?}, expected {pm:?}")));
            }
        }
    }

    // ---- the statement: published statistics == recount of the tracked peers
    let mut recount = [0u64; 4];
    for (v, _, _) in after.peers.values() {
        if v.connected {
            recount[0] += 1;
            recount[1] += v.trusted as u64;
            recount[2] += v.full as u64;
            recount[3] += v.archival as u64;
        }
    }
    if after.info != recount {
        viol.push((
            "info-differs-from-recount".into(),
            format!("after {ev:?}: info() = {:?} (peers, trusted, full, archival) but the tracked peers give {recount:?}", after.info),
        ));
    }
    if after.watched != recount {
        viol.push(("watcher-differs-from-recount".into(), format!("after {ev:?}: watcher sees {:?}, recount {recount:?}", after.watched)));
    }
    // independent recount of connected / trusted from the model
    let mc = m.values().filter(|p| !p.conns.is_empty()).count() as u64;
    let mt = m.values().filter(|p| !p.conns.is_empty() && p.trusted).count() as u64;
    if after.info[0] != mc || after.info[1] != mt {
        viol.push(("info-differs-from-events".into(), format!("after {ev:?}: info() = {:?}, events give connected={mc} trusted={mt}", after.info)));
    }
    // ---- per-tag protected counts
    for (i, tag) in TAGS.iter().enumerate() {
        let by_view = after.peers.values().filter(|(_, tags, _)| tags.contains(tag)).count();
        let by_model = m.values().filter(|p| p.tags.contains(tag)).count();
        if after.protected_len[i] != by_view || after.protected_len[i] != by_model {
            viol.push((
                "protected-len-differs-from-count".into(),
                format!("after {ev:?}: protected_len({tag}) = {}, peers protected with it: {by_view} (events: {by_model})", after.protected_len[i]),
            ));
        }
    }
    let conns: usize = m.values().map(|p| p.conns.len()).sum();
    if after.all_conns != conns {
        viol.push(("all-connections-count".into(), format!("after {ev:?}: all_connections() has {} entries, expected {conns}", after.all_conns)));
    }
    (m, after, class, viol)
}

/// Rebuilds the tracker of a history (no checks).
fn rebuild(hist: &[Ev]) -> VPeerTracker {
    let mut t = VPeerTracker::new();
    for e in hist {
        apply(&mut t, e);
    }
    t
}

fn main() {
    let ctx = Ctx::from_args("C39");
    let mut rep = Report::new();
    rep.sample_cap = 8;

    if let Some(c) = ctx.replay_case() {
        let hist: Vec<Ev> = serde_json::from_value(c["history"].clone()).expect("history");
        let peers = 8;
        let mut t = VPeerTracker::new();
        let mut model = Model::new();
        for (i, e) in hist.iter().enumerate() {
            let (m, _o, class, viol) = transition(&mut t, &model, e, peers);
            rep.case_nokey(&class);
            for (k, w) in viol {
                rep.violation(&k, w, json!({"history": hist[..=i]}));
            }
            model = m;
        }
    } else {
        // (peers, depth): the alphabet grows with the number of peers
        let plans: &[(usize, usize)] = ctx.tier.pick(&[(2, 6), (3, 5)][..], &[(2, 8), (3, 7), (4, 6)][..]);
        let mut plan_out = vec![];
        for &(peers, depth) in plans {
            let ops = alphabet(peers);
            let cfg = BfsConfig {
                max_depth: depth,
                max_states: ctx.tier.pick(3_000_000, 8_000_000),
                wall_cap: Duration::from_secs(ctx.tier.pick(40, 700)),
                dedup: true,
            };
            let init = St { hist: vec![], model: [0; 4] };
            let k0 = obs_key(&observe(&VPeerTracker::new(), peers));
            let mut r = Report::new();
            let codes: Vec<u8> = (0..ops.len() as u8).collect();
            #[derive(Clone, Serialize)]
            #[serde(transparent)]
            struct Code(Ev);
            bfs(
                init,
                k0,
                &cfg,
                |_s| ops.iter().cloned().map(Code).collect::<Vec<Code>>(),
                |s, Code(ev)| {
                    let past: Vec<Ev> = s.hist.iter().map(|c| ops[*c as usize].clone()).collect();
                    let mut t = rebuild(&past);
                    let (model, obs, class, violations) = transition(&mut t, &unpack(&s.model), ev, peers);
                    let mut hist = Vec::with_capacity(s.hist.len() + 1);
                    hist.extend_from_slice(&s.hist);
                    hist.push(codes[ops.iter().position(|o| o == ev).unwrap()]);
                    Step { next: St { hist, model: pack(&model) }, key: obs_key(&obs), class, violations }
                },
                &mut r,
            );
            plan_out.push(json!({"peers": peers, "depth": depth, "alphabet": ops.len(), "states": r.states, "transitions": r.transitions, "caps": r.caps_hit}));
            rep.merge_in(r);
        }
        rep.extra("plans", json!(plan_out));
        rep.extra("distinct_by_construction", json!(rep.states));
        rep.extra("distinct_nontrivial_by_construction", json!(rep.states));
    }
    rep.violations.sort_by_key(|v| (v.key.clone(), v.case.to_string().len()));
    finish(
        &ctx,
        rep,
        Spec {
            rule: "BFS over all histories of peer events from an empty tracker, de-duplicated on the complete observable view (per peer: connections, trusted, protection tags, archival, full, expired bit; published info; protected_len per tag). Alphabet per peer: add_peer_id, add/remove_connection x 2 connection ids, set_trusted(true/false), protect/unprotect x tags {1,2}, mark_as_archival, on_agent_version x 6 agent strings, age-disconnected(+121 s); plus gc. quick: 2 peers depth 6, 3 peers depth 5; thorough: 2 peers depth 8, 3 peers depth 7, 4 peers depth 6. After every transition: info() and the watcher == recount over peers(); connected/trusted counts == counts implied by the events; protected_len(tag) == number of peers protected with tag; return values of add_peer_id/protect/unprotect; gc keeps every connected or protected peer, keeps non-expired peers and drops expired unprotected disconnected ones. distinct = distinct observable states; every state is non-trivial except the initial one",
            assumptions: &[
                "the GC clock is std::time::Instant, which cannot be paused: expiry is reached with the verif_age_disconnected hook (a peer is aged by 121 s; EXPIRED_AFTER is 120 s), a replay of a history takes microseconds so un-aged peers stay far from expiry",
                "archival / full flags of a peer are read from the tracker's own per-peer accessors (the statement defines the statistics as a recount of the tracked peers); connections, trust and protection tags are modelled independently from the events",
                "remove_connection on an already disconnected peer restarts its expiry clock in the code; the check accepts either answer from the following gc for such a peer",
                "ping events are not part of the alphabet (they do not influence any count)",
            ],
            required_classes: &[
                "add_peer_id:true", "add_peer_id:false", "protect:true", "protect:false", "unprotect:true", "unprotect:false",
                "gc:removed", "gc:kept-all", "age:true", "age:false", "add_connection", "remove_connection", "set_trusted",
                "mark_as_archival", "on_agent_version",
            ],
            exhaustive: true,
        },
    );
}
