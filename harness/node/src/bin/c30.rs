//! C30 — Header-ex wire framing round-trips under any chunking.   (engine E1)
//!
//! Code under test: `HeaderCodec::{write_request, write_response, read_request, read_response}`
//! with `read_up_to` / `parse_*` (node/src/p2p/header_ex.rs), through
//! `lumina_node::verif::header_ex::codec_*` over harness-owned `AsyncRead` / `AsyncWrite`.
//!
//! Every message is written by the real writer, then read back through a scripted stream:
//!   * messages of n <= NMAX bytes: EVERY composition of the n bytes into chunks (2^(n-1)),
//!     each with and without a `Pending` before every chunk and before EOF;
//!   * all messages: fixed chunk sizes {1,2,3,7,4096}, one cut at every position, (real-size
//!     messages) all pairs of cuts from a boundary-centred position set;
//!   * truncation of the stream at EVERY byte; undecodable prefixes / tails.
//! Oracle: complete stream => the written value; truncated request => error; truncated
//! response stream => error or a proper prefix of the written list (DESIGN §5/S15), never
//! another value; undecodable first message => error.
use celestia_proto::p2p::pb::header_request::Data;
use celestia_proto::p2p::pb::{HeaderRequest, HeaderResponse};
use celestia_types::test_utils::ExtendedHeaderGenerator;
use lumina_node::verif::header_ex::{
    REQUEST_SIZE_LIMIT, RESPONSE_SIZE_LIMIT, codec_read_request, codec_read_response, codec_write_request, codec_write_response,
};
use lv_core::*;
use serde_json::{Value, json};
use std::sync::atomic::{AtomicU64, Ordering};
use tendermint_proto::Protobuf;

#[path = "../shared/hex_common.rs"]
mod hex_common;
use hex_common::*;

// ------------------------------------------------------------------ allocator (harness process only)
//
// `read_response` allocates `vec![0u8; RESPONSE_SIZE_LIMIT]` (10 MiB, zeroed) for every call:
// ~0.5 ms of memset (or ~1 ms of mmap/munmap on this machine) per read, which would limit the
// check to a few hundred thousand reads.  This allocator recycles exactly that buffer per
// thread: when the 10 MiB zeroed block it handed out is freed, the first `DIRTY` bytes (set by
// the harness to the length of the stream it served, the only bytes a reader can have written)
// are cleared again and the block is kept for the next `alloc_zeroed` of that size.  Every
// 512th recycle the whole block is verified to be zero, so a codec that wrote anywhere else
// into its buffer would stop the run as a machinery error instead of corrupting later cases.
mod pool {
    use std::alloc::{GlobalAlloc, Layout, System};
    use std::cell::Cell;

    pub const BIG: usize = 10 * 1024 * 1024;

    thread_local! {
        static POOLED: Cell<*mut u8> = const { Cell::new(std::ptr::null_mut()) };
        static OUT: Cell<*mut u8> = const { Cell::new(std::ptr::null_mut()) };
        pub static DIRTY: Cell<usize> = const { Cell::new(BIG) };
        static RECYCLES: Cell<u64> = const { Cell::new(0) };
    }

    pub struct PoolAlloc;

    unsafe impl GlobalAlloc for PoolAlloc {
        unsafe fn alloc(&self, l: Layout) -> *mut u8 {
            unsafe { System.alloc(l) }
        }
        unsafe fn alloc_zeroed(&self, l: Layout) -> *mut u8 {
            if l.size() == BIG && l.align() == 1 {
                let p = POOLED.with(|c| c.replace(std::ptr::null_mut()));
                let p = if p.is_null() { unsafe { System.alloc_zeroed(l) } } else { p };
                OUT.with(|c| c.set(p));
                return p;
            }
            unsafe { System.alloc_zeroed(l) }
        }
        unsafe fn dealloc(&self, p: *mut u8, l: Layout) {
            if l.size() == BIG && l.align() == 1 && OUT.with(|c| c.get()) == p && POOLED.with(|c| c.get()).is_null() {
                OUT.with(|c| c.set(std::ptr::null_mut()));
                let dirty = DIRTY.with(|c| c.get()).min(BIG);
                unsafe { std::ptr::write_bytes(p, 0, dirty) };
                let n = RECYCLES.with(|c| {
                    c.set(c.get() + 1);
                    c.get()
                });
                if n % 512 == 1 {
                    let all = unsafe { std::slice::from_raw_parts(p, BIG) };
                    if all.iter().any(|b| *b != 0) {
                        // cannot allocate/format here: plain abort with a fixed message
                        let msg = b"MACHINERY-ERROR property=C30 recycled read buffer was written beyond the served stream\n";
                        unsafe { libc::write(1, msg.as_ptr() as *const _, msg.len()) };
                        unsafe { libc::_exit(2) };
                    }
                }
                POOLED.with(|c| c.set(p));
                return;
            }
            unsafe { System.dealloc(p, l) }
        }
        unsafe fn realloc(&self, p: *mut u8, l: Layout, new_size: usize) -> *mut u8 {
            if l.size() == BIG && l.align() == 1 {
                // generic path so that a pooled block never reaches System.realloc unnoticed
                let nl = unsafe { Layout::from_size_align_unchecked(new_size, l.align()) };
                let np = unsafe { System.alloc(nl) };
                if !np.is_null() {
                    unsafe { std::ptr::copy_nonoverlapping(p, np, l.size().min(new_size)) };
                    unsafe { self.dealloc(p, l) };
                }
                return np;
            }
            unsafe { System.realloc(p, l, new_size) }
        }
    }
}

#[global_allocator]
static ALLOC: pool::PoolAlloc = pool::PoolAlloc;

static NONTRIVIAL: AtomicU64 = AtomicU64::new(0);
static FLAKY: AtomicU64 = AtomicU64::new(0);
thread_local! {
    /// per-thread part of NONTRIVIAL, flushed at the end of every job
    static NT_LOCAL: std::cell::Cell<u64> = const { std::cell::Cell::new(0) };
}
fn flush_nontrivial() {
    NONTRIVIAL.fetch_add(NT_LOCAL.with(|c| c.replace(0)), Ordering::Relaxed);
}

// ------------------------------------------------------------------ messages

#[derive(Clone, Debug, PartialEq)]
enum Msg {
    Req(MRequest),
    Resps(Vec<MResponse>),
}

fn body_json(b: &[u8], seed: u64) -> Value {
    if b.len() > 8192 && b == &filler(b.len(), seed)[..] {
        json!({"fill_len": b.len()})
    } else {
        json!(hex::encode(b))
    }
}
fn body_from_json(v: &Value, seed: u64) -> Option<Vec<u8>> {
    if let Some(n) = v.get("fill_len") {
        Some(filler(n.as_u64()? as usize, seed))
    } else {
        hex::decode(v.as_str()?).ok()
    }
}
fn filler(n: usize, seed: u64) -> Vec<u8> {
    Fill::new(seed, 30).bytes(n)
}

impl Msg {
    fn is_req(&self) -> bool {
        matches!(self, Msg::Req(_))
    }
    fn to_json(&self, seed: u64) -> Value {
        match self {
            Msg::Req(r) => json!({"request": {"amount": r.amount, "data": match &r.data {
                MData::None => json!("none"),
                MData::Origin(o) => json!({"origin": o}),
                MData::Hash(h) => json!({"hash": body_json(h, seed)}),
            }}}),
            Msg::Resps(l) => json!({"responses": l.iter().map(|r| json!({"status": r.status, "body": body_json(&r.body, seed)})).collect::<Vec<_>>()}),
        }
    }
    fn from_json(v: &Value, seed: u64) -> Option<Msg> {
        if let Some(r) = v.get("request") {
            let d = &r["data"];
            let data = if d == "none" {
                MData::None
            } else if let Some(o) = d.get("origin") {
                MData::Origin(o.as_u64()?)
            } else {
                MData::Hash(body_from_json(d.get("hash")?, seed)?)
            };
            Some(Msg::Req(MRequest { data, amount: r["amount"].as_u64()? }))
        } else {
            let l = v.get("responses")?.as_array()?;
            let mut out = vec![];
            for e in l {
                out.push(MResponse {
                    status: e["status"].as_i64()? as i32,
                    body: body_from_json(&e["body"], seed)?,
                });
            }
            Some(Msg::Resps(out))
        }
    }
}

fn to_prost_req(r: &MRequest) -> HeaderRequest {
    HeaderRequest {
        amount: r.amount,
        data: match &r.data {
            MData::None => None,
            MData::Origin(o) => Some(Data::Origin(*o)),
            MData::Hash(h) => Some(Data::Hash(h.clone())),
        },
    }
}
fn to_prost_resp(r: &MResponse) -> HeaderResponse {
    HeaderResponse {
        body: r.body.clone(),
        status_code: r.status,
    }
}

#[derive(Debug, PartialEq)]
enum Got {
    Req(HeaderRequest),
    Resps(Vec<HeaderResponse>),
}

fn expected_value(m: &Msg) -> Got {
    match m {
        Msg::Req(r) => Got::Req(to_prost_req(r)),
        Msg::Resps(l) => Got::Resps(l.iter().map(to_prost_resp).collect()),
    }
}

/// The reference wire image (from-scratch encoder).
fn reference_bytes(m: &Msg) -> Vec<u8> {
    match m {
        Msg::Req(r) => delimited(&request_payload(r)),
        Msg::Resps(l) => {
            let mut out = vec![];
            for r in l {
                out.extend_from_slice(&delimited(&response_payload(r)));
            }
            out
        }
    }
}

/// Writes with the REAL codec into a sink that takes `max_per_write` bytes per call.
fn write_real(m: &Msg, max_per_write: usize, pending: bool) -> Result<Result<Vec<u8>, String>, String> {
    guard(|| {
        block_on(async {
            let mut w = VecWriter::new(max_per_write, pending);
            let r = match m {
                Msg::Req(r) => codec_write_request(&mut w, to_prost_req(r)).await,
                Msg::Resps(l) => codec_write_response(&mut w, l.iter().map(to_prost_resp).collect()).await,
            };
            r.map(|_| w.buf).map_err(|e| e.to_string())
        })
    })
}

// ------------------------------------------------------------------ chunkings

#[derive(Clone, Debug)]
enum Chunks {
    Mask(u64),
    Fixed(usize),
    Cuts(Vec<usize>),
}

impl Chunks {
    fn ends(&self) -> ChunkEnds<'_> {
        match self {
            Chunks::Mask(m) => ChunkEnds::Mask(*m),
            Chunks::Fixed(k) => ChunkEnds::Fixed(*k),
            Chunks::Cuts(c) => ChunkEnds::Cuts(c),
        }
    }
    fn to_json(&self) -> Value {
        match self {
            Chunks::Mask(m) => json!({"cut_after_mask": m}),
            Chunks::Fixed(k) => json!({"fixed": k}),
            Chunks::Cuts(c) => json!({"cuts": c}),
        }
    }
    fn from_json(v: &Value) -> Option<Chunks> {
        if let Some(m) = v.get("cut_after_mask") {
            Some(Chunks::Mask(m.as_u64()?))
        } else if let Some(k) = v.get("fixed") {
            Some(Chunks::Fixed(k.as_u64()? as usize))
        } else {
            Some(Chunks::Cuts(v.get("cuts")?.as_array()?.iter().filter_map(|x| x.as_u64().map(|x| x as usize)).collect()))
        }
    }
    fn splits(&self, n: usize) -> bool {
        match self {
            Chunks::Mask(m) => *m != 0,
            Chunks::Fixed(k) => *k < n,
            Chunks::Cuts(c) => c.iter().any(|x| *x > 0 && *x < n),
        }
    }
}

fn read_real(is_req: bool, data: &[u8], ends: ChunkEnds<'_>, pending: bool) -> Result<Result<Got, String>, String> {
    // see `pool`: the only bytes a reader can put into the codec's buffer
    pool::DIRTY.with(|c| c.set(data.len()));
    guard(|| {
        block_on(async {
            let mut r = ScriptedReader::new(data, ends, pending);
            if is_req {
                codec_read_request(&mut r).await.map(Got::Req).map_err(|e| e.to_string())
            } else {
                codec_read_response(&mut r).await.map(Got::Resps).map_err(|e| e.to_string())
            }
        })
    })
}

// ------------------------------------------------------------------ garbage (independent of prost)

fn garbage() -> Vec<(&'static str, Vec<u8>)> {
    let payload_ok = vec![0x10u8, 0x01]; // a decodable payload for both messages (field 2 varint 1 / status OK)
    let with_len = |len: u64, tail: &[u8]| {
        let mut v = varint(len);
        v.extend_from_slice(tail);
        v
    };
    vec![
        ("varint-11-bytes", [vec![0x80u8; 10], vec![0x01]].concat()),
        ("varint-all-ff", vec![0xff; 11]),
        ("varint-cut", vec![0x80]),
        ("varint-cut-2", vec![0xff, 0xff]),
        ("len-exceeds-remaining", with_len(5, &[0x10, 0x01, 0x10, 0x01])),
        ("len-1-no-payload", with_len(1, &[])),
        ("len-2^64-1", with_len(u64::MAX, &payload_ok)),
        ("len-2^63", with_len(1 << 63, &payload_ok)),
        ("len-2^32", with_len(1 << 32, &payload_ok)),
        ("payload-wiretype-7", with_len(1, &[0x0f])),
        ("payload-field1-len-underflow", with_len(3, &[0x0a, 0x05, 0x01])),
        ("payload-varint-value-cut", with_len(1, &[0x08])),
        ("payload-field-number-0", with_len(2, &[0x00, 0x00])),
        ("payload-varint-value-11-bytes", with_len(12, &[[0x18u8].as_slice(), &[0xff; 10], &[0x7f]].concat())),
    ]
}

// ------------------------------------------------------------------ one evaluation

#[derive(Clone, Debug)]
struct Stream {
    is_req: bool,
    msg: Option<Msg>,
    truncate: Option<usize>,
    /// (index into garbage(), garbage before the written bytes?)
    garbage: Option<(usize, bool)>,
}

enum Expect {
    Same(Got),
    /// truncated request / undecodable first message
    Error(&'static str),
    /// error or proper prefix of this list
    ProperPrefix(Vec<HeaderResponse>, &'static str),
    /// error, prefix or the list itself
    PrefixOrEqual(Vec<HeaderResponse>, &'static str),
    /// error or the value itself
    ErrorOrSame(Got, &'static str),
}

struct Prepared {
    bytes: Vec<u8>,
    expect: Expect,
}

fn prost_list(m: &Msg) -> Vec<HeaderResponse> {
    match m {
        Msg::Resps(l) => l.iter().map(to_prost_resp).collect(),
        _ => vec![],
    }
}

/// `written`: the real writer's bytes for `s.msg` (empty when there is no message).
fn prepare(s: &Stream, written: &[u8]) -> Prepared {
    let kind = if s.is_req { "request" } else { "response" };
    let _ = kind;
    let limit = if s.is_req { REQUEST_SIZE_LIMIT } else { RESPONSE_SIZE_LIMIT };
    match (&s.garbage, s.truncate) {
        (Some((g, true)), _) => {
            let mut bytes = garbage()[*g].1.clone();
            bytes.extend_from_slice(written);
            Prepared { bytes, expect: Expect::Error("garbage") }
        }
        (Some((g, false)), _) => {
            let mut bytes = written.to_vec();
            bytes.extend_from_slice(&garbage()[*g].1);
            let m = s.msg.as_ref().expect("tail garbage needs a message");
            let expect = if s.is_req {
                Expect::ErrorOrSame(expected_value(m), "garbage-tail")
            } else {
                Expect::PrefixOrEqual(prost_list(m), "garbage-tail")
            };
            Prepared { bytes, expect }
        }
        (None, Some(k)) => {
            let m = s.msg.as_ref().expect("truncation needs a message");
            let bytes = written[..k.min(written.len())].to_vec();
            let expect = if s.is_req { Expect::Error("trunc") } else { Expect::ProperPrefix(prost_list(m), "trunc") };
            Prepared { bytes, expect }
        }
        (None, None) => {
            let m = s.msg.as_ref().expect("message");
            let expect = if written.len() > limit {
                if s.is_req {
                    Expect::ErrorOrSame(expected_value(m), "over-limit")
                } else {
                    Expect::PrefixOrEqual(prost_list(m), "over-limit")
                }
            } else if matches!(m, Msg::Resps(l) if l.is_empty()) {
                // zero bytes on the wire: the same stream as "truncated at byte 0"
                Expect::PrefixOrEqual(vec![], "empty-list")
            } else {
                Expect::Same(expected_value(m))
            };
            Prepared { bytes: written.to_vec(), expect }
        }
    }
}

/// Outcome-class names without allocating on the hot path.
fn class_name(tag: &'static str, is_req: bool, outcome: &'static str) -> &'static str {
    match (tag, is_req, outcome) {
        ("roundtrip", true, "ok") => "roundtrip:request",
        ("roundtrip", false, "ok") => "roundtrip:response",
        ("trunc", true, "error") => "trunc:request:error",
        ("trunc", false, "error") => "trunc:response:error",
        ("trunc", false, "prefix") => "trunc:response:prefix",
        ("garbage", true, "error") => "garbage:request:error",
        ("garbage", false, "error") => "garbage:response:error",
        ("garbage-tail", true, "as-written") => "garbage-tail:request:as-written",
        ("garbage-tail", true, "error") => "garbage-tail:request:error",
        ("garbage-tail", false, "as-written") => "garbage-tail:response:as-written",
        ("garbage-tail", false, "prefix") => "garbage-tail:response:prefix",
        ("garbage-tail", false, "error") => "garbage-tail:response:error",
        ("over-limit", true, "error") => "over-limit:request:error",
        ("over-limit", false, "error") => "over-limit:response:error",
        ("over-limit", false, "prefix") => "over-limit:response:prefix",
        ("empty-list", false, "error") => "empty-list:response:error",
        ("empty-list", false, "as-written") => "empty-list:response:as-written",
        // violation paths and anything unforeseen: rare, may allocate
        _ => Box::leak(format!("{tag}:{}:{outcome}", if is_req { "request" } else { "response" }).into_boxed_str()),
    }
}

fn judge(is_req: bool, expect: &Expect, got: &Result<Result<Got, String>, String>) -> (&'static str, Option<(&'static str, String)>) {
    let got = match got {
        Err(p) => return ("panic", Some(("panic", format!("codec panicked: {p}")))),
        Ok(g) => g,
    };
    fn list_of(g: &Got) -> &[HeaderResponse] {
        match g {
            Got::Resps(l) => l,
            _ => &[],
        }
    }
    match expect {
        Expect::Same(want) => match got {
            Ok(v) if v == want => (class_name("roundtrip", is_req, "ok"), None),
            Ok(v) => ("roundtrip:different", Some(("roundtrip-different-value", format!("read back {} instead of the written value", brief(v))))),
            Err(e) => ("roundtrip:error", Some(("roundtrip-error", format!("complete stream refused: {e}")))),
        },
        Expect::Error(tag) => match got {
            Err(_) => (class_name(tag, is_req, "error"), None),
            Ok(v) => (
                class_name(tag, is_req, "accepted"),
                Some((if *tag == "trunc" { "truncated-request-accepted" } else { "garbage-accepted" }, format!("stream accepted as {}", brief(v)))),
            ),
        },
        Expect::ProperPrefix(list, tag) | Expect::PrefixOrEqual(list, tag) => {
            let allow_equal = matches!(expect, Expect::PrefixOrEqual(..));
            match got {
                Err(_) => (class_name(tag, is_req, "error"), None),
                Ok(v) => {
                    let l = list_of(v);
                    let is_prefix = matches!(v, Got::Resps(_)) && l.len() <= list.len() && l[..] == list[..l.len()];
                    if is_prefix && l.len() < list.len() {
                        (class_name(tag, is_req, "prefix"), None)
                    } else if is_prefix && allow_equal {
                        (class_name(tag, is_req, "as-written"), None)
                    } else if is_prefix {
                        (class_name(tag, is_req, "as-written"), Some(("truncated-response-accepted-as-complete", format!("cut stream read as the complete list of {} entries", l.len()))))
                    } else {
                        (class_name(tag, is_req, "different"), Some(("stream-read-as-different-value", format!("read {} which is not a prefix of the written list", brief(v)))))
                    }
                }
            }
        }
        Expect::ErrorOrSame(want, tag) => match got {
            Err(_) => (class_name(tag, is_req, "error"), None),
            Ok(v) if v == want => (class_name(tag, is_req, "as-written"), None),
            Ok(v) => (class_name(tag, is_req, "different"), Some(("stream-read-as-different-value", format!("read {} instead of the written value", brief(v))))),
        },
    }
}

fn brief(g: &Got) -> String {
    match g {
        Got::Req(r) => format!("request {r:?}").chars().take(160).collect(),
        Got::Resps(l) => format!("{} response(s) [{}]", l.len(), l.iter().take(4).map(|r| format!("status {} body {}B", r.status_code, r.body.len())).collect::<Vec<_>>().join(", ")),
    }
}

struct Env {
    seed: u64,
}

/// Reads `prep.bytes` under one chunking and records the outcome.
fn eval(env: &Env, s: &Stream, prep: &Prepared, chunks: &Chunks, pending: bool, rep: &mut Report) {
    let mut got = read_real(s.is_req, &prep.bytes, chunks.ends(), pending);
    let (mut class, mut violation) = judge(s.is_req, &prep.expect, &got);
    // a failure class that already has its 3 recorded cases is only counted from here on
    let saturated = violation.as_ref().is_some_and(|(k, _)| rep.violations.iter().filter(|v| v.key == *k).count() >= 3);
    if violation.is_some() && !saturated {
        // a verdict must be reproducible (the only wall-clock dependence is read_up_to's
        // std::time::Instant deadline): re-run twice
        for _ in 0..2 {
            let again = read_real(s.is_req, &prep.bytes, chunks.ends(), pending);
            let (c2, v2) = judge(s.is_req, &prep.expect, &again);
            if v2.is_none() {
                FLAKY.fetch_add(1, Ordering::Relaxed);
                rep.cap_hit("non-reproducible outcome on re-run (wall-clock deadline hit under load?)");
                got = again;
                class = c2;
                violation = None;
                break;
            }
        }
    }
    rep.case_nokey(class);
    rep.states += 1;
    if chunks.splits(prep.bytes.len()) || s.truncate.is_some() || s.garbage.is_some() {
        NT_LOCAL.with(|c| c.set(c.get() + 1));
    }
    let case = || {
        json!({
            "is_request": s.is_req,
            "message": s.msg.as_ref().map(|m| m.to_json(env.seed)),
            "truncate": s.truncate,
            "garbage": s.garbage.map(|(g, first)| json!({"index": g, "name": garbage()[g].0, "before_message": first})),
            "chunks": chunks.to_json(),
            "pending": pending,
            "stream_len": prep.bytes.len(),
        })
    };
    if rep.wants_sample() && prep.bytes.len() < 64 && rep.evaluations % 50021 == 17 {
        rep.sample(|| json!({"case": case(), "stream_hex": hex::encode(&prep.bytes), "class": class, "result": match &got { Ok(Ok(v)) => brief(v), Ok(Err(e)) => format!("error: {e}"), Err(p) => format!("panic: {p}") }}));
    }
    if let Some((k, what)) = violation {
        if saturated {
            rep.violation_count += 1;
        } else {
            rep.violation(k, what, case());
        }
    }
}

/// Real writer under three sink behaviours; the bytes must not depend on the sink.
fn written_bytes(env: &Env, m: &Msg, rep: &mut Report) -> Option<Vec<u8>> {
    let case = || json!({"write": true, "message": m.to_json(env.seed)});
    let mut out: Option<Vec<u8>> = None;
    let big = reference_bytes(m).len() > 1 << 16;
    let sinks: &[(usize, bool)] = if big { &[(usize::MAX, false), (65_537, true)] } else { &[(usize::MAX, false), (1, true), (7, false)] };
    for (max, pending) in sinks {
        match write_real(m, *max, *pending) {
            Err(p) => {
                rep.case_nokey("panic");
                rep.violation("panic", format!("writer panicked: {p}"), case());
                return None;
            }
            Ok(Err(e)) => {
                rep.case_nokey("write:error");
                rep.violation("write-error", format!("writer failed: {e}"), case());
                return None;
            }
            Ok(Ok(b)) => {
                rep.case_nokey("write:ok");
                match &out {
                    None => out = Some(b),
                    Some(first) if *first != b => {
                        rep.violation("write-depends-on-sink", "written bytes differ between sinks".into(), case());
                        return None;
                    }
                    _ => {}
                }
            }
        }
    }
    out
}

// ------------------------------------------------------------------ the space

fn small_requests(seed: u64) -> Vec<Msg> {
    let mut f = Fill::new(seed, 31);
    let datas = vec![
        MData::None,
        MData::Origin(0),
        MData::Origin(1),
        MData::Origin(300),
        MData::Origin(u64::MAX),
        MData::Hash(vec![]),
        MData::Hash(f.bytes(1)),
        MData::Hash(f.bytes(3)),
        MData::Hash(f.bytes(32)),
        MData::Hash(f.bytes(200)),
    ];
    let mut v = vec![];
    for amount in [1u64, 0, 127, 128, 512, u64::MAX] {
        for d in &datas {
            v.push(Msg::Req(MRequest { data: d.clone(), amount }));
        }
    }
    v
}

fn small_entries(seed: u64) -> Vec<MResponse> {
    let mut f = Fill::new(seed, 32);
    let mut v = vec![];
    for status in [1, 0, 2, 7] {
        for blen in 0..=3usize {
            // a zero first byte would also be fine; bodies are arbitrary payload
            v.push(MResponse { body: f.bytes(blen), status });
        }
    }
    v
}

fn small_lists(seed: u64, max_len: usize) -> Vec<Msg> {
    let es = small_entries(seed);
    let mut v = vec![Msg::Resps(vec![])];
    let mut cur: Vec<Vec<MResponse>> = vec![vec![]];
    for _ in 0..max_len {
        let mut next = vec![];
        for l in &cur {
            for e in &es {
                let mut l2 = l.clone();
                l2.push(e.clone());
                next.push(l2);
            }
        }
        v.extend(next.iter().cloned().map(Msg::Resps));
        cur = next;
    }
    // statuses whose varint is 5 / 10 bytes long
    for status in [-1, i32::MAX, i32::MIN] {
        v.push(Msg::Resps(vec![MResponse { body: vec![0xab], status }]));
    }
    v
}

fn real_size(seed: u64) -> Vec<Msg> {
    let hs = ExtendedHeaderGenerator::new().next_many(3);
    let ok = |i: usize| MResponse { body: hs[i].clone().encode_vec(), status: 1 };
    let nf = MResponse { body: vec![], status: 2 };
    let _ = seed;
    vec![
        Msg::Resps(vec![ok(0)]),
        Msg::Resps(vec![ok(0), ok(1)]),
        Msg::Resps(vec![ok(0), ok(1), ok(2)]),
        Msg::Resps(vec![ok(0), nf.clone()]),
        Msg::Resps(vec![nf, ok(1)]),
    ]
}

fn varint_len(v: u64) -> usize {
    varint(v).len()
}
/// wire size of one response entry with a `b`-byte body and status OK
fn entry_wire_len(b: usize) -> usize {
    let payload = if b == 0 { 0 } else { 1 + varint_len(b as u64) + b } + 2;
    varint_len(payload as u64) + payload
}
/// wire size of a hash request (amount 1) with an `l`-byte hash
fn hash_request_wire_len(l: usize) -> usize {
    let payload = 1 + varint_len(l as u64) + l + 2;
    varint_len(payload as u64) + payload
}

/// A hash request whose wire image is exactly `total` bytes.
fn request_of_size(total: usize, seed: u64) -> Msg {
    let l = (0..=total).find(|l| hash_request_wire_len(*l) == total).unwrap_or_else(|| machinery_error("C30", &format!("no request of wire size {total}")));
    let m = Msg::Req(MRequest { data: MData::Hash(filler(l, seed)), amount: 1 });
    assert_eq!(reference_bytes(&m).len(), total);
    m
}

/// A response list of `entries` entries (all but the last equal-sized) whose wire image is
/// exactly `total` bytes.
fn responses_of_size(total: usize, entries: usize, seed: u64) -> Msg {
    let per = total / entries - 16;
    let rest = total - (entries - 1) * entry_wire_len(per);
    let last = (rest.saturating_sub(16)..=rest).find(|b| entry_wire_len(*b) == rest).unwrap_or_else(|| machinery_error("C30", &format!("cannot hit wire size {total}")));
    let body = filler(per.max(last), seed);
    let mut list: Vec<MResponse> = (0..entries - 1).map(|_| MResponse { body: body[..per].to_vec(), status: 1 }).collect();
    list.push(MResponse { body: body[..last].to_vec(), status: 1 });
    Msg::Resps(list)
}

#[derive(Clone, Debug)]
enum Job {
    /// all compositions with masks in lo..hi of message i
    Compose(usize, u64, u64),
    /// structured chunkings, truncations, tail garbage of message i
    Structured(usize),
    /// garbage g as the first message: alone (msg None) or followed by a valid message
    Garbage(bool, usize),
    /// messages around the size limits
    Limit(usize),
}

fn structured_chunkings(n: usize, boundaries: &[usize], pairs: bool) -> Vec<Chunks> {
    let mut v = vec![Chunks::Fixed(usize::MAX >> 1), Chunks::Fixed(1), Chunks::Fixed(2), Chunks::Fixed(3), Chunks::Fixed(7), Chunks::Fixed(4096)];
    for c in 1..n {
        v.push(Chunks::Cuts(vec![c]));
    }
    if pairs {
        let mut pts: Vec<usize> = boundaries.iter().flat_map(|b| (b.saturating_sub(2)..=b + 2).collect::<Vec<_>>()).chain((1..n).step_by(97)).filter(|p| *p > 0 && *p < n).collect();
        pts.sort();
        pts.dedup();
        for (i, a) in pts.iter().enumerate() {
            for b in &pts[i + 1..] {
                v.push(Chunks::Cuts(vec![*a, *b]));
            }
        }
    }
    v
}

/// Offsets where a message (its length prefix) starts and where its payload starts.
fn boundaries(m: &Msg) -> Vec<usize> {
    let mut out = vec![];
    let mut off = 0;
    if let Msg::Resps(l) = m {
        for r in l {
            let p = response_payload(r);
            out.push(off);
            out.push(off + varint(p.len() as u64).len());
            off += varint(p.len() as u64).len() + p.len();
        }
    }
    out
}

fn main() {
    let ctx = Ctx::from_args("C30");
    assert_eq!(pool::BIG, RESPONSE_SIZE_LIMIT);
    let env = Env { seed: ctx.seed };
    // all compositions for response streams of up to `nmax` bytes, request streams up to `nmax_req`
    let nmax: usize = ctx.tier.pick(12, 18);
    let nmax_req: usize = ctx.tier.pick(16, 23);
    // all compositions of every truncated stream of up to this many bytes
    let trunc_comp: usize = ctx.tier.pick(6, 10);
    let list_len: usize = 3;
    // sized for ~20 s (quick) / ~4 min (thorough) on 16 free cores; the cap only binds on a loaded machine
    let wall_cap = std::time::Duration::from_secs(ctx.tier.pick(240, 840));
    let t0 = std::time::Instant::now();

    if let Some(c) = ctx.replay_case() {
        let mut rep = Report::new();
        let msg = c.get("message").filter(|m| !m.is_null()).map(|m| Msg::from_json(m, env.seed).unwrap_or_else(|| machinery_error("C30", "replay: bad message")));
        if c["write"] == true {
            written_bytes(&env, msg.as_ref().unwrap(), &mut rep);
        } else {
            let s = Stream {
                is_req: c["is_request"].as_bool().unwrap_or(false),
                msg: msg.clone(),
                truncate: c["truncate"].as_u64().map(|k| k as usize),
                garbage: c.get("garbage").filter(|g| !g.is_null()).map(|g| (g["index"].as_u64().unwrap_or(0) as usize, g["before_message"].as_bool().unwrap_or(true))),
            };
            let written = match &msg {
                Some(m) => written_bytes(&env, m, &mut rep).unwrap_or_default(),
                None => vec![],
            };
            let prep = prepare(&s, &written);
            let chunks = Chunks::from_json(&c["chunks"]).unwrap_or(Chunks::Fixed(usize::MAX >> 1));
            eval(&env, &s, &prep, &chunks, c["pending"].as_bool().unwrap_or(false), &mut rep);
        }
        finish_c30(&ctx, rep, nmax);
    }

    // the messages (simplest first)
    let mut msgs: Vec<Msg> = small_requests(env.seed);
    msgs.extend(small_lists(env.seed, list_len));
    let n_small = msgs.len();
    msgs.extend(real_size(env.seed));
    let limits: Vec<Msg> = vec![
        request_of_size(REQUEST_SIZE_LIMIT - 1, env.seed),
        request_of_size(REQUEST_SIZE_LIMIT, env.seed),
        request_of_size(REQUEST_SIZE_LIMIT + 1, env.seed),
        request_of_size(2 * REQUEST_SIZE_LIMIT, env.seed),
        responses_of_size(RESPONSE_SIZE_LIMIT - 1, 1, env.seed),
        responses_of_size(RESPONSE_SIZE_LIMIT, 1, env.seed),
        responses_of_size(RESPONSE_SIZE_LIMIT, 3, env.seed),
        responses_of_size(RESPONSE_SIZE_LIMIT + 1, 1, env.seed),
        responses_of_size(RESPONSE_SIZE_LIMIT + 1, 3, env.seed),
    ];

    // phase A: garbage, size limits, structured chunkings / truncations of every message
    let mut jobs: Vec<Job> = vec![];
    for g in 0..garbage().len() {
        jobs.push(Job::Garbage(true, g));
        jobs.push(Job::Garbage(false, g));
    }
    // phases B(n), n = 1, 2, ...: all compositions of the messages whose stream has n bytes
    let top_n = nmax.max(nmax_req);
    let mut compose_by_n: Vec<Vec<Job>> = vec![vec![]; top_n + 1];
    for (i, m) in msgs.iter().enumerate() {
        jobs.push(Job::Structured(i));
        let n = reference_bytes(m).len();
        if i < n_small && n >= 1 && n <= if m.is_req() { nmax_req } else { nmax } {
            let total = 1u64 << (n - 1);
            let step = 1u64 << 12;
            let mut lo = 0;
            while lo < total {
                compose_by_n[n].push(Job::Compose(i, lo, (lo + step).min(total)));
                lo += step;
            }
        }
    }
    // the 10 MiB messages last, so that the first recorded counterexample of a class is a small one
    for i in 0..limits.len() {
        jobs.push(Job::Limit(i));
    }
    let composed_msgs = AtomicU64::new(0);

    let run_jobs = |jobs: Vec<Job>| par_cases(jobs, |job, rep| {
        if t0.elapsed() > wall_cap {
            rep.cap_hit("wall cap: some jobs of the running phase skipped");
            return;
        }
        match job {
            Job::Compose(i, lo, hi) => {
                let m = &msgs[i];
                let Ok(Ok(written)) = write_real(m, usize::MAX, false) else { return };
                let s = Stream { is_req: m.is_req(), msg: Some(m.clone()), truncate: None, garbage: None };
                let prep = prepare(&s, &written);
                if lo == 0 {
                    composed_msgs.fetch_add(1, Ordering::Relaxed);
                }
                for mask in lo..hi {
                    for pending in [false, true] {
                        eval(&env, &s, &prep, &Chunks::Mask(mask), pending, rep);
                    }
                }
            }
            Job::Structured(i) => {
                let m = &msgs[i];
                let Some(written) = written_bytes(&env, m, rep) else { return };
                let n = written.len();
                let real = i >= n_small;
                let s = Stream { is_req: m.is_req(), msg: Some(m.clone()), truncate: None, garbage: None };
                let prep = prepare(&s, &written);
                for ch in structured_chunkings(n, &boundaries(m), real) {
                    for pending in [false, true] {
                        eval(&env, &s, &prep, &ch, pending, rep);
                    }
                }
                // truncation at every byte
                for k in 0..n {
                    let st = Stream { truncate: Some(k), ..s.clone() };
                    let pt = prepare(&st, &written);
                    eval(&env, &st, &pt, &Chunks::Fixed(usize::MAX >> 1), false, rep);
                    eval(&env, &st, &pt, &Chunks::Fixed(1), true, rep);
                    if !real && k <= trunc_comp && k >= 1 {
                        for mask in 0..(1u64 << (k - 1)) {
                            eval(&env, &st, &pt, &Chunks::Mask(mask), mask % 2 == 1, rep);
                        }
                    }
                }
                // undecodable tail after the complete message(s)
                if n > 0 {
                    for g in 0..garbage().len() {
                        let sg = Stream { garbage: Some((g, false)), ..s.clone() };
                        let pg = prepare(&sg, &written);
                        eval(&env, &sg, &pg, &Chunks::Fixed(usize::MAX >> 1), false, rep);
                        eval(&env, &sg, &pg, &Chunks::Fixed(1), true, rep);
                    }
                }
            }
            Job::Garbage(is_req, g) => {
                let follow = if is_req { Msg::Req(MRequest { data: MData::Origin(5), amount: 2 }) } else { Msg::Resps(vec![MResponse { body: vec![1, 2, 3], status: 1 }]) };
                for with_msg in [false, true] {
                    let s = Stream { is_req, msg: with_msg.then(|| follow.clone()), truncate: None, garbage: Some((g, true)) };
                    let written = if with_msg { reference_bytes(&follow) } else { vec![] };
                    let prep = prepare(&s, &written);
                    let n = prep.bytes.len();
                    if n <= nmax.min(16) {
                        for mask in 0..(1u64 << (n - 1)) {
                            for pending in [false, true] {
                                eval(&env, &s, &prep, &Chunks::Mask(mask), pending, rep);
                            }
                        }
                    } else {
                        for ch in structured_chunkings(n, &[], false) {
                            for pending in [false, true] {
                                eval(&env, &s, &prep, &ch, pending, rep);
                            }
                        }
                    }
                }
            }
            Job::Limit(i) => {
                let m = &limits[i];
                let Some(written) = written_bytes(&env, m, rep) else { return };
                let s = Stream { is_req: m.is_req(), msg: Some(m.clone()), truncate: None, garbage: None };
                let prep = prepare(&s, &written);
                let n = written.len();
                let chunkings = if m.is_req() {
                    structured_chunkings(n, &[], false)
                } else {
                    vec![Chunks::Fixed(usize::MAX >> 1), Chunks::Fixed(65_536), Chunks::Fixed((1 << 20) + 1), Chunks::Cuts(vec![RESPONSE_SIZE_LIMIT - 1]), Chunks::Cuts(vec![RESPONSE_SIZE_LIMIT])]
                };
                for ch in chunkings {
                    for pending in [false, true] {
                        eval(&env, &s, &prep, &ch, pending, rep);
                    }
                }
                if !m.is_req() {
                    // cut the big stream around its entry boundaries and its end
                    let mut ks: Vec<usize> = boundaries(m).iter().flat_map(|b| [b.saturating_sub(1), *b, b + 1]).chain([n.saturating_sub(1), n / 2]).filter(|k| *k < n).collect();
                    ks.sort();
                    ks.dedup();
                    for k in ks {
                        let st = Stream { truncate: Some(k), ..s.clone() };
                        let pt = prepare(&st, &written);
                        eval(&env, &st, &pt, &Chunks::Fixed(usize::MAX >> 1), false, rep);
                    }
                }
            }
        }
        flush_nontrivial();
    });
    let mut rep = run_jobs(jobs);
    let mut completed_n = 0usize;
    for (n, blocks) in compose_by_n.into_iter().enumerate() {
        if blocks.is_empty() {
            if completed_n + 1 == n || n == 0 {
                completed_n = n;
            }
            continue;
        }
        if t0.elapsed() > wall_cap {
            rep.cap_hit(&format!("wall cap: all-compositions phases for streams of {n}.. bytes not run"));
            break;
        }
        let r = run_jobs(blocks);
        let capped = !r.caps_hit.is_empty();
        rep.merge_in(r);
        if capped {
            break;
        }
        completed_n = n;
    }
    rep.extra("all_compositions_completed_up_to_bytes", json!(completed_n));
    rep.extra("messages_small", json!(n_small));
    rep.extra("messages_real_size", json!(msgs.len() - n_small));
    rep.extra("messages_at_size_limits", json!(limits.len()));
    rep.extra("messages_with_all_compositions", json!(composed_msgs.load(Ordering::Relaxed)));
    rep.extra("all_compositions_up_to_bytes", json!({"response_streams": nmax, "request_streams": nmax_req, "truncated_streams": trunc_comp}));
    rep.extra("distinct_nontrivial_by_construction", json!(NONTRIVIAL.load(Ordering::Relaxed)));
    rep.extra("non_reproducible_outcomes", json!(FLAKY.load(Ordering::Relaxed)));
    rep.extra("garbage_kinds", json!(garbage().iter().map(|g| g.0).collect::<Vec<_>>()));
    finish_c30(&ctx, rep, nmax);
}

fn finish_c30(ctx: &Ctx, rep: Report, _nmax: usize) -> ! {
    finish(
        ctx,
        rep,
        Spec {
            rule: "messages: requests {data ∈ none, origin 0/1/300/u64::MAX, hash of 0/1/3/32/200 bytes} x amount ∈ {1,0,127,128,512,u64::MAX}; response lists of 0..3 entries over {body 0..3 bytes} x {status 1,0,2,7} (+ status -1, i32::MAX, i32::MIN); 5 lists of real ~1.5 KiB validated headers; messages of wire size limit-1, limit, limit+1 (request 1024 B, response 10 MiB, 1 and 3 entries). Each is written by the real writer (3 sink behaviours) and read back under: ALL 2^(n-1) compositions into chunks for streams of n <= NMAX bytes (responses: NMAX=12 quick, 18 thorough; requests: 16 quick, 23 thorough), fixed chunks {whole,1,2,3,7,4096}, one cut at every position, for real-size lists all pairs of cuts from {entry/prefix boundaries ±2, every 97th byte}; each with and without a Pending before every chunk and EOF. Truncation at EVERY byte (whole / 1-byte chunks with Pending / all compositions of the cut stream when it has <= 6 (quick) / 10 (thorough) bytes); 14 undecodable prefixes (bad varints, length > remaining, length 2^32 / 2^63 / 2^64-1, invalid protobuf payloads) alone and before a valid message under all compositions; the same as tails. distinct = (stream, chunking, pending) by construction; non-trivial = more than one chunk, or a truncated / garbage stream",
            assumptions: &[
                "reading adopted for truncated response streams (DESIGN §5/S15): error or a proper prefix of the written list, never another value; the empty list writes zero bytes (= a stream cut at byte 0) and is expected to read as an error",
                "a stream longer than the size limit, and a complete stream followed by undecodable bytes, are outside the statement: only 'no panic, no value other than (a prefix of) the written one' is demanded there",
                "tokio clock paused (timeouts cannot fire); read_up_to also has a std::time::Instant deadline of 1 s / 5 s per read: a mismatch is re-run twice and only reported if it reproduces",
                "VERIF_SEED selects body / hash payload bytes only",
            ],
            required_classes: &[
                "roundtrip:request",
                "roundtrip:response",
                "trunc:request:error",
                "trunc:response:error",
                "trunc:response:prefix",
                "garbage:request:error",
                "garbage:response:error",
            ],
            exhaustive: true,
        },
    )
}
