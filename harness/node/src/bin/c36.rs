//! C36 — Window-edge search finds the newest header outside the window.   (engine E1)
//!
//! Code under test: the module-private `find_height_after_window`, `_fast`, `_slow` of
//! `node/src/pruner.rs`, reached through `lumina_node::verif::pruner` (forwarding only).
//!
//! Universe: heights 1..=N (N = 10), header h has time base + h seconds.  A store is the
//! real `InMemoryStore` built by inserting all N headers and `remove_height`-ing the ones
//! that are not in the stored subset.  Cutoffs are at every half-second position
//! base + k/2 s, k = 1..=2N+1 (so every tie `cutoff == header time` and every gap between
//! two header times is hit, plus one position below and one above everything).
//!
//! Part A (single call, fresh cache): every non-empty stored subset S x every cutoff k x
//! previous answer in {none} ∪ {p in 1..=N : time(p) <= cutoff}.  The second set is exactly
//! "every answer that was correct for some earlier cutoff": p (stored at that time) is a
//! correct answer for the earlier cutoff time(p) <= cutoff because all times increase with
//! height; p may still be stored or may have been removed since.  All three functions are
//! called; whatever `_fast` decides (`Some(x)`) must itself satisfy the statement.
//!
//! Part B (two calls, cache carried over): earlier stored set S1, earlier cutoff k1, the
//! real answer p1 and the real cache it left behind; then the store changes to S2 and the
//! search is called with cutoff k2 >= k1, previous answer p1 and the carried cache.
//! quick: every S2 ⊆ S1 (headers removed in between); thorough: every pair (S1, S2)
//! (headers removed and inserted in between).
//!
//! Oracle (brute force from the statement): an answer `Some(h)` is correct iff h is stored,
//! time(h) <= cutoff, and no stored g > h has time(g) < cutoff; `None` is correct iff no
//! stored header has time < cutoff.  Errors and panics are violations.

#[path = "../shared/pruner_sys.rs"]
#[allow(dead_code)]
mod pruner_sys;

use lumina_node::block_ranges::BlockRanges;
use lumina_node::store::{InMemoryStore, Store};
use lumina_node::verif::pruner as vp;
use lv_core::*;
use pruner_sys::*;
use serde_json::{Value, json};
use std::sync::atomic::{AtomicU64, Ordering};
use std::time::Duration;
use tendermint::Time;

const BASE_SECS: i64 = 1_700_000_000;

fn base() -> Time {
    Time::from_unix_timestamp(BASE_SECS, 0).unwrap()
}

/// cutoff position k (half seconds after base)
fn cutoff(k: u64) -> Time {
    (base() + Duration::from_millis(500 * k)).unwrap()
}

fn set_of(mask: u32, n: u64) -> Vec<u64> {
    (1..=n).filter(|h| mask >> (h - 1) & 1 == 1).collect()
}

/// The statement, by brute force.  Times in half seconds: time(h) = 2h, cutoff = k.
fn correct(mask: u32, n: u64, k: u64, ans: Option<u64>) -> Result<(), String> {
    let stored = |h: u64| h >= 1 && h <= n && mask >> (h - 1) & 1 == 1;
    match ans {
        Some(h) => {
            if !stored(h) {
                return Err(format!("returned height {h} is not stored"));
            }
            if 2 * h > k {
                return Err(format!("returned height {h} is newer than the cutoff"));
            }
            if let Some(g) = (h + 1..=n).find(|g| stored(*g) && 2 * g < k) {
                return Err(format!("stored height {g} above the returned {h} is older than the cutoff"));
            }
            Ok(())
        }
        None => match (1..=n).find(|g| stored(*g) && 2 * g < k) {
            Some(g) => Err(format!("returned nothing although stored height {g} is strictly older than the cutoff")),
            None => Ok(()),
        },
    }
}

struct World {
    n: u64,
    full: InMemoryStore,
}

async fn store_for(w: &World, mask: u32) -> (InMemoryStore, BlockRanges) {
    let s = w.full.async_clone().await;
    for h in 1..=w.n {
        if mask >> (h - 1) & 1 == 0 {
            s.remove_height(h).await.expect("remove_height");
        }
    }
    let ranges = s.get_stored_header_ranges().await.expect("ranges");
    (s, ranges)
}

fn mix(parts: &[u64]) -> u64 {
    let mut b = Vec::with_capacity(parts.len() * 8);
    for p in parts {
        b.extend_from_slice(&p.to_le_bytes());
    }
    fnv64(&b)
}

fn fmt_ans<T: std::fmt::Debug>(r: &Result<Result<T, String>, String>) -> String {
    match r {
        Ok(Ok(v)) => format!("{v:?}"),
        Ok(Err(e)) => format!("error: {e}"),
        Err(p) => format!("panic: {p}"),
    }
}

/// One part-A evaluation: all three functions on (S, k, prev) with fresh caches.
fn eval_a(w: &World, store: &InMemoryStore, ranges: &BlockRanges, mask: u32, k: u64, prev: Option<u64>, rep: &mut Report) {
    let n = w.n;
    let c = cutoff(k);
    let case = json!({"part": "A", "n": n, "stored": set_of(mask, n), "cutoff_half_seconds": k, "prev": prev});
    let lo = set_of(mask, n).first().copied().unwrap_or(0);
    let hi = set_of(mask, n).last().copied().unwrap_or(0);
    let nontrivial = mask.count_ones() >= 2 && k >= 2 * lo && k <= 2 * hi;
    let pk = prev.unwrap_or(0);

    // composite
    let got = guard(|| {
        let mut cache = vp::VPrunerCache::new();
        block(vp::find_height_after_window(store, ranges, &c, prev, &mut cache))
    });
    let key = mix(&[1, n, mask as u64, k, pk]);
    match &got {
        Ok(Ok(ans)) => {
            rep.case(key, if ans.is_some() { "find:height" } else { "find:nothing" }, nontrivial);
            if let Err(why) = correct(mask, n, k, *ans) {
                let vk = if ans.is_none() { "search-returned-nothing-with-older-header-stored" } else { "search-returned-wrong-height" };
                rep.violation(vk, format!("find_height_after_window -> {ans:?}: {why}"), case.clone());
            }
        }
        _ => {
            rep.case(key, "find:failed", nontrivial);
            rep.violation("search-failed", format!("find_height_after_window -> {}", fmt_ans(&got)), case.clone());
        }
    }
    if rep.wants_sample() && mask % 97 == 45 && k == 9 {
        rep.sample(|| json!({"case": case, "result": fmt_ans(&got)}));
    }

    // fast path alone
    let got = guard(|| {
        let mut cache = vp::VPrunerCache::new();
        block(vp::find_height_after_window_fast(store, ranges, &c, prev, &mut cache))
    });
    let key = mix(&[2, n, mask as u64, k, pk]);
    match &got {
        Ok(Ok(None)) => rep.case(key, "fast:undecided", nontrivial),
        Ok(Ok(Some(ans))) => {
            rep.case(key, if ans.is_some() { "fast:height" } else { "fast:nothing" }, nontrivial);
            if let Err(why) = correct(mask, n, k, *ans) {
                rep.violation("fast-path-decided-wrongly", format!("find_height_after_window_fast -> Some({ans:?}): {why}"), case.clone());
            }
        }
        _ => {
            rep.case(key, "fast:failed", nontrivial);
            rep.violation("search-failed", format!("find_height_after_window_fast -> {}", fmt_ans(&got)), case.clone());
        }
    }

    // binary search alone (does not depend on prev: once per (S, k))
    if prev.is_none() {
        let got = guard(|| {
            let mut cache = vp::VPrunerCache::new();
            block(vp::find_height_after_window_slow(store, ranges, &c, &mut cache))
        });
        let key = mix(&[3, n, mask as u64, k, 0]);
        match &got {
            Ok(Ok(ans)) => {
                rep.case(key, if ans.is_some() { "slow:height" } else { "slow:nothing" }, nontrivial);
                if let Err(why) = correct(mask, n, k, *ans) {
                    rep.violation("binary-search-wrong", format!("find_height_after_window_slow -> {ans:?}: {why}"), case.clone());
                }
            }
            _ => {
                rep.case(key, "slow:failed", nontrivial);
                rep.violation("search-failed", format!("find_height_after_window_slow -> {}", fmt_ans(&got)), case.clone());
            }
        }
    }
}

/// Part-B evaluation: second call on (S2, k2) with the real (p1, cache1) of (S1, k1).
#[allow(clippy::too_many_arguments)]
fn eval_b(
    w: &World,
    s2: &InMemoryStore,
    r2: &BlockRanges,
    m1: u32,
    m2: u32,
    k1: u64,
    k2: u64,
    p1: Option<u64>,
    cache1: &vp::VPrunerCache,
    rep: &mut Report,
) {
    let n = w.n;
    let c = cutoff(k2);
    let got = guard(|| {
        let mut cache = cache1.duplicate();
        block(vp::find_height_after_window(s2, r2, &c, p1, &mut cache))
    });
    let case = || json!({"part": "B", "n": n, "stored_before": set_of(m1, n), "cutoff_before_half_seconds": k1, "stored": set_of(m2, n), "cutoff_half_seconds": k2});
    match &got {
        Ok(Ok(ans)) => {
            rep.case_nokey(if ans.is_some() { "carried:height" } else { "carried:nothing" });
            if let Err(why) = correct(m2, n, k2, *ans) {
                let vk = if ans.is_none() { "search-returned-nothing-with-older-header-stored" } else { "search-returned-wrong-height" };
                rep.violation(vk, format!("second call with prev {p1:?} and the carried cache -> {ans:?}: {why}"), case());
            }
        }
        _ => {
            rep.case_nokey("carried:failed");
            rep.violation("search-failed", format!("second call with prev {p1:?} and the carried cache -> {}", fmt_ans(&got)), case());
        }
    }
}

/// First call of part B (fresh cache, no previous answer); `None` if it failed (reported in A).
fn first_call(s1: &InMemoryStore, r1: &BlockRanges, k1: u64) -> Option<(Option<u64>, vp::VPrunerCache)> {
    let c = cutoff(k1);
    guard(|| {
        let mut cache = vp::VPrunerCache::new();
        let r = block(vp::find_height_after_window(s1, r1, &c, None, &mut cache));
        r.ok().map(|p| (p, cache))
    })
    .ok()
    .flatten()
}

fn make_world(n: u64) -> World {
    let headers = gen_chain(&(1..=n).map(|h| (base() + Duration::from_secs(h)).unwrap()).collect::<Vec<_>>());
    for (i, h) in headers.iter().enumerate() {
        assert_eq!(h.height(), i as u64 + 1);
        assert_eq!(h.time(), (base() + Duration::from_secs(i as u64 + 1)).unwrap(), "fixture: header time");
    }
    let full = InMemoryStore::new();
    block(full.insert(unchecked(headers))).expect("fixture: insert");
    World { n, full }
}

fn part_a_for(w: &World, mask: u32, rep: &mut Report) {
    let (store, ranges) = block(store_for(w, mask));
    assert_eq!(ranges.len(), mask.count_ones() as u64, "fixture: stored ranges");
    for k in 1..=2 * w.n + 1 {
        eval_a(w, &store, &ranges, mask, k, None, rep);
        for p in 1..=w.n {
            if 2 * p <= k {
                eval_a(w, &store, &ranges, mask, k, Some(p), rep);
            }
        }
    }
}

fn part_b_for(w: &World, m1: u32, all_pairs: bool, pairs: &AtomicU64, rep: &mut Report) {
    let n = w.n;
    let (s1, r1) = block(store_for(w, m1));
    let firsts: Vec<Option<(Option<u64>, vp::VPrunerCache)>> = (1..=2 * n + 1).map(|k1| first_call(&s1, &r1, k1)).collect();
    let full_mask = (1u32 << n) - 1;
    let visit = |m2: u32, rep: &mut Report| {
        let (s2, r2) = block(store_for(w, m2));
        pairs.fetch_add(1, Ordering::Relaxed);
        for k1 in 1..=2 * n + 1 {
            let Some((p1, cache1)) = &firsts[k1 as usize - 1] else { continue };
            for k2 in k1..=2 * n + 1 {
                eval_b(w, &s2, &r2, m1, m2, k1, k2, *p1, cache1, rep);
            }
        }
    };
    if all_pairs {
        for m2 in 1..=full_mask {
            visit(m2, rep);
        }
    } else {
        // every non-empty sub-mask of m1
        let mut m2 = m1;
        while m2 != 0 {
            visit(m2, rep);
            m2 = (m2 - 1) & m1;
        }
    }
}

fn replay(c: &Value, rep: &mut Report) {
    let n = c["n"].as_u64().unwrap();
    let w = make_world(n);
    let to_mask = |v: &Value| -> u32 { v.as_array().unwrap().iter().fold(0u32, |m, h| m | 1 << (h.as_u64().unwrap() - 1)) };
    let m2 = to_mask(&c["stored"]);
    let k2 = c["cutoff_half_seconds"].as_u64().unwrap();
    if c["part"] == "A" {
        let prev = c["prev"].as_u64();
        let (store, ranges) = block(store_for(&w, m2));
        eval_a(&w, &store, &ranges, m2, k2, prev, rep);
    } else {
        let m1 = to_mask(&c["stored_before"]);
        let k1 = c["cutoff_before_half_seconds"].as_u64().unwrap();
        let (s1, r1) = block(store_for(&w, m1));
        let (s2, r2) = block(store_for(&w, m2));
        if let Some((p1, cache1)) = first_call(&s1, &r1, k1) {
            eval_b(&w, &s2, &r2, m1, m2, k1, k2, p1, &cache1, rep);
        }
    }
}

fn main() {
    let ctx = Ctx::from_args("C36");
    let n: u64 = 10;
    let mut rep = Report::new();
    if let Some(c) = ctx.replay_case() {
        replay(&c, &mut rep);
    } else {
        let w = make_world(n);
        let masks: Vec<u32> = {
            // simplest first: fewer stored headers first
            let mut v: Vec<u32> = (1..(1u32 << n)).collect();
            v.sort_by_key(|m| (m.count_ones(), *m));
            v
        };
        let a = par_cases(masks.clone(), |mask, rep| part_a_for(&w, mask, rep));
        rep.merge_in(a);
        let all_pairs = !ctx.quick();
        let pairs = AtomicU64::new(0);
        let b = par_cases(masks, |m1, rep| part_b_for(&w, m1, all_pairs, &pairs, rep));
        let b_evals = b.evaluations;
        rep.merge_in(b);
        rep.extra("part_b_store_pairs", json!(pairs.load(Ordering::Relaxed)));
        rep.extra("part_b_evaluations", json!(b_evals));
        rep.extra("part_a_distinct_cases", json!(rep.distinct()));
        rep.extra("distinct_by_construction", json!(rep.distinct() + b_evals));
    }
    finish(
        &ctx,
        rep,
        Spec {
            rule: "heights 1..=10, header time = base + h s, real InMemoryStore built by insert-all + remove_height. Part A: all 1023 non-empty stored subsets x cutoff at every half second base+0.5..base+10.5 (21 positions, ties included) x prev in {none} ∪ {p in 1..=10 : time(p) <= cutoff} (= every answer correct for some earlier cutoff, stored or since removed), fresh cache, for find_height_after_window and _fast (whatever it decides must be correct), _slow once per (S, cutoff); distinct = (function, S, cutoff, prev); non-trivial = at least 2 stored headers and the cutoff within [oldest, newest] stored time. Part B: earlier store S1 x earlier cutoff k1 -> real answer p1 + real cache, then store S2 x cutoff k2 >= k1 with prev = p1 and the carried cache; quick: every non-empty S2 ⊆ S1, thorough: every pair (S1, S2) of non-empty subsets; distinct by construction = (S1, S2, k1, k2). Oracle: brute force over the stored set from the statement.",
            assumptions: &[
                "header times strictly increase with height (1 s apart); cutoffs move forward between the two calls of part B",
                "the universe is 10 heights; previous answers are heights of that universe",
                "in part B (thorough) headers inserted between the calls are admitted because the previous answer p1 is, by monotone times, a correct answer for the earlier cutoff time(p1) on any store that contained it",
            ],
            required_classes: &[
                "find:height", "find:nothing", "fast:undecided", "fast:height", "fast:nothing", "slow:height", "slow:nothing", "carried:height", "carried:nothing",
            ],
            exhaustive: true,
        },
    );
}
