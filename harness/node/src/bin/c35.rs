//! C35 — The pruner only removes blocks that are safe to remove.   (engine E3)
//!
//! System: the real `Pruner` worker (`Pruner::start`, reached through
//! `lumina_node::verif::pruner::start_pruner`) over a logging `Store` (own implementation of
//! the public trait around the real `InMemoryStore`), a logging `Blockstore` (around the real
//! `InMemoryBlockstore`) and the mocked `Daser` whose command channel the harness owns; tokio
//! current-thread runtime with the clock paused, quiescence detected with `sleep(1 ms)`.
//!
//! Configurations (enumerated completely): heights 1..=N; every monotone age profile
//! (the `old` lowest heights are 25 h old, the next `mid` 15 h, the rest 5 h; windows are 10 h
//! and 20 h so every header is more than 4 h away from a window edge); window order pruning < sampling,
//! pruning = sampling (no `mid` heights), pruning > sampling; every assignment of
//! {never synced, pruned earlier, stored unsampled, stored sampled} to the heights (at least one
//! stored); two sampling-metadata layouts (heights alternately carry two CIDs — one present in
//! the blockstore, one absent —, an empty CID list, or no metadata; the layouts swap parity so
//! every height occurs with and without CIDs); window cache refreshed on every iteration
//! (block_time 1 ns) and, in the thorough tier, also computed only once (block_time 1 h).
//!
//! Choices (E3, `explore_deviations`): every `WantToPrune(h)` question is answered grant
//! (choice 0) or refuse; all executions with at most `bound` refusals, over 3 pruner iterations
//! (a refused height is asked again in the next iteration).
//!
//! Oracle, per successful `remove_height(h)` in the log, from the statement:
//!   * h is outside the pruning window;
//!   * if h is inside the sampling window it is sampled and does not border an unsynced gap
//!     (h+1 not in stored ∪ pruned, or h > 1 and h-1 not in stored ∪ pruned);
//!   * the Daser's latest answer about h is not a refusal, and an unsampled h was granted
//!     (the mock Daser stands for "sampling may be in progress" for every unsampled height it
//!     has not released);
//!   * every CID of h's sampling metadata was `remove`d from the blockstore earlier in the log.

#[path = "../shared/pruner_sys.rs"]
#[allow(dead_code)]
mod pruner_sys;

use lv_core::*;
use pruner_sys::*;
use rayon::prelude::*;
use serde_json::json;
use std::sync::atomic::{AtomicU64, Ordering};
use std::time::Duration;
use tendermint::Time;

#[derive(Default)]
struct Totals {
    configs: AtomicU64,
    configs_with_candidates: AtomicU64,
    configs_with_questions: AtomicU64,
    execs: AtomicU64,
    removed: AtomicU64,
    removed_outside_both: AtomicU64,
    removed_inside_sampling_window: AtomicU64,
    removed_with_cids: AtomicU64,
    asks: AtomicU64,
    refusals: AtomicU64,
    by_dev: [AtomicU64; 8],
}

impl Totals {
    fn add(&self, s: &RunStats, devs: usize) {
        self.execs.fetch_add(1, Ordering::Relaxed);
        self.removed.fetch_add(s.removed, Ordering::Relaxed);
        self.removed_outside_both.fetch_add(s.removed_outside_both, Ordering::Relaxed);
        self.removed_inside_sampling_window.fetch_add(s.removed_inside_sampling_window, Ordering::Relaxed);
        self.removed_with_cids.fetch_add(s.removed_with_cids, Ordering::Relaxed);
        self.asks.fetch_add(s.asks, Ordering::Relaxed);
        self.refusals.fetch_add(s.refusals, Ordering::Relaxed);
        self.by_dev[devs.min(7)].fetch_add(1, Ordering::Relaxed);
    }
}

fn status_of(mut code: u32, n: usize) -> Vec<St> {
    let mut v = Vec::with_capacity(n);
    for _ in 0..n {
        v.push(match code & 3 {
            0 => St::Gap,
            1 => St::Pruned,
            2 => St::Unsampled,
            _ => St::Sampled,
        });
        code >>= 2;
    }
    v
}

fn check_config(cfg: &Config, chains: &Chains, bound: usize, tot: &Totals, rep: &mut Report, wall_cap: Duration) -> Result<(), String> {
    let headers = chains.get(cfg);
    tot.configs.fetch_add(1, Ordering::Relaxed);
    let has_candidate = (1..=cfg.n as u64).any(|h| matches!(cfg.status[h as usize - 1], St::Unsampled | St::Sampled) && !cfg.inside_pruning_window(h));
    if has_candidate {
        tot.configs_with_candidates.fetch_add(1, Ordering::Relaxed);
    }
    // the default execution (every question granted)
    let first = run_pruner(cfg, &headers, &[], false);
    if let Some(d) = &first.exec.diverged {
        return Err(format!("{d} (config {})", serde_json::to_string(cfg).unwrap()));
    }
    if first.exec.taken.is_empty() && first.exec.violations.is_empty() {
        // no question was asked: this configuration has exactly one execution
        tot.add(&first.stats, 0);
        rep.evaluations += 1;
        rep.traces += 1;
        rep.states += 1;
        rep.transitions += first.exec.events;
        *rep.classes.entry(first.exec.class.clone()).or_insert(0) += 1;
        if rep.wants_sample() && first.stats.removed > 0 && cfg.key() % 211 == 0 {
            let y = run_pruner(cfg, &headers, &[], true);
            rep.sample(|| json!({"choices": y.exec.taken, "labels": y.exec.labels, "class": y.exec.class}));
        }
        return Ok(());
    }
    tot.configs_with_questions.fetch_add(1, Ordering::Relaxed);
    let dc = DevConfig { bound, wall_cap, max_execs: 1_000_000, max_deviation_pos: 0 };
    let mut sub = Report::new();
    let r = explore_deviations(
        &dc,
        |prefix, keep| {
            let out = run_pruner(cfg, &headers, prefix, keep);
            if !keep {
                tot.add(&out.stats, out.exec.taken.iter().filter(|c| **c != 0).count());
            }
            out.exec
        },
        &mut sub,
    );
    sub.extras.clear();
    if !rep.wants_sample() || cfg.key() % 101 != 0 {
        sub.samples.clear();
    } else {
        sub.samples.truncate(1);
    }
    rep.merge_in(sub);
    r
}

fn main() {
    let ctx = Ctx::from_args("C35");
    let now = Time::now();
    let mut rep = Report::new();
    let tot = Totals::default();
    // stages: (heights, deviation bound, cache refresh modes)
    const ONLY_REFRESH: &[bool] = &[true];
    const BOTH: &[bool] = &[true, false];
    let stages: Vec<(usize, usize, &[bool])> = ctx.tier.pick(vec![(6, 2, ONLY_REFRESH)], vec![(7, 3, BOTH), (8, 2, ONLY_REFRESH)]);

    if let Some(c) = ctx.replay_case() {
        let labels = c["labels"].as_array().cloned().unwrap_or_default();
        let cfg_txt = labels
            .iter()
            .filter_map(|l| l.as_str())
            .find_map(|l| l.strip_prefix("config: "))
            .unwrap_or_else(|| machinery_error(&ctx.id, "replay file carries no config label"));
        let cfg: Config = serde_json::from_str(cfg_txt).unwrap_or_else(|e| machinery_error(&ctx.id, &format!("bad config in replay: {e}")));
        let choices: Vec<u32> = c["choices"].as_array().map(|a| a.iter().map(|v| v.as_u64().unwrap() as u32).collect()).unwrap_or_default();
        let chains = Chains::build(cfg.n, now);
        let out = run_pruner(&cfg, &chains.get(&cfg), &choices, true);
        if let Some(d) = out.exec.diverged {
            machinery_error(&ctx.id, &d);
        }
        rep.evaluations += 1;
        *rep.classes.entry(out.exec.class.clone()).or_insert(0) += 1;
        println!("REPLAY-LOG {}", render_log(&out.log));
        for (k, what) in out.exec.violations {
            rep.violation(&k, what, json!({"choices": out.exec.taken, "labels": out.exec.labels}));
        }
    } else {
        let wall_cap = Duration::from_secs(ctx.tier.pick(420, 2400));
        let t0 = std::time::Instant::now();
        let machinery: std::sync::Mutex<Option<String>> = std::sync::Mutex::new(None);
        let mut stages_done: Vec<serde_json::Value> = vec![];
        for (si, &(n, bound, refresh_modes)) in stages.iter().enumerate() {
            let chains = Chains::build(n, now);
            let configs_before = tot.configs.load(Ordering::Relaxed);
            let execs_before = tot.execs.load(Ordering::Relaxed);
            // outer tasks: (order, old, mid, layout, refresh, status of the two highest heights)
            let mut tasks: Vec<(Order, usize, usize, u8, bool, u32)> = vec![];
            for order in [Order::PruningSmaller, Order::Equal, Order::PruningLarger] {
                for old in 0..=n {
                    for mid in 0..=n - old {
                        if order == Order::Equal && mid != 0 {
                            continue;
                        }
                        for layout in 0..2u8 {
                            for &refresh in refresh_modes {
                                for top in 0..16u32 {
                                    tasks.push((order, old, mid, layout, refresh, top));
                                }
                            }
                        }
                    }
                }
            }
            let capped = std::sync::atomic::AtomicBool::new(false);
            let low_bits = 2 * (n as u32 - 2);
            let r = tasks
                .into_par_iter()
                .fold(Report::new, |mut rep, (order, old, mid, layout, refresh, top)| {
                    for low in 0..(1u32 << low_bits) {
                        if machinery.lock().unwrap().is_some() {
                            break;
                        }
                        if t0.elapsed() > wall_cap {
                            capped.store(true, Ordering::Relaxed);
                            break;
                        }
                        let code = low | top << low_bits;
                        let status = status_of(code, n);
                        if !status.iter().any(|s| matches!(s, St::Unsampled | St::Sampled)) {
                            continue; // nothing stored: nothing can be removed
                        }
                        let cfg = Config { n, order, old, mid, status, meta_layout: layout, refresh };
                        if let Err(e) = check_config(&cfg, &chains, bound, &tot, &mut rep, wall_cap.saturating_sub(t0.elapsed())) {
                            *machinery.lock().unwrap() = Some(e);
                            break;
                        }
                    }
                    rep
                })
                .reduce(Report::new, Report::merge);
            rep.merge_in(r);
            let complete = !capped.load(Ordering::Relaxed) && rep.caps_hit.is_empty();
            stages_done.push(json!({
                "stage": si, "heights": n, "deviation_bound": bound, "cache_refresh_modes": refresh_modes,
                "configurations": tot.configs.load(Ordering::Relaxed) - configs_before,
                "executions": tot.execs.load(Ordering::Relaxed) - execs_before,
                "complete": complete,
            }));
            if !complete {
                rep.cap_hit(&format!("C35 wall cap in stage {si} (heights 1..={n}): not every configuration was run"));
                break;
            }
        }
        rep.extra("stages", json!(stages_done));
        if let Some(m) = machinery.into_inner().unwrap() {
            machinery_error(&ctx.id, &m);
        }
        let g = |a: &AtomicU64| a.load(Ordering::Relaxed);
        rep.extra("configurations", json!(g(&tot.configs)));
        rep.extra("configurations_with_a_stored_header_outside_the_pruning_window", json!(g(&tot.configs_with_candidates)));
        rep.extra("distinct_nontrivial_by_construction", json!(g(&tot.configs_with_candidates)));
        rep.extra("configurations_with_daser_questions", json!(g(&tot.configs_with_questions)));
        rep.extra("executions_by_deviations", json!(tot.by_dev.iter().map(g).collect::<Vec<_>>()));
        rep.extra(
            "totals_over_executions",
            json!({
                "headers_removed": g(&tot.removed),
                "removed_outside_both_windows": g(&tot.removed_outside_both),
                "removed_inside_sampling_window": g(&tot.removed_inside_sampling_window),
                "removed_headers_with_cids": g(&tot.removed_with_cids),
                "daser_questions": g(&tot.asks),
                "daser_refusals": g(&tot.refusals),
            }),
        );
        if rep.violation_count == 0 && (g(&tot.removed_inside_sampling_window) == 0 || g(&tot.removed_with_cids) == 0 || g(&tot.removed_outside_both) == 0) {
            machinery_error(&ctx.id, "vacuous run: some removal category was never exercised");
        }
    }
    finish(
        &ctx,
        rep,
        Spec {
            rule: "real Pruner worker over logging Store/Blockstore wrappers and the mocked Daser; configurations = heights 1..=N (quick: N=6, <=2 refusals; thorough: stage 0 N=7, <=3 refusals, both cache modes, then stage 1 N=8, <=2 refusals, cache refreshed every iteration) x every monotone age profile (old/mid/new = 25 h/15 h/5 h against windows of 10 h and 20 h) x window order (pruning<sampling, =, >; '=' has no mid heights) x every assignment of {gap, pruned, stored-unsampled, stored-sampled} to the heights with at least one stored x 2 CID metadata layouts x cache refresh {every iteration; thorough stage 0 also: once}; per configuration every execution with at most the stage's bound of refused WantToPrune answers over 3 pruner iterations (explore_deviations; configurations in which no question is asked have exactly one execution). traces = executions, states = distinct (configuration, removal/CID/answer log) traces, transitions = logged events. non-trivial = configurations with a stored header outside the pruning window. Oracle per remove_height in the log: outside the pruning window; inside the sampling window only if sampled and not bordering an unsynced gap; latest Daser answer not a refusal and unsampled headers granted; all metadata CIDs removed from the blockstore earlier.",
            assumptions: &[
                "Time::now() cannot be seamed: every header is more than 4 h away from both window edges, so the exact boundary instant (< vs <=) is not checked",
                "block_time = 1 ns stands for the design's block_time = 0 (0 makes the idle pruner spin without yielding, which would starve the paused-clock runtime); std Instant elapsed() is then never below the refresh threshold",
                "the pruner is stopped when its 4th iteration starts; a question pending at that moment is dropped unanswered",
                "MAX_PRUNABLE_BATCH_SIZE (512) is not reached with 8 heights",
                "cancellation in the middle of a batch is not an explored event",
            ],
            required_classes: &["removed", "kept", "removed+grant", "removed+grant+refuse"],
            exhaustive: true,
        },
    );
}
