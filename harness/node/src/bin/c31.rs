//! C31 — Network head selection follows the best-head rule.          (engine E1 over E3 runs)
//!
//! System: the real `HeaderExClientHandler` behind a recording `RequestSender`, a real
//! `PeerTracker`, tokio current-thread runtime with a paused clock.
//! Space: nT connected trusted peers x nU connected untrusted peers (the first one archival)
//! x nD disconnected trusted peers x caller mode {1 caller, 2nd caller before the schedule
//! tick, after the tick, after the first response} x every assignment of an answer from
//! {A@10, A'@10, B@11, C@12, two headers, invalid header, outbound failure} to the trusted
//! peers x every order in which the peers answer (all permutations for <= 4 peers).
//! Oracle: best-head function written from the statement (no code shared with /repo).
#[path = "../shared/hexclient_sys.rs"]
mod hexclient_sys;

use hexclient_sys::*;
use lumina_node::verif::header_ex_client::VFail;
use lv_core::*;
use serde_json::{Value, json};
use std::collections::{BTreeMap, BTreeSet};

const ANSWERS: [&str; 7] = ["A@10", "A'@10", "B@11", "C@12", "two-headers", "invalid-header", "failure"];

#[derive(Clone, Debug)]
struct Case {
    nt: usize,
    nu: usize,
    nd: usize,
    /// 0: one caller; 1: second caller before the tick; 2: after the tick; 3: after the
    /// first response
    mode: usize,
    answers: Vec<u8>,
    order: Vec<u8>,
}

impl Case {
    fn json(&self) -> Value {
        json!({"nt": self.nt, "nu": self.nu, "nd": self.nd, "mode": self.mode,
               "answers": self.answers, "order": self.order,
               "answer_names": self.answers.iter().map(|a| ANSWERS[*a as usize]).collect::<Vec<_>>()})
    }
    fn from_json(v: &Value) -> Case {
        let arr = |k: &str| -> Vec<u8> {
            v[k].as_array().expect(k).iter().map(|x| x.as_u64().unwrap() as u8).collect()
        };
        Case {
            nt: v["nt"].as_u64().unwrap() as usize,
            nu: v["nu"].as_u64().unwrap() as usize,
            nd: v["nd"].as_u64().unwrap() as usize,
            mode: v["mode"].as_u64().unwrap() as usize,
            answers: arr("answers"),
            order: arr("order"),
        }
    }
    fn key(&self) -> u64 {
        fnv64(format!("{}/{}/{}/{}/{:?}/{:?}", self.nt, self.nu, self.nd, self.mode, self.answers, self.order).as_bytes())
    }
}

/// The statement's rule, over the single valid headers reported in a round: label ->
/// number of peers reporting it.  Returns the set of acceptable labels (several only when
/// the statement does not discriminate: equal height, and equally "agreed").
fn best_head(reports: &[u8]) -> Option<(bool, BTreeSet<u8>)> {
    let height = |l: u8| -> u64 {
        match l {
            0 | 1 => 10,
            2 => 11,
            3 => 12,
            _ => unreachable!(),
        }
    };
    let mut count: BTreeMap<u8, usize> = BTreeMap::new();
    for r in reports {
        *count.entry(*r).or_insert(0) += 1;
    }
    if count.is_empty() {
        return None;
    }
    let agreed: Vec<u8> = count.iter().filter(|(_, n)| **n >= 2).map(|(l, _)| *l).collect();
    let has_agreement = !agreed.is_empty();
    let pool: Vec<u8> = if has_agreement { agreed } else { count.keys().copied().collect() };
    let top = pool.iter().map(|l| height(*l)).max().unwrap();
    Some((has_agreement, pool.into_iter().filter(|l| height(*l) == top).collect()))
}

fn label_of(h: &celestia_types::ExtendedHeader) -> String {
    let f = fixtures();
    for (i, x) in [&f.a, &f.a2, &f.b, &f.c].into_iter().enumerate() {
        if x.hash() == h.hash() {
            return ANSWERS[i].to_string();
        }
    }
    format!("unknown@{}", h.height())
}

struct Outcome {
    class: String,
    violations: Vec<(String, String)>,
    events: u64,
}

async fn deliver(sys: &mut Sys, send: (u64, lumina_node::verif::header_ex_client::VPeer), ans: u8) {
    let f = fixtures();
    let (id, peer) = send;
    match ans {
        0 => sys.client.respond(id, peer, vec![ok_response(&f.a)]),
        1 => sys.client.respond(id, peer, vec![ok_response(&f.a2)]),
        2 => sys.client.respond(id, peer, vec![ok_response(&f.b)]),
        3 => sys.client.respond(id, peer, vec![ok_response(&f.c)]),
        4 => sys.client.respond(id, peer, vec![ok_response(&f.b), ok_response(&f.c)]),
        5 => sys.client.respond(id, peer, vec![ok_response(&f.bad)]),
        6 => sys.client.fail(id, peer, VFail::Timeout),
        _ => unreachable!(),
    }
    sys.settle().await;
}

/// Checks that the sends `from..` of the recorder are head requests to exactly the
/// connected trusted peers, once each.  Returns peer index -> (request id, peer).
fn check_round_sends(
    sys: &Sys,
    from: usize,
    viol: &mut Vec<(String, String)>,
) -> BTreeMap<usize, (u64, lumina_node::verif::header_ex_client::VPeer)> {
    let sent = sys.client.sent();
    let mut by_peer = BTreeMap::new();
    for (id, peer, req) in &sent[from..] {
        if !is_head(req) {
            viol.push(viol_("head-round-sent-other-request", format!("request {req:?} sent in a head round")));
            continue;
        }
        match sys.peer_index(*peer) {
            None => viol.push(viol_("head-sent-to-unknown-peer", format!("request {id} sent to a peer the tracker never saw"))),
            Some(i) => {
                let m = &sys.peers[i];
                if !m.trusted || m.conn.is_none() {
                    viol.push(viol_(
                        "head-sent-to-untrusted-or-disconnected-peer",
                        format!("head request {id} sent to peer #{i} (trusted={}, connected={})", m.trusted, m.conn.is_some()),
                    ));
                }
                if by_peer.insert(i, (*id, *peer)).is_some() {
                    viol.push(viol_("head-sent-twice-to-one-peer", format!("peer #{i} got two head requests in one round")));
                }
            }
        }
    }
    for (i, m) in sys.peers.iter().enumerate() {
        if m.trusted && m.conn.is_some() && !by_peer.contains_key(&i) {
            viol.push(viol_("head-not-sent-to-connected-trusted-peer", format!("connected trusted peer #{i} got no head request")));
        }
    }
    by_peer
}

fn viol_(k: &str, what: String) -> (String, String) {
    (k.to_string(), what)
}

async fn run_case(c: &Case) -> Outcome {
    let mut viol: Vec<(String, String)> = vec![];
    let mut events = 0u64;
    let mut sys = Sys::new();
    // population: trusted connected are peers 0..nt
    for _ in 0..c.nt {
        let i = sys.add_peer(true, false);
        sys.connect(i);
    }
    for k in 0..c.nu {
        let i = sys.add_peer(false, k == 0);
        sys.connect(i);
    }
    for _ in 0..c.nd {
        let i = sys.add_peer(true, false);
        sys.connect(i);
        sys.disconnect(i);
    }
    let mut callers = vec![sys.client.request(head_request())];
    if c.mode == 1 {
        callers.push(sys.client.request(head_request()));
    }
    sys.settle().await;
    events += 1;
    if !sys.tick().await {
        viol.push(viol_("head-request-never-scheduled", "a head request is waiting but the handler did not ask for a schedule tick after 100 ms".into()));
        return Outcome { class: "not-scheduled".into(), violations: viol, events };
    }
    events += 1;
    let sends = check_round_sends(&sys, 0, &mut viol);
    if !viol.is_empty() {
        return Outcome { class: "bad-sends".into(), violations: viol, events };
    }
    if c.mode == 2 {
        callers.push(sys.client.request(head_request()));
        sys.settle().await;
    }
    for (k, pi) in c.order.iter().enumerate() {
        let pi = *pi as usize;
        deliver(&mut sys, sends[&pi], c.answers[pi]).await;
        events += 1;
        if k == 0 && c.mode == 3 {
            callers.push(sys.client.request(head_request()));
            sys.settle().await;
        }
    }
    sys.settle().await;

    let reports: Vec<u8> = c.answers.iter().copied().filter(|a| *a <= 3).collect();
    let want = best_head(&reports);
    let got: Vec<Got> = callers.iter_mut().map(try_get).collect();
    let class;
    match want {
        None => {
            class = "no-valid-report:retry".to_string();
            for (i, g) in got.iter().enumerate() {
                if *g != Got::Empty {
                    viol.push(viol_("head-answered-without-valid-report", format!("caller {i} got {g:?} although no peer reported a valid single header")));
                }
            }
            if viol.is_empty() {
                // a new round must start on the next tick, again to exactly the connected
                // trusted peers; everybody answers B this time
                let before = sys.client.sent().len();
                if !sys.tick().await {
                    viol.push(viol_("head-not-retried-after-empty-round", "no schedule tick requested after a round without valid reports".into()));
                } else {
                    events += 1;
                    let sends2 = check_round_sends(&sys, before, &mut viol);
                    if sends2.is_empty() {
                        viol.push(viol_("head-not-retried-after-empty-round", "the tick after an empty round sent nothing".into()));
                    }
                    for (_, s) in sends2 {
                        deliver(&mut sys, s, 2).await;
                        events += 1;
                    }
                    sys.settle().await;
                    for (i, rx) in callers.iter_mut().enumerate() {
                        match try_get(rx) {
                            Got::Ok(v) if v.len() == 1 && label_of(&v[0]) == "B@11" => {}
                            g => viol.push(viol_("head-wrong-after-retry-round", format!("caller {i}: expected B@11 after the retry round, got {}", show(&g)))),
                        }
                    }
                }
            }
        }
        Some((agreed, allowed)) => {
            let allowed_names: Vec<&str> = allowed.iter().map(|l| ANSWERS[*l as usize]).collect();
            class = format!("{}:{}", if agreed { "agreed" } else { "highest" }, allowed_names.join("|"));
            let mut first: Option<String> = None;
            for (i, g) in got.iter().enumerate() {
                match g {
                    Got::Ok(v) if v.len() == 1 => {
                        let l = label_of(&v[0]);
                        if !allowed_names.contains(&l.as_str()) {
                            viol.push(viol_("head-wrong-choice", format!("caller {i} got {l}, the rule gives {allowed_names:?} for reports {:?}", reports.iter().map(|r| ANSWERS[*r as usize]).collect::<Vec<_>>())));
                        }
                        match &first {
                            None => first = Some(l),
                            Some(f) if *f != l => viol.push(viol_("head-callers-differ", format!("caller 0 got {f}, caller {i} got {l}"))),
                            _ => {}
                        }
                    }
                    other => viol.push(viol_("head-caller-unanswered", format!("caller {i}: every peer answered and the rule gives {allowed_names:?}, but the caller has {}", show(other)))),
                }
            }
        }
    }
    // nothing may ever have gone to an untrusted / disconnected peer (also in round 2)
    let _ = check_all_targets(&sys, &mut viol);
    Outcome { class, violations: viol, events }
}

fn check_all_targets(sys: &Sys, viol: &mut Vec<(String, String)>) -> usize {
    let sent = sys.client.sent();
    for (id, peer, _) in &sent {
        let ok = sys.peer_index(*peer).is_some_and(|i| sys.peers[i].trusted && sys.peers[i].conn.is_some());
        if !ok && !viol.iter().any(|(k, _)| k == "head-sent-to-untrusted-or-disconnected-peer") {
            viol.push(viol_("head-sent-to-untrusted-or-disconnected-peer", format!("request {id} went to a peer that is not a connected trusted peer")));
        }
    }
    sent.len()
}

fn show(g: &Got) -> String {
    match g {
        Got::Ok(v) => format!("Ok({:?})", v.iter().map(label_of).collect::<Vec<_>>()),
        other => format!("{other:?}"),
    }
}

fn eval(c: &Case, rep: &mut Report) {
    let out = guard(|| with_rt(run_case(c)));
    match out {
        Err(p) => {
            rep.case(c.key(), "panic", true);
            rep.violation("panic", format!("handler panicked: {p}"), c.json());
        }
        Ok(o) => {
            // non-trivial: at least two distinct valid reports, or a mix of valid and unusable answers
            let distinct: BTreeSet<u8> = c.answers.iter().copied().filter(|a| *a <= 3).collect();
            let nontrivial = distinct.len() >= 2 || (distinct.len() == 1 && c.answers.iter().any(|a| *a > 3));
            rep.case(c.key(), &o.class, nontrivial);
            rep.transitions += o.events;
            if rep.wants_sample() && c.key() % 1009 == 7 {
                rep.sample(|| json!({"case": c.json(), "result": o.class}));
            }
            for (k, what) in o.violations {
                rep.violation(&k, what, c.json());
            }
        }
    }
}

fn assignments(n: usize) -> Vec<Vec<u8>> {
    let mut out = vec![vec![]];
    for _ in 0..n {
        out = out
            .into_iter()
            .flat_map(|p: Vec<u8>| {
                (0..ANSWERS.len() as u8).map(move |a| {
                    let mut q = p.clone();
                    q.push(a);
                    q
                })
            })
            .collect();
    }
    out
}

fn orders(n: usize, full_upto: usize) -> Vec<Vec<u8>> {
    if n <= full_upto {
        permutations(n).into_iter().map(|p| p.into_iter().map(|x| x as u8).collect()).collect()
    } else {
        // all rotations of the identity and of its reverse
        let mut out: Vec<Vec<u8>> = vec![];
        for r in 0..n {
            let fwd: Vec<u8> = (0..n).map(|i| ((i + r) % n) as u8).collect();
            let mut bwd = fwd.clone();
            bwd.reverse();
            out.push(fwd);
            out.push(bwd);
        }
        out.sort();
        out.dedup();
        out
    }
}

fn main() {
    let ctx = Ctx::from_args("C31");
    let _ = fixtures();
    let rep = if let Some(c) = ctx.replay_case() {
        let mut rep = Report::new();
        eval(&Case::from_json(&c), &mut rep);
        rep
    } else {
        let max_t = ctx.tier.pick(4, 5);
        let t0 = std::time::Instant::now();
        let cap = std::time::Duration::from_secs(ctx.tier.pick(50, 780));
        // simplest first: few peers, one caller, no bystanders
        let mut groups: Vec<(usize, usize, usize, usize)> = vec![];
        for nt in 1..=max_t {
            for nu in 0..=2 {
                for nd in 0..=1 {
                    for mode in 0..4 {
                        // "second caller after the first response" needs a round that is
                        // still open after one response
                        if mode == 3 && nt < 2 {
                            continue;
                        }
                        groups.push((nt, nu, nd, mode));
                    }
                }
            }
        }
        groups.sort_by_key(|g| (g.0, g.3.min(1) + g.1 + g.2, g.3, g.1, g.2));
        if ctx.quick() {
            // a thin slice with 5 trusted peers (the smallest population in which two agreed
            // headers can have different support: 3 + 2), placed before the large nT=4 groups
            let at = groups.iter().position(|g| g.0 == 4).unwrap_or(groups.len());
            groups.insert(at, (5, 0, 0, 0));
        }
        let mut rep = Report::new();
        let mut completed: Vec<Value> = vec![];
        for (nt, nu, nd, mode) in groups {
            if t0.elapsed() > cap {
                rep.cap_hit(&format!("wall cap before group nt={nt} nu={nu} nd={nd} mode={mode}"));
                continue;
            }
            // quick: for 4 trusted peers the bystander / caller-mode variants use the
            // rotation orders only; the full permutation set runs with (nu,nd,mode)=(0,0,0)
            // and (2,1,1).  thorough: full permutations for every group with <= 4 peers.
            let full = if ctx.quick() && nt == 4 && !matches!((nu, nd, mode), (0, 0, 0) | (2, 1, 1) | (1, 0, 3)) { 3 } else { 4 };
            let ords = if ctx.quick() && nt == 5 {
                vec![vec![0u8, 1, 2, 3, 4], vec![4u8, 3, 2, 1, 0]]
            } else {
                orders(nt, full)
            };
            let asg = assignments(nt);
            let cases: Vec<Case> = asg
                .iter()
                .flat_map(|a| {
                    ords.iter().map(move |o| Case { nt, nu, nd, mode, answers: a.clone(), order: o.clone() })
                })
                .collect();
            let n = cases.len();
            let r = par_cases(cases, |c, rep| eval(&c, rep));
            completed.push(json!({"nt": nt, "nu": nu, "nd": nd, "mode": mode, "orders": ords.len(), "cases": n}));
            rep.merge_in(r);
        }
        rep.extra("groups_completed", json!(completed));
        rep
    };
    finish(
        &ctx,
        rep,
        Spec {
            rule: "nT in 1..=4 (quick) / 1..=5 (thorough) connected trusted peers x nU in 0..=2 connected untrusted peers (first archival) x nD in 0..=1 disconnected trusted peers x caller mode {1 caller; 2nd caller before tick / after tick / after first response (nT>=2)} x all 7^nT assignments of {A@10,A'@10,B@11,C@12,two-headers,invalid-header,failure} to the trusted peers x response orders (all nT! permutations for nT<=4 [quick, nT=4: only for (nU,nD,mode) in {(0,0,0),(2,1,1),(1,0,3)}, else the rotations of the identity and its reverse]; nT=5: rotations of identity and reverse; quick additionally runs the slice nT=5,(nU,nD,mode)=(0,0,0) with the identity order and its reverse before the nT=4 groups); rounds without a valid report are followed by a second round answered B@11 by every peer; distinct = (nT,nU,nD,mode,assignment,order); non-trivial = at least two different valid reports, or one valid report mixed with unusable answers",
            assumptions: &[
                "header contents (keys, hashes) come from the repo's random ExtendedHeaderGenerator; the property depends only on height, hash equality and validity",
                "which of several equally high, equally supported headers wins is not fixed by the statement: any of them is accepted",
                "a response with two headers to a head request is not a report (amount=1)",
                "peer identities are random; the order in which the handler iterates peers (HashMap) is not controlled, all assignments x all response orders cover every mapping",
                "more than 10 trusted peers (MAX_PEERS truncation) is outside the bound",
            ],
            required_classes: &["agreed:*", "highest:*", "no-valid-report:retry"],
            exhaustive: true,
        },
    );
}
