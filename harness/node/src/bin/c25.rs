//! C25 — Syncer never re-requests history behind a pruned window edge.   (engine E3 envdfs)
//!
//! System: the real `Syncer` + `InMemoryStore` + mocked `P2p`, paused clock.  Honest chain of
//! 20 headers; heights 1..=OLD are older than the sampling window (>= 2 h margin), the rest are
//! inside it; network head 16, batch size 4 (or 3).  Environment menu at every step: answer the
//! outstanding header request (honest full [default] / all-but-last prefix / first header only /
//! header-ex error), header-sub announces the next head or skips one, **prune any stored height
//! that is older than the sampling window** (`remove_height`, edge or not — what the pruner
//! is allowed to take), disconnect / reconnect, let 61 s pass.
//!
//! Oracle, on every batch the syncer announces (`FetchingHeadersStarted`), against the store at
//! that moment: (1) no synced (stored *or pruned*) height above the batch is older than the
//! sampling window; (2) a batch is not requested again when the previous attempt for the very
//! same range was answered completely with honest headers and the store did not change.
use lv_core::*;
use std::time::Duration;

#[path = "../shared/syncer_sys.rs"]
mod syncer_sys;
use syncer_sys::*;

fn configs(tier: Tier) -> Vec<SysCfg> {
    let menu = Menu {
        prefix: true,
        error: true,
        adversarial: false,
        fork: false,
        store_call_prune: true,
        head_variants: false,
        header_sub: true,
        prune: true,
        disconnect: true,
        clock: true,
    };
    let base = SysCfg {
        name: "old6-batch4",
        old_upto: 6,
        init_head: 16,
        total: 20,
        batch: 4,
        prefill: None,
        menu,
        oracles: Oracles { c24: false, c25: true, c38: false },
        tail_events: 40,
        max_events: 60,
        aging: None,
    };
    // old8-batch4: the lowest stored header is exactly the newest out-of-window one
    let mut v = vec![base.clone(), SysCfg { name: "old8-batch4", old_upto: 8, ..base.clone() }];
    // real-time configuration (the wall clock is not seamed): 4 s sampling window, every header
    // 3 s inside it when an execution starts, environment event "3.2 s of REAL time pass"
    // (offered once, while a range request is outstanding), after which every header is outside
    // the window; a forked answer / a reconnect then makes the syncer plan the same batch again
    v.push(SysCfg {
        name: "realtime-window4s-batch4",
        old_upto: 0,
        menu: Menu {
            prefix: false,
            error: false,
            adversarial: false,
            fork: true,
            store_call_prune: false,
            head_variants: false,
            header_sub: false,
            prune: false,
            disconnect: true,
            clock: false,
        },
        aging: Some(Aging {
            window: Duration::from_secs(4),
            inside: Duration::from_millis(3000),
            sleep: Duration::from_millis(3200),
        }),
        ..base.clone()
    });
    if tier == Tier::Thorough {
        v.push(SysCfg { name: "old9-batch3", old_upto: 9, batch: 3, ..base.clone() });
        v.push(SysCfg { name: "old6-batch4-prefilled-5-8", prefill: Some(5..=8), ..base });
    }
    v
}

fn main() {
    let ctx = Ctx::from_args("C25");
    let mut rep = Report::new();
    let cfgs = configs(Tier::Thorough);
    if let Some(c) = ctx.replay_case() {
        let name = c["config"].as_str().unwrap_or("old6-batch4").to_string();
        let Some(cfg) = cfgs.iter().find(|c| c.name == name) else {
            machinery_error(&ctx.id, &format!("unknown config {name}"));
        };
        let ch = Chains::build(cfg.old_upto, cfg.total).unwrap_or_else(|e| machinery_error(&ctx.id, &e));
        let choices: Vec<u32> = serde_json::from_value(c["choices"].clone()).unwrap_or_else(|e| machinery_error(&ctx.id, &format!("bad choices: {e}")));
        replay_into(cfg, &ch, &choices, &mut rep).unwrap_or_else(|e| machinery_error(&ctx.id, &e));
    } else {
        let bound = ctx.tier.pick(3, 4);
        let cfgs = configs(ctx.tier);
        let per_cfg_cap = Duration::from_secs(ctx.tier.pick(50, 800) / cfgs.len() as u64);
        for cfg in &cfgs {
            let ch = Chains::build(cfg.old_upto, cfg.total).unwrap_or_else(|e| machinery_error(&ctx.id, &e));
            // the first configuration gets the full bound, the others one deviation less
            let b = if cfg.name == "old6-batch4" {
                bound
            } else if cfg.aging.is_some() {
                ctx.tier.pick(2, 3)
            } else {
                bound - 1
            };
            explore_cfg(cfg, &ch, b, per_cfg_cap, u64::MAX, &mut rep).unwrap_or_else(|e| machinery_error(&ctx.id, &e));
        }
        coverage_into(&mut rep);
    }
    finish(
        &ctx,
        rep,
        Spec {
            rule: "E3 envdfs on the real Syncer+InMemoryStore+mocked P2p (paused clock): all environment choice sequences with <= 3 (quick) / <= 4 (thorough) non-default choices, default = honest full answer to the oldest request / reconnect / run init timers / stop when idle; menu per step = {answer: honest, all-but-last prefix, first only, header-ex error} x {header-sub next head, skip one} x {prune any stored height older than the sampling window, as an event at quiescence AND as a choice point right before each get_stored_header_ranges / get_pruned_ranges / get_by_height / insert call the syncer makes} x {disconnect, reconnect} x {61 s pass}; real-time config realtime-window4s-batch4 (4 s window, headers 3 s inside it at execution start, menu {honest, fork-B answer, disconnect, 3.2 s of REAL time pass [once, while a range request is outstanding]}) at <= 2 (quick) / <= 3 (thorough) deviations; configs: old6-batch4 (heights 1..6 old, head 16, batch 4) at the full bound, old8-batch4 at bound-1 [+ old9-batch3, old6-batch4-prefilled-5-8 at bound-1 in thorough]; horizon 40 default-only events after the last deviation, 60 events absolute; an evaluation = one complete execution, a transition = one environment event followed by the oracles; states = distinct property-level observation traces",
            assumptions: &[
                "Time::now() is not seamed: header times are >= 2 h away from the sampling-window edge, so wall-clock progress during the run cannot change a verdict; the exact boundary instant is not checked",
                "the mock sits behind the header-ex client: answers are contiguous runs of individually valid headers starting at the requested height",
                "pruning is modelled as Store::remove_height on any stored height older than the sampling window (what Pruner::get_next_prunable_batch may select, edges included); in-window heights are never pruned",
                "one environment event at a time with a settle in between (select! start-branch randomness cannot reorder externally caused events)",
                "realtime-window4s-batch4 depends on the real clock (an execution attempt whose pre-sleep part took more than 2.4 s of real time is thrown away and repeated, 8 stalled attempts in a row are a machinery error): 'older than the window' is computed there from Time::now() taken BEFORE the environment event that triggered the planning was injected, so a stalled machine can only make headers older (the syncer then stops earlier; coverage of that config may vary) but cannot produce a false alarm; a header that leaves the window between that instant and the syncer's decision gets no verdict",
                "a repeated batch is only judged when the previous attempt was answered completely with honest headers and was not cancelled",
            ],
            required_classes: &[
                "completed",
                "cov:batches-checked",
                "cov:prunes",
                "cov:window-bounding-header-pruned-then-syncer-triggered",
                "cov:idle-below-old-stored-header",
                "cov:prunes-between-store-calls",
                "cov:replanning-after-real-time-aging",
            ],
            exhaustive: true,
        },
    );
}
