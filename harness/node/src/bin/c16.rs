//! C16 — Decoding network input never panics.   (engine E1, one subprocess per decoder family)
//!
//! A bounded, structured, *exhaustive* mutation sweep (not fuzzing: nothing is sampled).  For
//! every decoder that processes bytes received from peers and every honest encoding of the
//! fixtures (`shared/c16_gen*.rs`) the complete product described in `RULE` is run through
//! the real decoder followed by the real verification step (`shared/c16_dec.rs::run`).
//!
//! Oracle: the call returns (a value or an error).  A panic — the harness release profile has
//! overflow checks and debug assertions on — is a violation `panic:<decoder>`; a case whose
//! live heap exceeds 1 GiB is `alloc-bound:<decoder>`.  Each family runs in a subprocess of
//! this binary under `RLIMIT_AS` = 4 GiB; when the allocator refuses a request the counting
//! allocator (`shared/c16_alloc.rs`) dumps the running case before the process aborts and
//! the parent reports `alloc-abort:<decoder>` with that input; any other death of a child is
//! `crash:<family>`.
#[path = "../shared/c16_alloc.rs"]
mod c16_alloc;
#[path = "../shared/c16_dec.rs"]
mod c16_dec;
#[path = "../shared/c16_fix.rs"]
mod c16_fix;
#[path = "../shared/c16_gen.rs"]
mod c16_gen;
#[path = "../shared/c16_gen2.rs"]
mod c16_gen2;
#[path = "../shared/c16_wire.rs"]
mod c16_wire;
#[path = "../../../types/src/shared/chain.rs"]
mod chain;
#[path = "../shared/hex_common.rs"]
mod hex_common;
#[path = "../../../types/src/shared/proofs.rs"]
mod proofs;
#[path = "../shared/shwap_squares.rs"]
mod shwap_squares;
#[path = "../../../types/src/shared/square.rs"]
mod square;

use std::collections::BTreeMap;
use std::sync::Mutex;
use std::time::{Duration, Instant};

use c16_dec::{D, Frame, Fx, Out};
use c16_fix::Env;
use c16_wire as w;
use lv_core::*;
use rayon::prelude::*;
use serde_json::{Value, json};

#[global_allocator]
static ALLOC: c16_alloc::CountingAlloc = c16_alloc::CountingAlloc;

const RULE: &str = "decoders: ExtendedHeader decode+validate(+verify against a trusted header); Sample/Row/RowNamespaceData decode+verify; BadEncodingFraudProof decode+validate(header); NamespaceProof/MerkleProof/RowProof/ShareProof decode+verify; shrex codec decode_and_verify of EDS/sample/row/namespace-data responses and decode of the four request ids; shrex-sub EdsNotification; bitswap blocks through ShwapMultihasher (sample/row/row-namespace-data, id taken from the block's CID) and get_block_container; header-ex HeaderCodec read_request, and read_response followed by decode_and_verify_responses. \
honest encodings: squares of ODS width 1,1,2,2,4 (+8,16 thorough; one with share version 1, the empty block), samples at the corners of every quadrant with row and column proofs, rows (left and right halves) 0,w-1,w,2w-1, namespace data of the first/middle/last/absent/parity namespace, bad-encoding proofs of rows/columns corrupted in an original or a parity cell (EDS width 4; +8,16 thorough) and of honest squares, a signed header chain (1-3 validators, nil and absent votes), header-ex requests by origin/hash and response lists of 1..3 (thorough: 8..10) headers. \
per honest encoding the full product of: (a) truncation at EVERY byte; (b) byte substitution {0x00,0xff,^0x01,^0x80} at positions first 256 + last 64 + within 2 of every protobuf field boundary found by a recursive wire walk (quick) / EVERY position (thorough; encodings above 16 KiB: first 1024 + last 256 + within 8 of every field or share boundary + every 64th byte); all 256 values at every position of the fixed-size ids, notifications and header-ex requests; (c) every single-node mutation of the protobuf tree: each varint := {0,1,2^31-1,2^31,2^32-1,2^63-1,2^63,2^64-1,i32::MIN sign-extended}, each absent field number up to two past the largest present one (at most 8) of every (sub)message inserted with the same 9 values / empty bytes / one byte, each bytes field {empty, first byte, last byte dropped, one byte appended, doubled, all 0x00, all 0xff}, each sub-message emptied, each field removed, each run of equal-numbered fields resized to {0,1,63,64,65,200}; (d) all PAIRS of integer mutations of (c) when the encoding has at most 200 (quick) / 2600 (thorough; header-ex responses 700) of them; (e) prost Raw-type products: NMT proof start x end over the 9 values x node count {honest,0,1,63,64,65,200} x leaf_hash {honest, presence<->absence, 89 bytes, 1 byte, 91 bytes} x ignore flag; Sample proof_type {0,1,-1,2,i32::MAX,i32::MIN} x share {honest,absent,empty,511,513 bytes} x proof {honest,absent,absence form,0..200 nodes}; Row shares_half count {0,1,2,3,w-1,w+1,2w,63,64,65,200} x half_side {0,1,-1,2,i32::MAX,i32::MIN} x share size {512,0,1,511,513,64,65}; RowNamespaceData share count x share form x proof form; BadEncoding index {0,1,w-1,w,65535,65536,2^31-1,2^31,2^32-1} x height {h,h+1,2^64-1 (+0,1,2^63-1,2^63 thorough)} x axis {0,1,-1,2} x share count {w,0,1,w-1,w+1,63,64,65,200} x share form x present entries {all,left half,right half,even,odd}; RowProof start_row x end_row over u32 extremes x list lengths, merkle total x index; ShareProof share-proof ranges x data count x namespace version; bitswap CID height x row x column extremes and version/codec/multihash/declared-length/digest forms; shrex EDS payloads of {0..5,8,9,15,16,17,25,36,63,64,65,200 (+256,1024,1089,4096 thorough)} shares x {honest,zero,0xff bytes} x length offsets {0,-1,+1,+256}; header-ex request data x amount over the 9 values and 12 length-prefix forms, response entry count x status x body form, streams of 2^10 / 2^20 (thorough: 10 MiB -1/+0/+1) empty entries; shrex namespace data of {0,1,2,65535,65536,65537,200000} minimal rows. \
distinct = (decoder, honest encoding, mutation) by construction; non-trivial = every case but the unmodified honest encodings";

const ALLOC_CASE_CAP: usize = 1 << 30;
const RLIMIT_AS_BYTES: u64 = 4 << 30;

// ------------------------------------------------------------------ per-decoder statistics

#[derive(Default, Clone)]
struct Stat {
    cases: u64,
    ok: u64,
    panics: u64,
    err: BTreeMap<String, u64>,
    by_kind: BTreeMap<String, u64>,
    fixtures: u64,
    max_peak: usize,
    sites: BTreeMap<String, u64>,
    cpu_us: u64,
}

impl Stat {
    fn merge(&mut self, o: &Stat) {
        self.cases += o.cases;
        self.ok += o.ok;
        self.panics += o.panics;
        self.fixtures += o.fixtures;
        self.cpu_us += o.cpu_us;
        self.max_peak = self.max_peak.max(o.max_peak);
        for (k, v) in &o.err {
            *self.err.entry(k.clone()).or_insert(0) += v;
        }
        for (k, v) in &o.by_kind {
            *self.by_kind.entry(k.clone()).or_insert(0) += v;
        }
        for (k, v) in &o.sites {
            *self.sites.entry(k.clone()).or_insert(0) += v;
        }
    }
    fn to_json(&self) -> Value {
        json!({"cases": self.cases, "ok": self.ok, "panics": self.panics, "err": self.err, "by_kind": self.by_kind, "fixtures": self.fixtures, "max_peak_alloc_bytes": self.max_peak, "panic_sites": self.sites, "cpu_ms": self.cpu_us / 1000})
    }
    fn from_json(v: &Value) -> Stat {
        let m = |k: &str| -> BTreeMap<String, u64> { v[k].as_object().map(|o| o.iter().map(|(k, v)| (k.clone(), v.as_u64().unwrap_or(0))).collect()).unwrap_or_default() };
        Stat {
            cases: v["cases"].as_u64().unwrap_or(0),
            ok: v["ok"].as_u64().unwrap_or(0),
            panics: v["panics"].as_u64().unwrap_or(0),
            err: m("err"),
            by_kind: m("by_kind"),
            fixtures: v["fixtures"].as_u64().unwrap_or(0),
            max_peak: v["max_peak_alloc_bytes"].as_u64().unwrap_or(0) as usize,
            sites: m("panic_sites"),
            cpu_us: v["cpu_ms"].as_u64().unwrap_or(0) * 1000,
        }
    }
}

#[derive(Default)]
struct Acc {
    stats: BTreeMap<&'static str, Stat>,
    samples: Vec<Value>,
    skipped_tasks: u64,
}

impl Acc {
    fn merge(mut self, o: Acc) -> Acc {
        for (k, v) in &o.stats {
            self.stats.entry(k).or_default().merge(v);
        }
        for s in o.samples {
            if self.samples.len() < 8 {
                self.samples.push(s);
            }
        }
        self.skipped_tasks += o.skipped_tasks;
        self
    }
}

struct Viol {
    key: String,
    what: String,
    case: Value,
    size: usize,
}

static VIOLS: Mutex<Vec<Viol>> = Mutex::new(Vec::new());
static VIOL_COUNT: std::sync::atomic::AtomicU64 = std::sync::atomic::AtomicU64::new(0);

fn record_violation(v: Viol) {
    VIOL_COUNT.fetch_add(1, std::sync::atomic::Ordering::Relaxed);
    let mut g = VIOLS.lock().unwrap();
    // keep the three smallest inputs per key
    let same: Vec<usize> = g.iter().enumerate().filter(|(_, x)| x.key == v.key).map(|(i, _)| i).collect();
    if same.len() < 3 {
        g.push(v);
    } else if let Some(worst) = same.iter().copied().max_by_key(|i| g[*i].size) {
        if g[worst].size > v.size {
            g[worst] = v;
        }
    }
}

// ------------------------------------------------------------------ one case

/// Machinery self-test (never active in a normal run): with `LV_C16_SELFTEST=alloc` the
/// harness itself asks for 8 GiB while the eds-notification decoder handles the empty input,
/// with `LV_C16_SELFTEST=abort` it aborts there; used to show that the parent attributes a
/// dead subprocess (`alloc-abort:<decoder>` / `crash:<family>`).
fn selftest_hook(d: D, input: &[u8]) {
    static MODE: std::sync::OnceLock<u8> = std::sync::OnceLock::new();
    let mode = *MODE.get_or_init(|| match std::env::var("LV_C16_SELFTEST").ok().as_deref() {
        Some("alloc") => 1,
        Some("abort") => 2,
        _ => 0,
    });
    if mode != 0 && d == D::EdsNotification && input.is_empty() {
        if mode == 1 {
            let v: Vec<u8> = Vec::with_capacity(8 << 30);
            std::hint::black_box(&v);
        } else {
            std::process::abort();
        }
    }
}

struct Run<'a> {
    env: &'a Env,
    tier: &'static str,
    di: usize,
    fi: usize,
    fx: &'a Fx,
}

fn case_json(r: &Run, mutation: &str, input: &[u8]) -> Value {
    json!({
        "decoder": r.fx.d.name(),
        "fixture": r.fx.name,
        "mutation": mutation,
        "input_hex": hex::encode(input),
        "tier": r.tier,
        "seed": r.env.seed,
    })
}

fn eval(r: &Run, kind: &'static str, desc: &dyn Fn() -> String, input: &[u8], acc: &mut Acc) -> Option<Out> {
    c16_alloc::case_begin(r.di, r.fi, input);
    let got = guard(|| {
        selftest_hook(r.fx.d, input);
        c16_dec::run(r.env, r.fx, input)
    });
    let (peak, _biggest) = c16_alloc::case_end();
    let name = r.fx.d.name();
    let st = acc.stats.entry(name).or_default();
    st.cases += 1;
    *st.by_kind.entry(kind.to_string()).or_insert(0) += 1;
    st.max_peak = st.max_peak.max(peak);
    if peak > ALLOC_CASE_CAP {
        record_violation(Viol {
            key: format!("alloc-bound:{name}"),
            what: format!("decoder {name} held {peak} bytes of heap for one input of {} bytes ({})", input.len(), desc()),
            case: case_json(r, &desc(), input),
            size: input.len(),
        });
    }
    match got {
        Ok(Out::Ok) => {
            st.ok += 1;
            if kind == "honest" && acc.samples.len() < 8 && r.fi == 0 {
                acc.samples.push(json!({"decoder": name, "fixture": r.fx.name, "mutation": "none (honest encoding)", "input_bytes": input.len(), "outcome": "ok"}));
            }
            Some(Out::Ok)
        }
        Ok(Out::Err(stage)) => {
            *st.err.entry(stage.to_string()).or_insert(0) += 1;
            if acc.samples.len() < 8 && r.fi == 0 && st.cases % 997 == 3 {
                acc.samples.push(json!({"decoder": name, "fixture": r.fx.name, "mutation": desc(), "input_bytes": input.len(), "outcome": format!("err:{stage}")}));
            }
            Some(Out::Err(stage))
        }
        Err(p) => {
            st.panics += 1;
            let site = p.rsplit(" @ ").next().unwrap_or("?").to_string();
            *st.sites.entry(site).or_insert(0) += 1;
            record_violation(Viol {
                key: format!("panic:{name}"),
                what: format!("decoder {name} panicked on {} of honest encoding {}: {p}", desc(), r.fx.name),
                case: case_json(r, &desc(), input),
                size: input.len(),
            });
            None
        }
    }
}

// ------------------------------------------------------------------ enumeration

struct Prep {
    tree: Option<(Vec<w::Field>, Vec<usize>)>,
    positions: Vec<usize>,
    singles: Vec<w::Mut1>,
    ints: Vec<w::Mut1>,
    pairs: bool,
}

#[derive(Clone, Copy, Debug)]
enum Chunk {
    Honest,
    Trunc(usize, usize),
    Byte(usize, usize),
    AllValues(usize, usize),
    Tree(usize, usize),
    Pair(usize, usize),
    Typed(usize, usize),
}

fn prep(fx: &Fx, thorough: bool) -> Prep {
    let tree = c16_dec::tree_of(fx.frame, &fx.honest);
    if fx.frame != Frame::Raw && tree.is_none() {
        machinery_error("C16", &format!("fixture {}/{} is not well-formed protobuf", fx.d.name(), fx.name));
    }
    let n = fx.honest.len();
    // raw inputs: the share boundaries (and the end of the namespace / info bytes of every
    // share) play the role of the field boundaries
    let raw_bd = || (0..=n / 512).flat_map(|i| [i * 512, i * 512 + 29, i * 512 + 30]).filter(|p| *p <= n).collect::<Vec<_>>();
    let positions: Vec<usize> = match (&tree, thorough) {
        (_, true) if n <= w::BIG_INPUT => (0..n).collect(),
        (Some((_, bd)), true) => w::big_positions(n, bd),
        (None, true) => w::big_positions(n, &raw_bd()),
        (Some((_, bd)), false) => w::quick_positions(n, bd),
        (None, false) => w::quick_positions(n, &raw_bd()),
    };
    let (singles, ints) = match &tree {
        Some((t, _)) => (w::single_mutations(t), w::int_mutations(t)),
        None => (vec![], vec![]),
    };
    // header-ex responses carry whole headers whose validation costs milliseconds: pairs only
    // for the single-header responses there
    let cap = match (thorough, fx.d) {
        (true, D::HexResponse) => 700,
        (true, _) => 2600,
        (false, _) => 200,
    };
    let pairs = !ints.is_empty() && ints.len() <= cap;
    Prep { tree, positions, singles, ints, pairs }
}

fn chunks_of(fx: &Fx, p: &Prep) -> Vec<Chunk> {
    let mut out = vec![Chunk::Honest];
    let step = |n: usize, size: usize, mk: &dyn Fn(usize, usize) -> Chunk, out: &mut Vec<Chunk>| {
        let mut lo = 0;
        while lo < n {
            let hi = (lo + size).min(n);
            out.push(mk(lo, hi));
            lo = hi;
        }
    };
    step(fx.honest.len(), 512, &Chunk::Trunc, &mut out);
    step(p.positions.len(), 128, &Chunk::Byte, &mut out);
    if fx.all_values {
        step(fx.honest.len(), 8, &Chunk::AllValues, &mut out);
    }
    step(p.singles.len(), 128, &Chunk::Tree, &mut out);
    if p.pairs {
        step(p.ints.len(), 4, &Chunk::Pair, &mut out);
    }
    step(fx.typed_n, 128, &Chunk::Typed, &mut out);
    out
}

fn run_chunk(r: &Run, p: &Prep, c: Chunk, acc: &mut Acc) {
    let honest = &r.fx.honest;
    match c {
        Chunk::Honest => {
            let got = eval(r, "honest", &|| "honest encoding".into(), honest, acc);
            let want_ok = r.fx.honest_ok;
            if let Some(o) = got {
                if (o == Out::Ok) != want_ok {
                    machinery_error("C16", &format!("fixture {}/{}: the honest encoding gave {o:?}, expected ok={want_ok}", r.fx.d.name(), r.fx.name));
                }
            }
        }
        Chunk::Trunc(lo, hi) => {
            for n in lo..hi {
                eval(r, "truncation", &|| format!("truncated to {n} of {} bytes", honest.len()), &honest[..n], acc);
            }
        }
        Chunk::Byte(lo, hi) => {
            let mut buf = honest.clone();
            for &pos in &p.positions[lo..hi] {
                let orig = buf[pos];
                for op in 0..w::BYTE_OPS {
                    let nb = w::byte_op(orig, op);
                    // 0x00 / 0xff may coincide with the original or with a flip: skip repeats
                    if nb == orig || (op < 2 && (nb == orig ^ 1 || nb == orig ^ 0x80)) {
                        continue;
                    }
                    buf[pos] = nb;
                    eval(r, "byte", &|| format!("byte {pos} {orig:#04x} -> {nb:#04x}"), &buf, acc);
                }
                buf[pos] = orig;
            }
        }
        Chunk::AllValues(lo, hi) => {
            let mut buf = honest.clone();
            for pos in lo..hi {
                let orig = buf[pos];
                for v in 0..=255u8 {
                    if v == orig {
                        continue;
                    }
                    buf[pos] = v;
                    eval(r, "byte-all-values", &|| format!("byte {pos} {orig:#04x} -> {v:#04x}"), &buf, acc);
                }
                buf[pos] = orig;
            }
            if lo == 0 {
                // lengths beyond the honest one
                for extra in 1..=2usize {
                    let mut b = honest.clone();
                    b.extend(std::iter::repeat_n(0u8, extra));
                    eval(r, "byte-all-values", &|| format!("{extra} zero bytes appended"), &b, acc);
                }
            }
        }
        Chunk::Tree(lo, hi) => {
            let (tree, _) = p.tree.as_ref().unwrap();
            for m in &p.singles[lo..hi] {
                let b = c16_dec::encode_tree(r.fx.frame, &w::apply(tree, m));
                eval(r, "tree", &|| w::describe(tree, m), &b, acc);
            }
        }
        Chunk::Pair(lo, hi) => {
            let (tree, _) = p.tree.as_ref().unwrap();
            for i in lo..hi {
                for j in i + 1..p.ints.len() {
                    let (a, b) = (&p.ints[i], &p.ints[j]);
                    // two values for one node are not a pair
                    if w::mut_path(a) == w::mut_path(b) && matches!((a, b), (w::Mut1::Int(..), w::Mut1::Int(..))) {
                        continue;
                    }
                    if let (w::Mut1::Insert(pa, na, _), w::Mut1::Insert(pb, nb, _)) = (a, b) {
                        if pa == pb && na == nb {
                            continue;
                        }
                    }
                    let bytes = c16_dec::encode_tree(r.fx.frame, &w::apply_pair(tree, a, b));
                    eval(r, "tree-pair", &|| format!("{} & {}", w::describe(tree, a), w::describe(tree, b)), &bytes, acc);
                }
            }
        }
        Chunk::Typed(lo, hi) => {
            let g = r.fx.typed.as_ref().unwrap();
            for ord in lo..hi {
                let (desc, b) = g(ord);
                eval(r, "typed", &|| format!("typed#{ord} {desc}"), &b, acc);
            }
        }
    }
}

// ------------------------------------------------------------------ child process

fn thread_cpu_us() -> u64 {
    let mut ts = libc::timespec { tv_sec: 0, tv_nsec: 0 };
    unsafe { libc::clock_gettime(libc::CLOCK_THREAD_CPUTIME_ID, &mut ts) };
    ts.tv_sec as u64 * 1_000_000 + ts.tv_nsec as u64 / 1000
}

fn set_rlimit() {
    let lim = libc::rlimit { rlim_cur: RLIMIT_AS_BYTES, rlim_max: RLIMIT_AS_BYTES };
    if unsafe { libc::setrlimit(libc::RLIMIT_AS, &lim) } != 0 {
        machinery_error("C16", "setrlimit(RLIMIT_AS) failed");
    }
    // no core files from the expected aborts
    let zero = libc::rlimit { rlim_cur: 0, rlim_max: 0 };
    unsafe { libc::setrlimit(libc::RLIMIT_CORE, &zero) };
}

fn open_fail_fd() {
    if let Ok(p) = std::env::var("LV_C16_FAIL") {
        if let Ok(f) = std::fs::OpenOptions::new().create(true).append(true).open(p) {
            use std::os::fd::IntoRawFd;
            c16_alloc::set_fail_fd(f.into_raw_fd());
        }
    }
}

fn write_child_result(acc: Acc, caps: Vec<String>) -> ! {
    let viols = VIOLS.lock().unwrap();
    let out = json!({
        "stats": acc.stats.iter().map(|(k, v)| (k.to_string(), v.to_json())).collect::<BTreeMap<_, _>>(),
        "samples": acc.samples,
        "violations": viols.iter().map(|v| json!({"key": v.key, "what": v.what, "case": v.case, "size": v.size})).collect::<Vec<_>>(),
        "violation_count": VIOL_COUNT.load(std::sync::atomic::Ordering::Relaxed),
        "caps": caps,
    });
    let path = std::env::var("LV_C16_OUT").unwrap_or_else(|_| machinery_error("C16", "child without LV_C16_OUT"));
    std::fs::write(&path, serde_json::to_vec(&out).unwrap()).unwrap_or_else(|e| machinery_error("C16", &format!("child cannot write {path}: {e}")));
    std::process::exit(0)
}

fn child_family(family: &str, thorough: bool, seed: u64, budget: Duration) -> ! {
    let start = Instant::now();
    hex_common::pin_mmap_threshold();
    let env = Env::build(seed, thorough);
    let tier: &'static str = if thorough { "thorough" } else { "quick" };
    let decs: Vec<D> = c16_dec::ALL.iter().copied().filter(|d| d.family() == family).collect();
    let fixtures: Vec<(D, Vec<Fx>)> = decs.iter().map(|d| (*d, c16_gen::fixtures(&env, *d))).collect();
    // (decoder idx, fixture idx, prep)
    let mut units: Vec<(usize, usize, &Fx, Prep)> = vec![];
    for (d, fxs) in &fixtures {
        for (fi, f) in fxs.iter().enumerate() {
            units.push((d.idx(), fi, f, prep(f, thorough)));
        }
    }
    let mut tasks: Vec<(usize, Chunk)> = vec![];
    for (ui, (_, _, f, p)) in units.iter().enumerate() {
        for c in chunks_of(f, p) {
            tasks.push((ui, c));
        }
    }
    // simplest first: honest and small inputs before the big products
    tasks.sort_by_key(|(ui, c)| (!matches!(c, Chunk::Honest), matches!(c, Chunk::Pair(..)), units[*ui].2.honest.len()));
    let acc = tasks
        .par_iter()
        .fold(Acc::default, |mut acc, (ui, c)| {
            if start.elapsed() > budget {
                acc.skipped_tasks += 1;
                return acc;
            }
            let (di, fi, f, p) = &units[*ui];
            let r = Run { env: &env, tier, di: *di, fi: *fi, fx: f };
            let t0 = thread_cpu_us();
            run_chunk(&r, p, *c, &mut acc);
            acc.stats.entry(f.d.name()).or_default().cpu_us += thread_cpu_us().saturating_sub(t0);
            acc
        })
        .reduce(Acc::default, Acc::merge);
    let mut acc = acc;
    for (d, fxs) in &fixtures {
        acc.stats.entry(d.name()).or_default().fixtures = fxs.len() as u64;
    }
    let mut caps = vec![];
    if acc.skipped_tasks > 0 {
        caps.push(format!("time budget of family {family}: {} task chunks skipped", acc.skipped_tasks));
    }
    write_child_result(acc, caps)
}

fn child_replay(case: &Value) -> ! {
    hex_common::pin_mmap_threshold();
    let thorough = case["tier"].as_str() == Some("thorough");
    let seed = case["seed"].as_u64().unwrap_or(1);
    let env = Env::build(seed, thorough);
    let tier: &'static str = if thorough { "thorough" } else { "quick" };
    let d = D::by_name(case["decoder"].as_str().unwrap_or("")).unwrap_or_else(|| machinery_error("C16", "replay: unknown decoder"));
    let fxs = c16_gen::fixtures(&env, d);
    let fi = match case["fixture"].as_str() {
        Some(name) => fxs.iter().position(|f| f.name == name),
        None => case["fixture_index"].as_u64().map(|i| i as usize).filter(|i| *i < fxs.len()),
    }
    .unwrap_or_else(|| machinery_error("C16", "replay: unknown fixture"));
    let input = hex::decode(case["input_hex"].as_str().unwrap_or("")).unwrap_or_else(|_| machinery_error("C16", "replay: bad input_hex"));
    let mut acc = Acc::default();
    let r = Run { env: &env, tier, di: d.idx(), fi, fx: &fxs[fi] };
    let mutation = case["mutation"].as_str().unwrap_or("recorded input").to_string();
    let out = eval(&r, "replay", &|| mutation.clone(), &input, &mut acc);
    eprintln!("replay: decoder {} fixture {} -> {:?}", d.name(), fxs[fi].name, out);
    write_child_result(acc, vec![])
}

// ------------------------------------------------------------------ parent

struct ChildOutcome {
    result: Option<Value>,
    status: String,
    code: Option<i32>,
    fail_lines: Vec<String>,
    stderr_tail: String,
}

fn spawn_child(mode: &str, tier: Tier, seed: u64, extra_env: &[(&str, String)]) -> ChildOutcome {
    let exe = std::env::current_exe().unwrap_or_else(|e| machinery_error("C16", &format!("current_exe: {e}")));
    let tag = format!("{}-{}", std::process::id(), mode.replace(['/', ':'], "_"));
    let out_path = std::env::temp_dir().join(format!("lv-c16-{tag}.json"));
    let fail_path = std::env::temp_dir().join(format!("lv-c16-{tag}.fail"));
    let err_path = std::env::temp_dir().join(format!("lv-c16-{tag}.stderr"));
    let _ = std::fs::remove_file(&out_path);
    let _ = std::fs::remove_file(&fail_path);
    let errf = std::fs::File::create(&err_path).unwrap_or_else(|e| machinery_error("C16", &format!("temp file: {e}")));
    let mut cmd = std::process::Command::new(exe);
    cmd.arg(tier.as_str())
        .env("LV_C16_CHILD", mode)
        .env("LV_C16_OUT", &out_path)
        .env("LV_C16_FAIL", &fail_path)
        .env("VERIF_SEED", seed.to_string())
        .stdout(std::process::Stdio::null())
        .stderr(errf);
    for (k, v) in extra_env {
        cmd.env(k, v);
    }
    let status = cmd.status().unwrap_or_else(|e| machinery_error("C16", &format!("cannot spawn child: {e}")));
    let result = if status.success() { std::fs::read(&out_path).ok().and_then(|b| serde_json::from_slice::<Value>(&b).ok()) } else { None };
    let fail_lines: Vec<String> = std::fs::read_to_string(&fail_path).unwrap_or_default().lines().map(|s| s.to_string()).collect();
    let stderr = std::fs::read_to_string(&err_path).unwrap_or_default();
    let stderr_tail: String = stderr.lines().rev().take(12).collect::<Vec<_>>().into_iter().rev().collect::<Vec<_>>().join(" | ");
    let _ = std::fs::remove_file(&out_path);
    let _ = std::fs::remove_file(&fail_path);
    let _ = std::fs::remove_file(&err_path);
    ChildOutcome { result, status: format!("{status}"), code: status.code(), fail_lines, stderr_tail }
}

fn absorb(rep: &mut Report, stats: &mut BTreeMap<String, Stat>, family: &str, tier: Tier, seed: u64, o: ChildOutcome) {
    match &o.result {
        Some(v) => {
            if let Some(m) = v["stats"].as_object() {
                for (k, s) in m {
                    stats.entry(k.clone()).or_default().merge(&Stat::from_json(s));
                }
            }
            for s in v["samples"].as_array().cloned().unwrap_or_default() {
                rep.sample(|| s);
            }
            let mut viols: Vec<&Value> = v["violations"].as_array().map(|a| a.iter().collect()).unwrap_or_default();
            viols.sort_by_key(|x| x["size"].as_u64().unwrap_or(0));
            let pushed = viols.len() as u64;
            for x in viols {
                rep.violation(x["key"].as_str().unwrap_or("panic"), x["what"].as_str().unwrap_or("").to_string(), x["case"].clone());
            }
            rep.violation_count += v["violation_count"].as_u64().unwrap_or(0).saturating_sub(pushed);
            for c in v["caps"].as_array().cloned().unwrap_or_default() {
                rep.cap_hit(c.as_str().unwrap_or("cap"));
            }
        }
        None => {
            // the child's own machinery error (bad fixture, unwritable result) is ours, not lumina's
            if o.code == Some(2) || o.code == Some(0) {
                machinery_error("C16", &format!("subprocess of family {family} failed ({}): {}", o.status, o.stderr_tail));
            }
            // the child died: attribute it
            let refused: Vec<&String> = o.fail_lines.iter().filter(|l| l.starts_with("ALLOC-REFUSED ")).collect();
            let mut attributed = false;
            for l in refused {
                let parts: Vec<&str> = l.split(' ').collect();
                if parts.len() >= 5 {
                    if let (Ok(di), Ok(fi), Ok(size)) = (parts[1].parse::<usize>(), parts[2].parse::<usize>(), parts[3].parse::<u64>()) {
                        if let Some(d) = c16_dec::ALL.get(di) {
                            attributed = true;
                            rep.violation(
                                &format!("alloc-abort:{}", d.name()),
                                format!("decoder {} asked the allocator for {size} bytes under RLIMIT_AS={} and the process aborted ({})", d.name(), RLIMIT_AS_BYTES, o.status),
                                json!({"decoder": d.name(), "fixture_index": fi, "mutation": "input recorded by the allocator at the refused request", "input_hex": parts[4], "tier": tier.as_str(), "seed": seed}),
                            );
                        }
                    }
                }
            }
            if !attributed {
                rep.violation(
                    &format!("crash:{family}"),
                    format!("subprocess of decoder family {family} died ({}) without a result; stderr: {}; allocator log: {:?}", o.status, o.stderr_tail, o.fail_lines),
                    json!({"family": family, "tier": tier.as_str(), "seed": seed}),
                );
            }
        }
    }
}

fn main() {
    let ctx = Ctx::from_args("C16");
    if let Ok(mode) = std::env::var("LV_C16_CHILD") {
        // ---- child
        set_rlimit();
        open_fail_fd();
        let thorough = ctx.tier == Tier::Thorough;
        if let Some(path) = mode.strip_prefix("replay:") {
            let txt = std::fs::read_to_string(path).unwrap_or_else(|e| machinery_error("C16", &format!("replay file: {e}")));
            let v: Value = serde_json::from_str(&txt).unwrap_or_else(|e| machinery_error("C16", &format!("replay file: {e}")));
            child_replay(&v["case"]);
        }
        let budget = Duration::from_secs(std::env::var("LV_C16_BUDGET_S").ok().and_then(|s| s.parse().ok()).unwrap_or(600));
        child_family(&mode, thorough, ctx.seed, budget);
    }

    // ---- parent
    let mut rep = Report::new();
    rep.sample_cap = 12;
    let mut stats: BTreeMap<String, Stat> = BTreeMap::new();
    let mut families_run: Vec<String> = vec![];
    if let Some(case) = ctx.replay_case() {
        let tier = if case["tier"].as_str() == Some("thorough") { Tier::Thorough } else { Tier::Quick };
        let seed = case["seed"].as_u64().unwrap_or(ctx.seed);
        if case.get("decoder").is_some() {
            let d = D::by_name(case["decoder"].as_str().unwrap_or("")).unwrap_or_else(|| machinery_error("C16", "replay: unknown decoder"));
            let path = ctx.replay.as_ref().unwrap().display().to_string();
            let o = spawn_child(&format!("replay:{path}"), tier, seed, &[]);
            // an abort during the replay is attributed by the allocator log as in a full run
            absorb(&mut rep, &mut stats, d.family(), tier, seed, o);
        } else {
            let family = case["family"].as_str().unwrap_or_else(|| machinery_error("C16", "replay: neither decoder nor family")).to_string();
            let o = spawn_child(&family, tier, seed, &[("LV_C16_BUDGET_S", "900".into())]);
            absorb(&mut rep, &mut stats, &family, tier, seed, o);
        }
    } else {
        // Wall-clock safety caps only (the workload is sized in CPU time: about 5 CPU-minutes
        // quick, 2 CPU-hours thorough); they are far above the expected wall time so that a
        // loaded machine does not turn into skipped chunks, and shared by the families.
        let total = std::env::var("LV_C16_TOTAL_S").ok().and_then(|s| s.parse().ok()).unwrap_or(ctx.tier.pick(600.0, 5400.0));
        for (i, family) in c16_dec::FAMILIES.iter().enumerate() {
            let left = (total - ctx.elapsed_s()).max(3.0);
            // a family may use what is left minus a reserve for the ones after it
            let reserve = (c16_dec::FAMILIES.len() - 1 - i) as f64 * ctx.tier.pick(4.0, 60.0);
            let budget = (left - reserve).max(3.0);
            let t0 = ctx.elapsed_s();
            let o = spawn_child(family, ctx.tier, ctx.seed, &[("LV_C16_BUDGET_S", format!("{}", budget as u64))]);
            eprintln!("C16: family {family} finished in {:.1}s ({})", ctx.elapsed_s() - t0, o.status);
            absorb(&mut rep, &mut stats, family, ctx.tier, ctx.seed, o);
            families_run.push(family.to_string());
        }
    }

    // classes: per decoder ok / err:<stage> / panic
    let mut total = 0u64;
    let mut honest = 0u64;
    for (name, st) in &stats {
        total += st.cases;
        honest += st.by_kind.get("honest").copied().unwrap_or(0);
        if st.ok > 0 {
            rep.classes.insert(format!("{name}/ok"), st.ok);
        }
        for (stage, n) in &st.err {
            rep.classes.insert(format!("{name}/err:{stage}"), *n);
        }
        if st.panics > 0 {
            rep.classes.insert(format!("{name}/panic"), st.panics);
        }
    }
    rep.evaluations = total;
    rep.extra("distinct_by_construction", json!(total));
    rep.extra("distinct_nontrivial_by_construction", json!(total - honest));
    rep.extra("decoders", json!(stats.iter().map(|(k, v)| (k.clone(), v.to_json())).collect::<BTreeMap<_, _>>()));
    rep.extra("families", json!(families_run));
    rep.extra("rlimit_as_bytes", json!(RLIMIT_AS_BYTES));
    rep.extra("alloc_case_cap_bytes", json!(ALLOC_CASE_CAP));

    let required: Vec<String> = c16_dec::ALL.iter().flat_map(|d| [format!("{}/ok", d.name()), format!("{}/err*", d.name())]).collect();
    let required_refs: Vec<&str> = required.iter().map(|s| s.as_str()).collect();
    finish(
        &ctx,
        rep,
        Spec {
            rule: RULE,
            assumptions: &[
                "byte values outside {0x00,0xff,^0x01,^0x80} are only tried at every position of the small fixed-size inputs; at most two simultaneous structured mutations",
                "the context a decoder is given (request id, DAH, header, header store) is honest; only the bytes a peer controls are adversarial",
                "allocation: per case live heap above 1 GiB or an allocator refusal under RLIMIT_AS = 4 GiB is a violation; smaller over-allocation is not judged",
                "stack exhaustion and non-termination are only detected as a crashed / timed-out subprocess, not attributed to a case",
            ],
            required_classes: &required_refs,
            exhaustive: true,
        },
    );
}
