//! C23 — Redb schema migration preserves stored ranges.   (engine E1)
//!
//! Databases are written by the harness directly with `redb`, using the historical table
//! definitions reconstructed from the migration code of `redb_store.rs`:
//!
//! * v1: table `STORE.HEIGHT_RANGES : u64 -> (u64,u64)` (index -> inclusive range), no
//!   `STORE.RANGES` table, no sampled ranges;
//! * v1+sampled: the same plus a `STORE.RANGES` table holding sampled ranges under the pre-v3
//!   key `KEY.ACCEPTED_SAMPING_RANGES` (the chain v1 -> v2 -> v3 is agnostic about where the
//!   sampled ranges come from and must carry them over);
//! * v2: table `STORE.RANGES : &str -> Vec<(u64,u64)>` with `KEY.HEADER_RANGES` and the v2
//!   sampled key `KEY.ACCEPTED_SAMPING_RANGES`;
//! * v3 (current) and the unknown future versions 4, 5: `STORE.RANGES` with
//!   `KEY.HEADER_RANGES` / `KEY.SAMPLED_RANGES`;
//! * "absent": current layout without a `STORE.SCHEMA_VERSION` entry.
//!
//! Space: every subset of heights 1..=N as stored ranges x every subset as sampled ranges
//! (v1: stored only) x schema version in {absent,1,2,3,4,5} x layout in {bare, all tables
//! pre-created with an identity}.  Oracle (from the statement): versions <= 3 (and absent)
//! open, report exactly the written ranges, and re-opening reports the same again; versions
//! > 3 are refused with `OpenFailed` and the database is not modified.
#[path = "../shared/redb_backend.rs"]
mod redb_backend;

use lumina_node::store::{RedbStore, Store, StoreError};
use lv_core::*;
use redb::{ReadableTable, ReadableTableMetadata, TableDefinition, TableHandle};
use redb_backend::*;
use serde_json::{Value, json};
use std::collections::BTreeMap;
use std::sync::Arc;

const SCHEMA_VERSION_TABLE: TableDefinition<'static, (), u64> = TableDefinition::new("STORE.SCHEMA_VERSION");
const V1_HEIGHT_RANGES: TableDefinition<'static, u64, (u64, u64)> = TableDefinition::new("STORE.HEIGHT_RANGES");
const RANGES_TABLE: TableDefinition<'static, &str, Vec<(u64, u64)>> = TableDefinition::new("STORE.RANGES");
const HEIGHTS_TABLE: TableDefinition<'static, &[u8], u64> = TableDefinition::new("STORE.HEIGHTS");
const HEADERS_TABLE: TableDefinition<'static, u64, &[u8]> = TableDefinition::new("STORE.HEADERS");
const SAMPLING_METADATA_TABLE: TableDefinition<'static, u64, &[u8]> = TableDefinition::new("STORE.SAMPLING_METADATA");
const IDENTITY_TABLE: TableDefinition<'static, (), &[u8]> = TableDefinition::new("LIBP2P.IDENTITY");

const HEADER_RANGES_KEY: &str = "KEY.HEADER_RANGES";
const SAMPLED_RANGES_KEY_V3: &str = "KEY.SAMPLED_RANGES";
const SAMPLED_RANGES_KEY_V2: &str = "KEY.ACCEPTED_SAMPING_RANGES";
const CURRENT: u64 = 3;

thread_local! {
    static RT: tokio::runtime::Runtime = tokio::runtime::Builder::new_current_thread()
        .max_blocking_threads(2)
        .build()
        .unwrap();
}
fn block_on<T>(f: impl std::future::Future<Output = T>) -> T {
    RT.with(|rt| rt.block_on(f))
}

fn runs_of(mask: u32, n: u32) -> Vec<(u64, u64)> {
    let mut out: Vec<(u64, u64)> = vec![];
    for i in 0..n {
        if mask >> i & 1 == 1 {
            let h = i as u64 + 1;
            match out.last_mut() {
                Some(l) if l.1 + 1 == h => l.1 = h,
                _ => out.push((h, h)),
            }
        }
    }
    out
}

#[derive(Clone, Copy, Debug, PartialEq, Eq, serde::Serialize, serde::Deserialize)]
struct Case {
    n: u32,
    /// 0 = no schema version entry
    version: u64,
    stored: u32,
    sampled: u32,
    /// all current tables pre-created and an identity present (as a database that was really
    /// used by that version would have)
    full: bool,
    /// only for version 1: the database additionally holds a `STORE.RANGES` table with the
    /// sampled ranges under the pre-v3 key (the migration chain v1 -> v2 -> v3 must carry
    /// them over like those of a v2 database)
    #[serde(default)]
    v1_sampled: bool,
}

/// A fixed, valid libp2p ed25519 keypair (protobuf encoding) for the `full` layout.
fn identity_bytes() -> Vec<u8> {
    // KeyType = Ed25519 (1), Data = 64 bytes (secret || public) — generated once below
    static ID: std::sync::OnceLock<Vec<u8>> = std::sync::OnceLock::new();
    ID.get_or_init(|| {
        // obtain a real encoding from a scratch store
        let db = redb::Database::builder()
            .create_with_backend(LoggingBackend::new())
            .unwrap();
        let db = Arc::new(db);
        block_on(async {
            let s = RedbStore::new(db.clone()).await.unwrap();
            s.close().await.unwrap();
        });
        let tx = db.begin_read().unwrap();
        let t = tx.open_table(IDENTITY_TABLE).unwrap();
        let v = t.get(()).unwrap().unwrap().value().to_vec();
        v
    })
    .clone()
}

/// An empty database created by redb and closed cleanly (creating the allocator state of a
/// fresh file is by far the most expensive step, so it is done once).
fn template() -> Vec<u8> {
    static T: std::sync::OnceLock<Vec<u8>> = std::sync::OnceLock::new();
    T.get_or_init(|| {
        let be = LoggingBackend::new();
        let db = redb::Database::builder().create_with_backend(be.clone()).expect("create");
        drop(db);
        be.image()
    })
    .clone()
}

/// Writes the database of `case` with plain redb and closes it cleanly.
fn write_db(c: &Case) -> LoggingBackend {
    let be = LoggingBackend::from_image(template(), false);
    let db = redb::Database::builder().create_with_backend(be.clone()).expect("create");
    let tx = db.begin_write().expect("begin_write");
    {
        if c.version != 0 {
            let mut t = tx.open_table(SCHEMA_VERSION_TABLE).unwrap();
            t.insert((), c.version).unwrap();
        }
        let stored = runs_of(c.stored, c.n);
        let sampled = runs_of(c.sampled, c.n);
        if c.version == 1 {
            let mut t = tx.open_table(V1_HEIGHT_RANGES).unwrap();
            for (i, r) in stored.iter().enumerate() {
                t.insert(i as u64, *r).unwrap();
            }
            if c.v1_sampled {
                let mut t = tx.open_table(RANGES_TABLE).unwrap();
                t.insert(SAMPLED_RANGES_KEY_V2, sampled).unwrap();
            }
        } else {
            let mut t = tx.open_table(RANGES_TABLE).unwrap();
            t.insert(HEADER_RANGES_KEY, stored).unwrap();
            let key = if c.version == 2 { SAMPLED_RANGES_KEY_V2 } else { SAMPLED_RANGES_KEY_V3 };
            t.insert(key, sampled).unwrap();
        }
        if c.full {
            tx.open_table(HEIGHTS_TABLE).unwrap();
            tx.open_table(HEADERS_TABLE).unwrap();
            tx.open_table(SAMPLING_METADATA_TABLE).unwrap();
            let mut t = tx.open_table(IDENTITY_TABLE).unwrap();
            t.insert((), &identity_bytes()[..]).unwrap();
        }
    }
    tx.commit().expect("commit");
    drop(db);
    be
}

/// Logical content of an image: every table name with its entries (for the known table
/// types) — read from a private copy, so that looking does not disturb the original.
fn dump(image: &[u8]) -> Result<BTreeMap<String, Vec<String>>, String> {
    let be = LoggingBackend::from_image(image.to_vec(), false);
    let db = redb::Database::builder().create_with_backend(be).map_err(|e| e.to_string())?;
    let tx = db.begin_read().map_err(|e| e.to_string())?;
    let mut out = BTreeMap::new();
    let names: Vec<String> = tx
        .list_tables()
        .map_err(|e| e.to_string())?
        .map(|h| h.name().to_string())
        .collect();
    for name in names {
        let rows: Vec<String> = match name.as_str() {
            "STORE.SCHEMA_VERSION" => {
                let t = tx.open_table(SCHEMA_VERSION_TABLE).map_err(|e| e.to_string())?;
                t.iter().unwrap().map(|e| format!("{:?}", e.unwrap().1.value())).collect()
            }
            "STORE.HEIGHT_RANGES" => {
                let t = tx.open_table(V1_HEIGHT_RANGES).map_err(|e| e.to_string())?;
                t.iter().unwrap().map(|e| { let e = e.unwrap(); format!("{}={:?}", e.0.value(), e.1.value()) }).collect()
            }
            "STORE.RANGES" => {
                let t = tx.open_table(RANGES_TABLE).map_err(|e| e.to_string())?;
                t.iter().unwrap().map(|e| { let e = e.unwrap(); format!("{}={:?}", e.0.value(), e.1.value()) }).collect()
            }
            "STORE.HEIGHTS" => {
                let t = tx.open_table(HEIGHTS_TABLE).map_err(|e| e.to_string())?;
                vec![format!("len={}", t.len().unwrap())]
            }
            "STORE.HEADERS" => {
                let t = tx.open_table(HEADERS_TABLE).map_err(|e| e.to_string())?;
                vec![format!("len={}", t.len().unwrap())]
            }
            "STORE.SAMPLING_METADATA" => {
                let t = tx.open_table(SAMPLING_METADATA_TABLE).map_err(|e| e.to_string())?;
                vec![format!("len={}", t.len().unwrap())]
            }
            "LIBP2P.IDENTITY" => {
                let t = tx.open_table(IDENTITY_TABLE).map_err(|e| e.to_string())?;
                t.iter().unwrap().map(|e| hex::encode(e.unwrap().1.value())).collect()
            }
            _ => vec!["<unknown table>".into()],
        };
        out.insert(name, rows);
    }
    Ok(out)
}

fn ranges_v(r: Result<lumina_node::block_ranges::BlockRanges, StoreError>) -> Result<Vec<(u64, u64)>, String> {
    r.map(|b| b.as_ref().iter().map(|r| (*r.start(), *r.end())).collect())
        .map_err(|e| format!("{e}"))
}

/// Opens the store on (a handle of) `be`; returns Ok((stored, sampled)) or Err((kind, msg)).
fn open_and_read(be: &LoggingBackend) -> Result<(Vec<(u64, u64)>, Vec<(u64, u64)>), (String, String)> {
    let db = redb::Database::builder()
        .create_with_backend(be.clone())
        .map_err(|e| ("redb-open".to_string(), e.to_string()))?;
    block_on(async {
        match RedbStore::new(Arc::new(db)).await {
            Ok(s) => {
                let st = ranges_v(s.get_stored_header_ranges().await).map_err(|e| ("read".to_string(), e))?;
                let sa = ranges_v(s.get_sampled_ranges().await).map_err(|e| ("read".to_string(), e))?;
                s.close().await.map_err(|e| ("close".to_string(), e.to_string()))?;
                Ok((st, sa))
            }
            Err(StoreError::OpenFailed(m)) => Err(("OpenFailed".into(), m)),
            Err(e) => Err(("other-error".into(), e.to_string())),
        }
    })
}

fn eval(c: &Case, rep: &mut Report) {
    let case = serde_json::to_value(c).unwrap();
    let key = fnv64(case.to_string().as_bytes());
    let want_stored = runs_of(c.stored, c.n);
    let want_sampled = if c.version == 1 && !c.v1_sampled { vec![] } else { runs_of(c.sampled, c.n) };
    let nontrivial = c.stored != 0 || c.sampled != 0;
    let vname = if c.version == 0 {
        "absent".to_string()
    } else if c.v1_sampled {
        "v1+sampled".to_string()
    } else {
        format!("v{}", c.version)
    };

    let be = write_db(c);
    let before = be.image();

    let first = guard(|| open_and_read(&be));
    let first = match first {
        Err(p) => {
            rep.case(key, &format!("{vname}:panic"), nontrivial);
            let k = if c.version > CURRENT { "newer-version-not-refused" } else { "panic-on-open" };
            rep.violation(k, format!("opening a {vname} database panicked: {p}"), case);
            return;
        }
        Ok(r) => r,
    };

    if c.version > CURRENT {
        match first {
            Err((kind, _)) if kind == "OpenFailed" => {
                let after = be.image();
                let identical = after == before;
                let before_dump = dump(&before);
                let after_dump = dump(&after);
                let class = if identical { "refused:byte-identical" } else { "refused:bytes-differ-content-identical" };
                rep.case(key, &format!("{vname}:{class}"), nontrivial);
                if before_dump != after_dump {
                    rep.violation(
                        "refused-database-modified",
                        format!("{vname} database refused but its content changed: before {before_dump:?} after {after_dump:?}"),
                        case,
                    );
                } else if !identical {
                    rep.violation(
                        "refused-database-bytes-changed",
                        format!("{vname} database refused, tables unchanged, but the backend image is not byte-identical ({} -> {} bytes)", before.len(), after.len()),
                        case,
                    );
                }
            }
            Err((kind, msg)) => {
                rep.case(key, &format!("{vname}:refused-with-{kind}"), nontrivial);
                rep.violation("newer-version-wrong-error", format!("{vname}: expected OpenFailed, got {kind}: {msg}"), case);
            }
            Ok(got) => {
                rep.case(key, &format!("{vname}:opened"), nontrivial);
                rep.violation("newer-version-not-refused", format!("{vname} database was opened: {got:?}"), case);
            }
        }
        return;
    }

    match first {
        Err((kind, msg)) => {
            rep.case(key, &format!("{vname}:open-failed"), nontrivial);
            rep.violation("older-version-refused", format!("{vname} database failed to open ({kind}): {msg}"), case);
        }
        Ok((st, sa)) => {
            let mut bad = false;
            if st != want_stored {
                bad = true;
                rep.violation("stored-ranges-changed", format!("{vname}: stored ranges written {want_stored:?}, reported {st:?}"), case.clone());
            }
            if sa != want_sampled {
                bad = true;
                rep.violation("sampled-ranges-changed", format!("{vname}: sampled ranges written {want_sampled:?}, reported {sa:?}"), case.clone());
            }
            // idempotence: reopen the migrated database
            match guard(|| open_and_read(&be)) {
                Ok(Ok(second)) => {
                    if second != (st.clone(), sa.clone()) {
                        bad = true;
                        rep.violation("reopen-not-idempotent", format!("{vname}: first open {:?}, second open {second:?}", (st, sa)), case.clone());
                    }
                }
                Ok(Err((kind, msg))) => {
                    bad = true;
                    rep.violation("reopen-not-idempotent", format!("{vname}: second open failed ({kind}): {msg}"), case.clone());
                }
                Err(p) => {
                    bad = true;
                    rep.violation("reopen-not-idempotent", format!("{vname}: second open panicked: {p}"), case.clone());
                }
            }
            // after migration the database must carry the current version
            let after_dump = dump(&be.image()).unwrap_or_default();
            let ver = after_dump.get("STORE.SCHEMA_VERSION").cloned().unwrap_or_default();
            if ver != vec![CURRENT.to_string()] {
                bad = true;
                rep.violation("version-not-current-after-open", format!("{vname}: schema version after open is {ver:?}"), case.clone());
            }
            rep.case(key, &format!("{vname}:{}", if bad { "opened-wrong" } else { "opened-preserved" }), nontrivial);
            if rep.wants_sample() && c.stored % 23 == 5 && c.sampled % 7 == 3 {
                rep.sample(|| json!({"case": case, "written_stored": want_stored, "written_sampled": want_sampled,
                                    "tables_before": dump(&before).unwrap_or_default(), "tables_after": after_dump}));
            }
        }
    }
}

fn main() {
    tune_malloc();
    let ctx = Ctx::from_args("C23");
    let n: u32 = std::env::var("C23_N").ok().and_then(|s| s.parse().ok()).unwrap_or(ctx.tier.pick(6, 7));
    let rep = if let Some(c) = ctx.replay_case() {
        let c: Case = serde_json::from_value(c).unwrap();
        let mut rep = Report::new();
        eval(&c, &mut rep);
        rep
    } else {
        let _ = identity_bytes();
        let _ = template();
        let mut cases: Vec<Case> = vec![];
        for full in [false, true] {
            for (version, v1_sampled) in [(3u64, false), (2, false), (1, false), (1, true), (0, false), (4, false), (5, false)] {
                // quick: the pre-populated layout only for the versions that are migrated or
                // current (1, 1+sampled, 2, 3); thorough: for every version
                if full && ctx.quick() && matches!(version, 0 | 4 | 5) {
                    continue;
                }
                for stored in 0..(1u32 << n) {
                    let sampled_space = if version == 1 && !v1_sampled { 1 } else { 1u32 << n };
                    for sampled in 0..sampled_space {
                        cases.push(Case { n, version, stored, sampled, full, v1_sampled });
                    }
                }
            }
        }
        // simplest first: fewer heights involved first
        cases.sort_by_key(|c| (c.stored.count_ones() + c.sampled.count_ones(), c.full, c.stored, c.sampled));
        par_cases(cases, |c, rep| eval(&c, rep))
    };
    finish(
        &ctx,
        rep,
        Spec {
            rule: "databases written with plain redb using the historical table definitions: every subset of heights 1..=N (N=6 quick, 7 thorough) as stored ranges x every subset as sampled ranges x schema version in {absent,1,1+sampled,2,3,4,5} (plain v1 has no sampled ranges: stored subsets only; '1+sampled' = v1 height-ranges table plus a STORE.RANGES table with the sampled ranges under the pre-v3 key) x layout {bare, all tables + identity (quick: the second layout only for versions 1, 1+sampled, 2, 3)}; each opened twice with the real RedbStore::new over a cloneable backend; distinct = (N, version variant, stored, sampled, layout); non-trivial = some range is non-empty",
            assumptions: &[
                "v1 layout reconstructed from migrate_v1_to_v2: STORE.HEIGHT_RANGES : u64 index -> (start,end), ascending, no sampled ranges; v2 from migrate_v2_to_v3: STORE.RANGES with KEY.HEADER_RANGES and KEY.ACCEPTED_SAMPING_RANGES",
                "'absent' = current layout without a schema version entry (what the store treats as a new database)",
                "'without modification' = every table and entry unchanged, and additionally the backend image byte-identical",
            ],
            required_classes: &["v1:opened-preserved", "v1+sampled:opened-preserved", "v2:opened-preserved", "v3:opened-preserved", "absent:opened-preserved", "v4:refused*", "v5:refused*"],
            exhaustive: true,
        },
    );
}

#[allow(dead_code)]
fn _unused(_: Value) {}
