//! C20 — Failed store operations leave the store unchanged.   (engine E2)
//!
//! Thin main: the search, the reference model and the three oracles live in
//! `../shared/store_model.rs` (one explicit-state search serving C19, C20 and C21); this
//! binary reports the violations of the C20 oracle and writes its own evidence.
#[path = "../shared/store_model.rs"]
mod store_model;

fn main() {
    store_model::run("C20", store_model::Which::C20);
}
