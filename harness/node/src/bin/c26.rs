//! C26 — A header session returns exactly the requested range.   (engine E3)
//!
//! System: the real `HeaderSession::new(range, cmd_tx).run()` as a task on a paused
//! current-thread runtime, the harness holding the command receiver.
//! Environment choices per event: which outstanding request to answer (every one, oldest
//! first) x answer in {full, prefix of length 1, n-1, ceil(n/2), empty prefix,
//! HeaderEx(HeaderNotFound), HeaderEx(InvalidResponse)}.  Choice 0 = oldest request, full.
//! Oracle (from the statement, independent of the batching constants of the code):
//!  * every request: by origin height, 1 <= amount <= 64, inside the range, disjoint from
//!    the heights already delivered and from the other outstanding requests;
//!  * on completion: Ok(exactly the range, ascending, each height once, the chain's headers);
//!  * termination: once the answers are all full (after the last deviation) the session
//!    completes within `len` further events (each full answer delivers >= 1 new height).
use lumina_node::node::{HeaderExError, P2pError};
use lumina_node::verif::mock_p2p::VP2p;
use lumina_node::verif::session;
use lv_core::*;
use rayon::prelude::*;
use serde_json::{Value, json};
use std::collections::BTreeSet;
use std::time::{Duration, Instant};

#[path = "../shared/session_sys.rs"]
mod session_sys;
use session_sys::*;

#[derive(Clone, Copy, Debug, PartialEq)]
enum Ans {
    Prefix(u64),
    NotFound,
    InvalidResponse,
}

/// The answer menu for a request of `n` headers; entry 0 is the full answer.
fn menu_for(n: u64) -> Vec<Ans> {
    let mut m = vec![Ans::Prefix(n)];
    for k in [1, n.saturating_sub(1), n.div_ceil(2)] {
        if k >= 1 && k < n && !m.contains(&Ans::Prefix(k)) {
            m.push(Ans::Prefix(k));
        }
    }
    m.push(Ans::Prefix(0));
    m.push(Ans::NotFound);
    m.push(Ans::InvalidResponse);
    m
}

struct Outcome {
    class: String,
    obs: u64,
    viols: Vec<(String, String)>,
    events: u64,
}

fn run_exec(chain: &Chain, a: u64, b: u64, prefix: &[u32], keep: bool) -> Exec {
    let mut ch = Chooser::new(prefix, keep);
    let len = b - a + 1;
    let res = on_paused_runtime(async {
        let mut vp = VP2p::new();
        let handle = tokio::spawn(session::run_header_session(&vp, a..=b));
        let mut out: Vec<Pending> = vec![];
        let mut received: BTreeSet<u64> = BTreeSet::new();
        let mut viols: Vec<(String, String)> = vec![];
        let mut obs = Obs::new();
        let mut events = 0u64;
        let mut after_prefix = 0u64;
        let mut seq = 0u64;
        let mut tags: BTreeSet<&'static str> = BTreeSet::new();
        let mut aborted = false;
        loop {
            let d = settle_and_drain(&mut vp, &mut seq).await;
            for u in d.unexpected {
                viols.push(viol("unexpected-command", format!("the session sent a command other than a header-ex request: {u}")));
            }
            for p in d.new {
                obs.add(&format!("req {:?}+{}", p.origin, p.amount));
                let what = format!("request #{} origin {:?} amount {} (range {a}..={b})", p.seq, p.origin, p.amount);
                match p.origin {
                    None => viols.push(viol("request-not-by-height", format!("{what}: not an origin-height request"))),
                    Some(o) => {
                        if p.amount == 0 {
                            viols.push(viol("request-empty", format!("{what}: empty request")));
                        } else if p.amount > 64 {
                            viols.push(viol("request-over-64", format!("{what}: more than 64 headers")));
                        } else {
                            match o.checked_add(p.amount - 1) {
                                Some(e) if o >= a && e <= b => {
                                    if let Some(h) = (o..=e).find(|h| received.contains(h)) {
                                        viols.push(viol("request-of-received-height", format!("{what}: height {h} was already received")));
                                    }
                                    for q in &out {
                                        let (qo, qe) = (q.origin.unwrap(), q.origin.unwrap() + q.amount - 1);
                                        if o <= qe && qo <= e {
                                            viols.push(viol(
                                                "request-overlaps-outstanding",
                                                format!("{what}: overlaps outstanding request #{} {qo}..={qe}", q.seq),
                                            ));
                                        }
                                    }
                                }
                                _ => viols.push(viol("request-outside-range", format!("{what}: not inside the range"))),
                            }
                        }
                    }
                }
                out.push(p);
            }
            if !viols.is_empty() {
                aborted = true;
                break;
            }
            if handle.is_finished() {
                break;
            }
            if out.is_empty() {
                viols.push(viol(
                    "stalled-without-request",
                    format!("session for {a}..={b} neither completed nor has an outstanding request after {events} answers; received {} heights", received.len()),
                ));
                aborted = true;
                break;
            }
            if after_prefix > len {
                viols.push(viol(
                    "no-termination",
                    format!("session for {a}..={b} did not complete after {after_prefix} consecutive full answers (> range length {len})"),
                ));
                aborted = true;
                break;
            }
            // ---- environment choice
            let menus: Vec<Vec<Ans>> = out.iter().map(|p| menu_for(p.amount)).collect();
            let total: usize = menus.iter().map(|m| m.len()).sum();
            let was_default_zone = !ch.in_prefix();
            let c = ch.choose(total, || {
                out.iter()
                    .zip(&menus)
                    .map(|(p, m)| format!("#{}@{}+{}:{}", p.seq, p.origin.unwrap(), p.amount, m.len()))
                    .collect::<Vec<_>>()
                    .join(" ")
            });
            let (mut idx, mut k) = (0usize, c);
            while k >= menus[idx].len() {
                k -= menus[idx].len();
                idx += 1;
            }
            let ans = menus[idx][k];
            let p = out.remove(idx);
            let o = p.origin.unwrap();
            if idx > 0 {
                tags.insert("reorder");
            }
            obs.add(&format!("ans #{} {:?}", p.seq, ans));
            let payload: SessResult = match ans {
                Ans::Prefix(n) => {
                    if n == 0 {
                        tags.insert("empty");
                    } else if n < p.amount {
                        tags.insert("prefix");
                    }
                    received.extend(o..o + n);
                    Ok(chain.span(o, n))
                }
                Ans::NotFound => {
                    tags.insert("error");
                    Err(P2pError::HeaderEx(HeaderExError::HeaderNotFound))
                }
                Ans::InvalidResponse => {
                    tags.insert("error");
                    Err(P2pError::HeaderEx(HeaderExError::InvalidResponse))
                }
            };
            if p.respond_to.send(payload).is_err() {
                obs.add("receiver-gone");
            }
            events += 1;
            if was_default_zone {
                after_prefix += 1;
            }
        }
        let mut class = String::from("aborted");
        if !aborted {
            match handle.await {
                Err(e) => {
                    let msg = take_last_panic().unwrap_or_else(|| e.to_string());
                    viols.push(viol("panic", format!("session task for {a}..={b} panicked: {msg}")));
                    class = "panic".into();
                }
                Ok(Err(e)) => {
                    viols.push(viol(
                        "session-failed",
                        format!("session for {a}..={b} completed with error {e} although every answer was a prefix or a header-ex error"),
                    ));
                    class = format!("failed:{}", err_class(&e));
                }
                Ok(Ok(v)) => {
                    let got = heights(&v);
                    let want: Vec<u64> = (a..=b).collect();
                    obs.add(&format!("ok {}", got.len()));
                    if got != want {
                        let key = if got.len() != want.len() || got.iter().collect::<BTreeSet<_>>().len() != got.len() {
                            "result-wrong-heights"
                        } else if got.iter().collect::<BTreeSet<_>>() == want.iter().collect::<BTreeSet<_>>() {
                            "result-not-ascending"
                        } else {
                            "result-wrong-heights"
                        };
                        viols.push(viol(key, format!("range {a}..={b}: result heights {}", show_heights(&got))));
                    } else if let Some(h) = v.iter().find(|h| chain.get(h.height()) != Some(h)) {
                        viols.push(viol("result-header-altered", format!("range {a}..={b}: header at height {} differs from the one served", h.height())));
                    }
                    if !out.is_empty() {
                        obs.add("left-outstanding");
                    }
                    class = "completed".into();
                    for t in &tags {
                        class.push('+');
                        class.push_str(t);
                    }
                }
            }
        } else {
            handle.abort();
        }
        Outcome { class, obs: obs.0, viols, events }
    });
    match res {
        Ok(o) => Exec::from_chooser(ch, o.class, o.obs, o.viols, o.events),
        Err(p) => {
            let mut x = Exec::from_chooser(ch, "driver-panic", 0, vec![], 0);
            x.diverged = Some(format!("harness driver panicked: {p}"));
            x
        }
    }
}

fn main() {
    let ctx = Ctx::from_args("C26");
    let big: [u64; 9] = [63, 64, 65, 128, 129, 511, 512, 513, 2000];
    let small_max: u64 = ctx.tier.pick(24, 80);
    let small_bound: usize = ctx.tier.pick(2, 3);
    let chain = Chain::generate(2100);

    let mut rep = Report::new();
    if let Some(c) = ctx.replay_case() {
        let a = c["range"][0].as_u64().expect("range[0]");
        let b = c["range"][1].as_u64().expect("range[1]");
        let choices: Vec<u32> = serde_json::from_value(c["choices"].clone()).expect("choices");
        let x = run_exec(&chain, a, b, &choices, true);
        if let Some(d) = &x.diverged {
            machinery_error(&ctx.id, d);
        }
        rep.case(fnv64(format!("{a}/{b}/{choices:?}").as_bytes()), &x.class, true);
        rep.transitions += x.events;
        for (k, what) in x.violations {
            rep.violation(&k, what, json!({"range": [a, b], "choices": x.taken, "labels": x.labels}));
        }
    } else {
        // jobs, simplest first
        let mut jobs: Vec<(u64, u64, usize)> = vec![];
        for len in 1..=small_max {
            for off in [1u64, 1000] {
                // thorough: 3 deviations up to length 40 (<= 5 concurrent requests), 2 above
                // (a 3-deviation sweep of 8 concurrent requests is ~3.5e6 executions per range)
                let bound = if len > 40 { small_bound.min(2) } else { small_bound };
                jobs.push((off, off + len - 1, bound));
            }
        }
        for len in big {
            jobs.push((1, len, 1));
        }
        let deadline = Instant::now() + Duration::from_secs(ctx.tier.pick(50, 840));
        let results: Vec<(Report, Option<String>, Value)> = jobs
            .par_iter()
            .map(|&(a, b, bound)| {
                let mut r = Report::new();
                r.sample_cap = 1;
                let cfg = DevConfig {
                    bound,
                    wall_cap: deadline.saturating_duration_since(Instant::now()),
                    max_execs: u64::MAX,
                    max_deviation_pos: 0,
                };
                let err = explore_deviations(&cfg, |p, k| run_exec(&chain, a, b, p, k), &mut r).err();
                for v in r.violations.iter_mut() {
                    v.case["range"] = json!([a, b]);
                }
                for s in r.samples.iter_mut() {
                    s["range"] = json!([a, b]);
                }
                let info = json!({"range": [a, b], "bound": bound, "executions": r.evaluations,
                    "by_deviations": r.extras.get("executions_by_deviations").cloned().unwrap_or(Value::Null)});
                (r, err, info)
            })
            .collect();
        let mut infos = vec![];
        for (r, err, info) in results {
            if let Some(e) = err {
                machinery_error(&ctx.id, &e);
            }
            infos.push(info);
            rep.merge_in(r);
        }
        rep.sample_cap = 6;
        // keep samples spread over the job list
        if rep.samples.len() > 6 {
            let n = rep.samples.len();
            let keep: Vec<Value> = (0..6).map(|i| rep.samples[i * (n - 1) / 5].clone()).collect();
            rep.samples = keep;
        }
        rep.extras.remove("executions_by_deviations");
        rep.extras.remove("deviation_bound");
        rep.extras.remove("distinct_observation_traces");
        rep.extra("jobs", json!(infos));
        rep.extra("distinct_nontrivial_by_construction", json!(rep.evaluations));
    }
    finish(
        &ctx,
        rep,
        Spec {
            rule: "E3 envdfs on the real HeaderSession: ranges of length 1..24 at first heights {1,1000} with every choice sequence of <= 2 non-default choices (quick) / lengths 1..40 with <= 3 and 41..80 with <= 2 non-default choices (thorough), and lengths {63,64,65,128,129,511,512,513,2000} at first height 1 with <= 1 non-default choice; a choice point = (which outstanding request, oldest first) x (full | prefix 1 | prefix n-1 | prefix ceil(n/2) | empty prefix | HeaderNotFound | InvalidResponse), choice 0 = oldest+full; each execution (= evaluation, distinct by its choice sequence; all count as non-trivial) runs to completion; states = distinct observation traces per range; transitions = environment answers",
            assumptions: &[
                "VERIF_SEED is unused: header contents come from ExtendedHeaderGenerator (random keys) and the property depends on heights only",
                "responses are prefixes of the request or header-ex errors (HeaderNotFound, InvalidResponse stand for every HeaderExError variant: the session matches on P2pError::HeaderEx(_) only)",
                "termination is checked for schedules whose answers are full after the last deviation (bound: range length further events)",
                "a session that returns Err although only prefixes / header-ex errors were injected counts as not returning the range",
            ],
            required_classes: &["completed", "completed+*"],
            exhaustive: true,
        },
    );
}
