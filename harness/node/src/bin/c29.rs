//! C29 — Header-ex server answers every request correctly without crashing.   (engine E1)
//!
//! Code under test: the real `HeaderExServerHandler` (node/src/p2p/header_ex/server.rs) over
//! real `InMemoryStore`s, driven through `lumina_node::verif::header_ex::VServer` (the handler
//! plus a `ResponseSender` that records every batch it is asked to send).
//!
//! Space: 20 gap patterns over heights 1..=8 (+ one store 1..=520 for the 512 cap) x every
//! request of the product origin x amount below, hash requests and requests without data.
//! Oracle from the statement over a BTreeMap model of the store.
use celestia_proto::p2p::pb::header_request::Data;
use celestia_proto::p2p::pb::{HeaderRequest, HeaderResponse};
use celestia_types::ExtendedHeader;
use celestia_types::test_utils::ExtendedHeaderGenerator;
use lumina_node::store::{InMemoryStore, Store};
use lumina_node::verif::header_ex::VServer;
use lv_core::*;
use serde_json::{Value, json};
use std::collections::{BTreeMap, BTreeSet};
use std::future::poll_fn;
use std::sync::Arc;
use std::task::Poll;
use tendermint_proto::Protobuf;

#[path = "../shared/hex_common.rs"]
mod hex_common;
use hex_common::block_on;

const ST_INVALID: i32 = 0;
const ST_OK: i32 = 1;
const ST_NOT_FOUND: i32 = 2;
const CAP: u64 = 512;

/// The 20-pattern family over heights 1..=8.
fn patterns() -> Vec<(String, BTreeSet<u64>)> {
    let full: BTreeSet<u64> = (1..=8).collect();
    let mut v = vec![("empty".to_string(), BTreeSet::new()), ("full".to_string(), full.clone())];
    for p in 1..=8u64 {
        let mut s = full.clone();
        s.remove(&p);
        v.push((format!("hole@{p}"), s));
    }
    for p in 2..=6u64 {
        let mut s = full.clone();
        s.remove(&p);
        s.remove(&(p + 1));
        v.push((format!("hole@{p}-{}", p + 1), s));
    }
    v.push(("prefix1-3".into(), (1..=3).collect()));
    v.push(("suffix6-8".into(), (6..=8).collect()));
    for p in [1u64, 5, 8] {
        v.push((format!("single@{p}"), [p].into_iter().collect()));
    }
    assert_eq!(v.len(), 20);
    v
}

struct Fixture {
    name: String,
    /// every header of the chain the store was filled from (also the removed ones)
    chain: Vec<ExtendedHeader>,
    /// the model: what is stored
    model: BTreeMap<u64, ExtendedHeader>,
    store: Arc<InMemoryStore>,
}

fn build_fixture(name: &str, chain: &[ExtendedHeader], keep: &BTreeSet<u64>) -> Fixture {
    let store = InMemoryStore::new();
    block_on(async {
        store.insert(chain.to_vec()).await.unwrap_or_else(|e| machinery_error("C29", &format!("fixture insert failed: {e}")));
        for h in chain {
            if !keep.contains(&h.height()) {
                store.remove_height(h.height()).await.unwrap_or_else(|e| machinery_error("C29", &format!("fixture remove failed: {e}")));
            }
        }
    });
    let model: BTreeMap<u64, ExtendedHeader> = chain.iter().filter(|h| keep.contains(&h.height())).map(|h| (h.height(), h.clone())).collect();
    // fixture sanity through the public Store API
    block_on(async {
        for h in chain {
            if store.has_at(h.height()).await != model.contains_key(&h.height()) {
                machinery_error("C29", "fixture store does not match the model");
            }
        }
    });
    Fixture {
        name: name.to_string(),
        chain: chain.to_vec(),
        model,
        store: Arc::new(store),
    }
}

#[derive(Clone, Debug, PartialEq)]
enum RData {
    None,
    Origin(u64),
    /// hash of chain header at this height (stored or removed)
    HashOf(u64),
    /// 32 bytes that are no header's hash
    HashUnknown,
    /// n bytes (n != 32)
    HashLen(usize),
}

#[derive(Clone, Debug, PartialEq)]
struct Rq {
    data: RData,
    amount: u64,
}

impl Rq {
    fn to_json(&self) -> Value {
        let d = match &self.data {
            RData::None => json!("none"),
            RData::Origin(o) => json!({"origin": o}),
            RData::HashOf(h) => json!({"hash_of": h}),
            RData::HashUnknown => json!("hash_unknown"),
            RData::HashLen(n) => json!({"hash_len": n}),
        };
        json!({"data": d, "amount": self.amount})
    }
    fn from_json(v: &Value) -> Option<Rq> {
        let amount = v["amount"].as_u64()?;
        let d = &v["data"];
        let data = if d == "none" {
            RData::None
        } else if d == "hash_unknown" {
            RData::HashUnknown
        } else if let Some(o) = d.get("origin") {
            RData::Origin(o.as_u64()?)
        } else if let Some(h) = d.get("hash_of") {
            RData::HashOf(h.as_u64()?)
        } else {
            RData::HashLen(d.get("hash_len")?.as_u64()? as usize)
        };
        Some(Rq { data, amount })
    }
    fn build(&self, fx: &Fixture, seed: u64) -> HeaderRequest {
        let data = match &self.data {
            RData::None => None,
            RData::Origin(o) => Some(Data::Origin(*o)),
            RData::HashOf(h) => Some(Data::Hash(fx.chain.iter().find(|x| x.height() == *h).expect("chain height").hash().as_bytes().to_vec())),
            RData::HashUnknown => Some(Data::Hash(Fill::new(seed, 29).bytes(32))),
            RData::HashLen(n) => Some(Data::Hash(Fill::new(seed, 29).bytes(*n))),
        };
        HeaderRequest { data, amount: self.amount }
    }
}

fn request_space(chain_top: u64) -> Vec<Rq> {
    let mut v = vec![];
    let mut origins: Vec<u64> = (0..=10).collect();
    origins.extend([1u64 << 63, u64::MAX - 513, u64::MAX - 512, u64::MAX - 511, u64::MAX - 1, u64::MAX]);
    let amounts = [0u64, 1, 2, 3, 8, 511, 512, 513, 1 << 63, u64::MAX];
    // simplest first: small amounts, small origins
    for a in amounts {
        for o in &origins {
            v.push(Rq { data: RData::Origin(*o), amount: a });
        }
    }
    if chain_top > 8 {
        // the long store: origins around the places where min(amount, 512) and the head bind
        for a in amounts {
            for o in [chain_top - 513, chain_top - 512, chain_top - 511, chain_top - 1, chain_top, chain_top + 1] {
                v.push(Rq { data: RData::Origin(o), amount: a });
            }
        }
    }
    for a in [1u64, 0, 2, u64::MAX] {
        for h in [1u64, 4, 8] {
            v.push(Rq { data: RData::HashOf(h), amount: a });
        }
        v.push(Rq { data: RData::HashUnknown, amount: a });
        for n in [0usize, 31, 33] {
            v.push(Rq { data: RData::HashLen(n), amount: a });
        }
        v.push(Rq { data: RData::None, amount: a });
    }
    v
}

/// What the statement allows as the single response batch.
#[derive(Debug)]
enum Want {
    /// exactly these headers, status OK, in this order
    Headers(Vec<ExtendedHeader>),
    NotFound,
    Invalid,
    /// the statement does not say whether this is an invalid request: either answer
    InvalidOr(Box<Want>),
}

fn oracle(fx: &Fixture, rq: &Rq) -> (Want, &'static str) {
    let by_hash = |h: u64| match fx.model.get(&h) {
        Some(x) => (Want::Headers(vec![x.clone()]), "hash:ok"),
        None => (Want::NotFound, "hash:notfound"),
    };
    let by_height = |origin: u64, amount: u64| {
        let cap = amount.min(CAP);
        let mut run = vec![];
        let mut h = origin;
        while (run.len() as u64) < cap {
            match fx.model.get(&h) {
                Some(x) => run.push(x.clone()),
                None => break,
            }
            match h.checked_add(1) {
                Some(n) => h = n,
                None => break,
            }
        }
        if run.is_empty() {
            (Want::NotFound, "height:notfound")
        } else if run.len() as u64 == CAP && amount > CAP {
            (Want::Headers(run), "height:run-capped-512")
        } else {
            (Want::Headers(run), "height:run")
        }
    };
    let head = || match fx.model.iter().next_back() {
        Some((_, x)) => (Want::Headers(vec![x.clone()]), "head:ok"),
        None => (Want::NotFound, "head:notfound"),
    };
    if rq.amount == 0 {
        return (Want::Invalid, "invalid");
    }
    match &rq.data {
        RData::None => (Want::Invalid, "invalid"),
        RData::HashLen(_) => (Want::Invalid, "invalid"),
        RData::Origin(0) if rq.amount == 1 => head(),
        // origin 0 with amount > 1: not a head request; as a height request nothing is stored at 0
        RData::Origin(0) => (Want::InvalidOr(Box::new(Want::NotFound)), "invalid-or-answer"),
        RData::Origin(o) => by_height(*o, rq.amount),
        RData::HashOf(h) if rq.amount == 1 => by_hash(*h),
        RData::HashUnknown if rq.amount == 1 => (Want::NotFound, "hash:notfound"),
        // a hash request for more than one header
        RData::HashOf(h) => (Want::InvalidOr(Box::new(by_hash(*h).0)), "invalid-or-answer"),
        RData::HashUnknown => (Want::InvalidOr(Box::new(Want::NotFound)), "invalid-or-answer"),
    }
}

fn matches(want: &Want, got: &[HeaderResponse]) -> bool {
    match want {
        Want::Invalid => got.len() == 1 && got[0].status_code == ST_INVALID,
        Want::NotFound => got.len() == 1 && got[0].status_code == ST_NOT_FOUND,
        Want::Headers(hs) => {
            got.len() == hs.len()
                && got.iter().zip(hs).all(|(g, h)| g.status_code == ST_OK && ExtendedHeader::decode(&g.body[..]).ok().as_ref() == Some(h))
        }
        Want::InvalidOr(w) => matches(&Want::Invalid, got) || matches(w, got),
    }
}

fn describe(got: &[HeaderResponse]) -> Value {
    Value::Array(
        got.iter()
            .take(6)
            .map(|g| match g.status_code {
                ST_OK => json!({"ok_height": ExtendedHeader::decode(&g.body[..]).ok().map(|h| h.height())}),
                c => json!({"status": c, "body_len": g.body.len()}),
            })
            .chain((got.len() > 6).then(|| json!(format!("... {} entries", got.len()))))
            .collect(),
    )
}

fn describe_want(w: &Want) -> String {
    match w {
        Want::Invalid => "single Invalid".into(),
        Want::NotFound => "single NotFound".into(),
        Want::Headers(h) => format!("{} OK header(s) from height {}", h.len(), h[0].height()),
        Want::InvalidOr(w) => format!("single Invalid or {}", describe_want(w)),
    }
}

/// Polls the handler until it has nothing more to do (tokio's cooperative budget makes the
/// store futures yield every 128 lock acquisitions, hence the loop).  Returns the recorded batches.
fn drive(server: &mut VServer<InMemoryStore>) -> Vec<(u64, Vec<HeaderResponse>)> {
    block_on(async {
        for _ in 0..200_000 {
            poll_fn(|cx| {
                while server.poll(cx).is_ready() {}
                Poll::Ready(())
            })
            .await;
            if server.pending_tasks() == 0 {
                break;
            }
            tokio::task::yield_now().await;
        }
    });
    server.take_sent()
}

fn eval(fx: &Fixture, rq: &Rq, seed: u64, rep: &mut Report) -> Option<Vec<HeaderResponse>> {
    let request = rq.build(fx, seed);
    let (want, class) = oracle(fx, rq);
    let key = fnv64(format!("{}|{:?}", fx.name, rq).as_bytes());
    let case = json!({"store": fx.name, "request": rq.to_json()});
    const CH: u64 = 77;
    let got = guard(|| {
        let mut server = VServer::new(fx.store.clone());
        server.on_request_received(request, CH);
        let sent = drive(&mut server);
        (sent, server.pending_tasks())
    });
    let nontrivial = !fx.model.is_empty() && !matches!(want, Want::Invalid);
    match got {
        Err(p) => {
            rep.case(key, "panic", nontrivial);
            rep.violation("panic", format!("server handler panicked: {p}"), case);
            None
        }
        Ok((sent, pending)) => {
            rep.case(key, class, nontrivial);
            if sent.is_empty() {
                rep.violation("no-response", format!("no response batch was sent ({pending} task(s) still pending)"), case);
                return None;
            }
            if sent.len() > 1 {
                rep.violation("multiple-responses", format!("{} response batches for one request", sent.len()), case);
                return None;
            }
            let (ch, batch) = sent.into_iter().next().unwrap();
            if ch != CH {
                rep.violation("wrong-channel", format!("response sent on channel {ch}"), case);
                return None;
            }
            if rep.wants_sample() && key % 211 == 3 {
                rep.sample(|| json!({"case": case, "response": describe(&batch), "class": class}));
            }
            if !matches(&want, &batch) {
                let k = match class {
                    "invalid" | "invalid-or-answer" => "invalid-request-wrong-answer",
                    c if c.starts_with("head") => "head-request-wrong-answer",
                    c if c.starts_with("hash") => "hash-request-wrong-answer",
                    _ => "height-request-wrong-run",
                };
                rep.violation(k, format!("expected {}, got {}", describe_want(&want), describe(&batch)), case);
            }
            Some(batch)
        }
    }
}

/// All requests on ONE handler before it is polled: every channel gets exactly one batch, the
/// same as when asked alone.
fn eval_concurrent(fx: &Fixture, rqs: &[Rq], alone: &[Option<Vec<HeaderResponse>>], seed: u64, rep: &mut Report) {
    let key = fnv64(format!("{}|concurrent", fx.name).as_bytes());
    let case = json!({"store": fx.name, "concurrent": true});
    let idx: Vec<usize> = (0..rqs.len()).filter(|i| alone[*i].is_some()).collect();
    let got = guard(|| {
        let mut server = VServer::new(fx.store.clone());
        for i in &idx {
            server.on_request_received(rqs[*i].build(fx, seed), *i as u64);
        }
        drive(&mut server)
    });
    match got {
        Err(p) => {
            rep.case(key, "panic", true);
            rep.violation("panic", format!("server handler panicked with {} queued requests: {p}", idx.len()), case);
        }
        Ok(sent) => {
            rep.case(key, "concurrent", true);
            let mut seen: BTreeMap<u64, usize> = BTreeMap::new();
            for (ch, _) in &sent {
                *seen.entry(*ch).or_insert(0) += 1;
            }
            for i in &idx {
                let n = seen.get(&(*i as u64)).copied().unwrap_or(0);
                if n != 1 {
                    rep.violation(
                        if n == 0 { "no-response" } else { "multiple-responses" },
                        format!("{n} batches for request {:?} among {} queued requests", rqs[*i], idx.len()),
                        json!({"store": fx.name, "concurrent": true, "request": rqs[*i].to_json()}),
                    );
                }
            }
            for (ch, batch) in &sent {
                if alone.get(*ch as usize).and_then(|a| a.as_ref()) != Some(batch) {
                    rep.violation(
                        "concurrent-answer-differs",
                        format!("request {ch} answered differently when queued with others"),
                        json!({"store": fx.name, "concurrent": true, "request": rqs.get(*ch as usize).map(|r| r.to_json())}),
                    );
                }
            }
        }
    }
}

fn main() {
    let ctx = Ctx::from_args("C29");
    let long_top: u64 = ctx.tier.pick(520, 1030);
    let chain8 = ExtendedHeaderGenerator::new().next_many(8);
    let mut pats = patterns();
    if !ctx.quick() {
        // thorough: additionally EVERY subset of heights 1..=8 (256 stores; the 20 named ones are among them)
        for mask in 0u32..256 {
            pats.push((format!("set:{mask:08b}"), (1..=8u64).filter(|h| mask >> (h - 1) & 1 == 1).collect()));
        }
    }

    let build = |name: &str| -> Fixture {
        if name.starts_with("long") {
            let chain = ExtendedHeaderGenerator::new().next_many_empty(long_top);
            let keep: BTreeSet<u64> = (1..=long_top).collect();
            build_fixture(name, &chain, &keep)
        } else {
            let keep: BTreeSet<u64> = match name.strip_prefix("set:").and_then(|m| u32::from_str_radix(m, 2).ok()) {
                Some(mask) => (1..=8u64).filter(|h| mask >> (h - 1) & 1 == 1).collect(),
                None => pats.iter().find(|p| p.0 == name).unwrap_or_else(|| machinery_error("C29", &format!("unknown store {name}"))).1.clone(),
            };
            build_fixture(name, &chain8, &keep)
        }
    };

    let rep = if let Some(c) = ctx.replay_case() {
        let mut rep = Report::new();
        let fx = build(c["store"].as_str().unwrap_or_default());
        let top = fx.chain.len() as u64;
        if c["concurrent"] == true && c.get("request").is_none() {
            let rqs = request_space(top);
            let mut scratch = Report::new();
            let alone: Vec<_> = rqs.iter().map(|r| eval(&fx, r, ctx.seed, &mut scratch)).collect();
            eval_concurrent(&fx, &rqs, &alone, ctx.seed, &mut rep);
        } else {
            let rq = Rq::from_json(&c["request"]).unwrap_or_else(|| machinery_error("C29", "replay: bad request"));
            eval(&fx, &rq, ctx.seed, &mut rep);
            if c["concurrent"] == true {
                let rqs = request_space(top);
                let mut scratch = Report::new();
                let alone: Vec<_> = rqs.iter().map(|r| eval(&fx, r, ctx.seed, &mut scratch)).collect();
                eval_concurrent(&fx, &rqs, &alone, ctx.seed, &mut rep);
            }
        }
        rep
    } else {
        let mut names: Vec<String> = pats.iter().map(|p| p.0.clone()).collect();
        names.push(format!("long1-{long_top}"));
        let mut rep = par_cases(names.clone(), |name, rep| {
            let fx = build(&name);
            let rqs = request_space(fx.chain.len() as u64);
            let alone: Vec<_> = rqs.iter().map(|r| eval(&fx, r, ctx.seed, rep)).collect();
            eval_concurrent(&fx, &rqs, &alone, ctx.seed, rep);
        });
        rep.extra("stores", json!(names));
        rep.extra("requests_per_small_store", json!(request_space(8).len()));
        rep.extra("requests_on_long_store", json!(request_space(long_top).len()));
        rep
    };
    finish(
        &ctx,
        rep,
        Spec {
            rule: "stores: 20 gap patterns over heights 1..=8 {empty, full, hole at each height, 2-wide hole at 2..6, prefix 1-3, suffix 6-8, single@1/5/8} built by insert + remove_height (thorough: additionally all 256 subsets of 1..=8), + one store 1..=N (N=520 quick, 1030 thorough) x requests: origin ∈ {0..10, 2^63, u64::MAX-513, -512, -511, -1, u64::MAX} (+ N-513..N+1 on the long store) x amount ∈ {0,1,2,3,8,511,512,513,2^63,u64::MAX}; hash ∈ {hash of header 1/4/8 (stored or removed), unknown 32 bytes, 0/31/33 bytes} and data None x amount ∈ {1,0,2,u64::MAX}; each request alone on a fresh handler, then all of them queued on one handler before polling; distinct = (store, request); non-trivial = valid request against a non-empty store",
            assumptions: &[
                "headers from ExtendedHeaderGenerator (random key): the property does not depend on key material; VERIF_SEED picks the unknown-hash bytes",
                "a request with origin 0 and amount > 1, or a 32-byte hash with amount > 1, is not covered by the statement's cases: a single Invalid or the answer of the corresponding height/hash request are both admitted",
                "an OK entry is compared by decoding its body and comparing the header with the stored one",
                "heights >= 2^63 cannot be stored (tendermint Height), so near-u64::MAX origins always expect a single NotFound",
            ],
            required_classes: &["invalid", "head:ok", "head:notfound", "height:run", "height:run-capped-512", "height:notfound", "hash:ok", "hash:notfound", "concurrent"],
            exhaustive: true,
        },
    );
}
