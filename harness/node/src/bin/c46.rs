fn main() { let v = postcard::to_allocvec(&1u8).unwrap(); println!("{v:?}"); }
