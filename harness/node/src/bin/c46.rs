//! C46 — Public data types round-trip through their wire and JSON forms.   (engine E1)
//!
//! Every value of the deterministic families of `shared/c46_values.rs` is pushed through
//! every wire form its type offers; for each (type, form) the check demands
//! `decode(encode(v)) == v` and `encode(decode(encode(v))) == encode(v)`.
//!
//! Forms: `pb` / `pb-ld` = `tendermint_proto::Protobuf::{encode_vec, decode_vec}` and the
//! length-delimited pair; `raw` = `From<T> for Raw` / `TryFrom<Raw> for T` compared on the
//! prost message; `json` = `serde_json::{to_string, from_str}`; `json-value` =
//! `{to_value, from_value}` (owned strings, no borrowed `&str`); `json-reader` =
//! `{to_vec, from_reader}`; `postcard` = a non-self-describing serde format (the repo's own
//! tests round-trip Namespace / NamespaceProof / RowProof through it); `bytes` / `pairs` =
//! the plain byte / tuple forms used where no message type exists.
//!
//! Oracle: `PartialEq` of the value types and byte equality of the encodings; where the
//! value was obtained from a raw message assembled by the harness (fraud proofs) the encoding
//! must also equal that message.
use std::fmt::Debug;

use celestia_proto::celestia::core::v1::da::DataAvailabilityHeader as RawDah;
use celestia_proto::celestia::core::v1::proof::{NmtProof as RawNmtProof, Proof as RawMerkleProof, RowProof as RawRowProof, ShareProof as RawShareProof};
use celestia_proto::header::pb::ExtendedHeader as RawExtendedHeader;
use celestia_proto::proof::pb::Proof as RawProof;
use celestia_proto::share::eds::byzantine::pb::BadEncoding as RawBefp;
use celestia_types::blob::RawBlob;
use celestia_types::fraud_proof::{BadEncodingFraudProof, Proof as FraudProofEnum};
use celestia_types::nmt::{Namespace, NamespaceProof};
use celestia_types::test_utils::{ExtendedHeaderGenerator, corrupt_eds, generate_dummy_eds};
use celestia_types::{AppVersion, Blob, DataAvailabilityHeader, ExtendedHeader, MerkleProof, RawShare, RowProof, Share, ShareProof};
use lumina_node::block_ranges::BlockRanges;
use lv_core::*;
use prost::Message;
use serde::de::DeserializeOwned;
use serde::{Deserialize, Serialize};
use serde_json::{Value, json};
use tendermint_proto::Protobuf;

#[path = "../shared/c46_values.rs"]
mod c46_values;
use c46_values as vals;
use vals::{BefpSpec, BlobSpec, HdrSpec, SquareId};

// ---------------------------------------------------------------------------------------
// work units (what a replay file names)

#[derive(Clone, Debug, PartialEq, Serialize, Deserialize)]
#[serde(tag = "unit")]
enum Unit {
    Namespaces,
    Header { spec: HdrSpec },
    /// headers made by `ExtendedHeaderGenerator` (random keys, wall-clock times): a failing
    /// one is recorded by its protobuf bytes (`HeaderBytes`)
    GenHeaders,
    HeaderBytes { pb: String },
    Dah { kind: DahKind },
    Shares { sq: SquareId },
    NsProofs { sq: SquareId },
    RowProofs { sq: SquareId },
    MerkleProofs { total: usize },
    ShareProofs { sq: SquareId },
    Befp { sq: SquareId, spec: BefpSpec },
    /// fraud proofs made by `test_utils::corrupt_eds` (random); recorded by bytes (`BefpBytes`)
    GenBefp,
    BefpBytes { pb: String },
    Blob { spec: BlobSpec },
    /// all well-formed base-3 codes `lo..hi` over `n` heights above `off`
    Ranges { n: u32, off: u64, lo: u64, hi: u64 },
}

#[derive(Clone, Copy, Debug, PartialEq, Serialize, Deserialize)]
enum DahKind {
    Square(SquareId),
    EmptySquare,
    Synthetic(usize),
}

struct Out<'a> {
    rep: &'a mut Report,
    unit: &'a Unit,
    /// replay filter: (type, form, id)
    only: Option<(String, String, String)>,
}

impl Out<'_> {
    fn wanted(&self, ty: &str, form: &str, id: &str) -> bool {
        match &self.only {
            None => true,
            Some((t, f, i)) => t == ty && f == form && i == id,
        }
    }
    fn case_json(&self, ty: &str, form: &str, id: &str) -> Value {
        json!({"unit": self.unit, "type": ty, "form": form, "id": id})
    }
    fn ok(&mut self, ty: &str, form: &str, id: &str, class: &str, nontrivial: bool, wire: impl FnOnce() -> String) {
        let key = fnv64(format!("{ty}/{form}/{id}").as_bytes());
        self.rep.case(key, &format!("{ty}/{form}:{class}"), nontrivial);
        // a few samples, at most one per type and worker
        self.rep.sample_cap = 12;
        if self.rep.wants_sample() && key % 97 == 7 && !self.rep.samples.iter().any(|s| s["case"]["type"] == ty) {
            let c = self.case_json(ty, form, id);
            let w = vals::short(wire());
            self.rep.sample(|| json!({"case": c, "wire": w, "result": class}));
        }
    }
    fn bad(&mut self, ty: &str, form: &str, id: &str, kind: &str, what: String) {
        let key = fnv64(format!("{ty}/{form}/{id}").as_bytes());
        if form == "postcard" && kind != "panic" {
            // The statement names the protobuf and JSON forms.  `postcard` (a non-self-describing
            // serde format) is exercised as an extra, but a type whose serde impl needs a
            // self-describing format (e.g. an untagged enum accepting two JSON shapes) does
            // not break the property: recorded as an observation, never judged.
            self.rep.case(key, &format!("{ty}/postcard:observation-{kind}"), true);
            return;
        }
        self.rep.case(key, &format!("{ty}/{form}:{kind}"), true);
        let c = self.case_json(ty, form, id);
        self.rep.violation(&format!("{ty}/{form}:{kind}"), vals::short(what), c);
    }

    /// One (value, form) evaluation: encode, decode, compare, re-encode, compare.
    #[allow(clippy::too_many_arguments)]
    fn rt<T: Debug, W: PartialEq>(
        &mut self,
        ty: &str,
        form: &str,
        id: &str,
        v: &T,
        enc: impl Fn(&T) -> Result<W, String>,
        dec: impl Fn(&W) -> Result<T, String>,
        same: impl Fn(&T, &T) -> bool,
        show: impl Fn(&W) -> String,
    ) -> Option<W> {
        if !self.wanted(ty, form, id) {
            return None;
        }
        enum R<W> {
            Ok(W),
            Bad(&'static str, String),
        }
        let r = guard(|| {
            let w1 = match enc(v) {
                Ok(w) => w,
                Err(e) => return R::Bad("encode-error", format!("encoding a valid value failed: {e}; value {v:?}")),
            };
            let v2 = match dec(&w1) {
                Ok(v2) => v2,
                Err(e) => return R::Bad("decode-error", format!("decoding the encoding of a valid value failed: {e}; wire {}; value {v:?}", show(&w1))),
            };
            if !same(v, &v2) {
                return R::Bad("value-changed", format!("decode(encode(v)) != v: wire {}; before {v:?}; after {v2:?}", show(&w1)));
            }
            let w2 = match enc(&v2) {
                Ok(w) => w,
                Err(e) => return R::Bad("encode-error", format!("re-encoding the decoded value failed: {e}")),
            };
            if w1 != w2 {
                return R::Bad("reencode-differs", format!("encode(decode(encode(v))) != encode(v): first {}; second {}", show(&w1), show(&w2)));
            }
            R::Ok(w1)
        });
        match r {
            Ok(R::Ok(w)) => {
                self.ok(ty, form, id, "ok", true, || show(&w));
                Some(w)
            }
            Ok(R::Bad(kind, what)) => {
                self.bad(ty, form, id, kind, what);
                None
            }
            Err(p) => {
                self.bad(ty, form, id, "panic", format!("panicked: {p}; value {v:?}"));
                None
            }
        }
    }

    /// The three JSON forms of a serde type.
    fn json<T: Debug + PartialEq + Serialize + DeserializeOwned>(&mut self, ty: &str, id: &str, v: &T) {
        self.json_with(ty, id, v, |a, b| a == b)
    }
    fn json_with<T: Debug + Serialize + DeserializeOwned>(&mut self, ty: &str, id: &str, v: &T, same: impl Fn(&T, &T) -> bool + Copy) {
        self.rt(ty, "json", id, v, |v| serde_json::to_string(v).map_err(es), |s| serde_json::from_str::<T>(s).map_err(es), same, |s| s.clone());
        self.rt(ty, "json-value", id, v, |v| serde_json::to_value(v).map_err(es), |j| serde_json::from_value::<T>(j.clone()).map_err(es), same, |j| j.to_string());
        self.rt(
            ty,
            "json-reader",
            id,
            v,
            |v| serde_json::to_vec(v).map_err(es),
            |b| serde_json::from_reader::<_, T>(&b[..]).map_err(es),
            same,
            |b| String::from_utf8_lossy(b).into_owned(),
        );
    }
    fn postcard<T: Debug + PartialEq + Serialize + DeserializeOwned>(&mut self, ty: &str, id: &str, v: &T) {
        self.rt(ty, "postcard", id, v, |v| postcard::to_allocvec(v).map_err(es), |b| postcard::from_bytes::<T>(b).map_err(es), |a, b| a == b, |b| hex::encode(b));
    }
    /// `pb`, `pb-ld` and `raw` of a `Protobuf<R>` type.  Returns the raw message.
    fn proto<T, R>(&mut self, ty: &str, id: &str, v: &T) -> Option<R>
    where
        T: Debug + PartialEq + Clone + Protobuf<R> + TryFrom<R>,
        <T as TryFrom<R>>::Error: std::fmt::Display,
        R: Message + Default + From<T> + PartialEq + Clone + Debug,
    {
        self.rt(ty, "pb", id, v, |v| Ok(v.clone().encode_vec()), |b| T::decode_vec(b).map_err(es), |a, b| a == b, |b| hex::encode(b));
        self.rt(
            ty,
            "pb-ld",
            id,
            v,
            |v| Ok(v.clone().encode_length_delimited_vec()),
            |b| T::decode_length_delimited_vec(b).map_err(es),
            |a, b| a == b,
            |b| hex::encode(b),
        );
        self.rt(ty, "raw", id, v, |v| Ok(R::from(v.clone())), |r| T::try_from(r.clone()).map_err(es), |a, b| a == b, |r| format!("{r:?}"))
    }
}

fn es(e: impl std::fmt::Display) -> String {
    e.to_string()
}

// ---------------------------------------------------------------------------------------
// per-type checks

fn check_header(o: &mut Out, id: &str, eh: &ExtendedHeader) {
    o.proto::<ExtendedHeader, RawExtendedHeader>("header", id, eh);
    o.json("header", id, eh);
}

fn check_dah(o: &mut Out, id: &str, dah: &DataAvailabilityHeader) {
    o.proto::<DataAvailabilityHeader, RawDah>("dah", id, dah);
    o.json("dah", id, dah);
}

fn check_namespace(o: &mut Out, id: &str, ns: &Namespace) {
    o.rt("namespace", "bytes", id, ns, |n| Ok(n.as_bytes().to_vec()), |b| Namespace::from_raw(b).map_err(es), |a, b| a == b, |b| hex::encode(b));
    o.rt(
        "namespace",
        "version-id",
        id,
        ns,
        |n| Ok((n.version(), n.id().to_vec())),
        |(v, i)| Namespace::new(*v, i).map_err(es),
        |a, b| a == b,
        |(v, i)| format!("{v}/{}", hex::encode(i)),
    );
    o.json("namespace", id, ns);
    o.postcard("namespace", id, ns);
}

fn check_share(o: &mut Out, id: &str, s: &Share) {
    if s.is_parity() {
        // The raw share message and the JSON string carry the 512 bytes only.  The statement
        // excepts parity shares: what is demanded is that encoding works and carries the
        // bytes; the decoder either refuses them or yields a non-parity share of the same bytes.
        if !o.wanted("share-parity", "json", id) {
            return;
        }
        let bytes = s.as_ref().to_vec();
        let r = guard(|| {
            let raw = RawShare::from(s.clone());
            let js = serde_json::to_string(s).map_err(es)?;
            let back: Result<Share, String> = serde_json::from_str::<Share>(&js).map_err(es);
            let back_raw: Result<Share, String> = Share::try_from(raw.clone()).map_err(es);
            Ok::<_, String>((raw, js, back, back_raw))
        });
        match r {
            Err(p) => o.bad("share-parity", "json", id, "panic", format!("panicked: {p}")),
            Ok(Err(e)) => o.bad("share-parity", "json", id, "encode-error", format!("encoding a parity share failed: {e}")),
            Ok(Ok((raw, js, back, back_raw))) => {
                if raw.data != bytes {
                    o.bad("share-parity", "raw", id, "value-changed", "raw share message does not carry the share bytes".into());
                    return;
                }
                for (form, b) in [("json", &back), ("raw", &back_raw)] {
                    match b {
                        Err(_) => o.ok("share-parity", form, id, "excepted-refused", true, || js.clone()),
                        Ok(sh) if sh.as_ref() == &bytes[..] && !sh.is_parity() => o.ok("share-parity", form, id, "excepted-decoded-as-data-share", true, || js.clone()),
                        Ok(sh) => o.bad("share-parity", form, id, "value-changed", format!("parity share decoded to different bytes or kept a parity flag the form cannot carry: {sh:?}")),
                    }
                }
            }
        }
        return;
    }
    o.rt("share", "raw", id, s, |s| Ok(RawShare::from(s.clone())), |r| Share::try_from(r.clone()).map_err(es), |a, b| a == b, |r| hex::encode(&r.data));
    o.rt(
        "share",
        "pb",
        id,
        s,
        |s| Ok(RawShare::from(s.clone()).encode_to_vec()),
        |b| RawShare::decode(&b[..]).map_err(es).and_then(|r| Share::try_from(r).map_err(es)),
        |a, b| a == b,
        |b| hex::encode(b),
    );
    o.rt("share", "bytes", id, s, |s| Ok(s.to_vec()), |b| Share::from_raw(b).map_err(es), |a, b| a == b, |b| hex::encode(b));
    o.json("share", id, s);
}

fn check_nsproof(o: &mut Out, id: &str, p: &NamespaceProof) {
    let ty = if !p.is_of_absence() {
        "nsproof-presence"
    } else if p.leaf().is_some() {
        "nsproof-absence"
    } else {
        "nsproof-absence-outside-range"
    };
    o.proto::<NamespaceProof, RawProof>(ty, id, p);
    o.json(ty, id, p);
    o.postcard(ty, id, p);
    if p.max_ns_ignored() {
        // the NMTProof message (used inside share proofs) has no flag: it implies "ignored"
        o.rt(ty, "raw-nmt", id, p, |p| Ok(RawNmtProof::from(p.clone())), |r| NamespaceProof::try_from(r.clone()).map_err(es), |a, b| a == b, |r| format!("{r:?}"));
    }
}

fn check_merkle(o: &mut Out, id: &str, p: &MerkleProof) {
    o.proto::<MerkleProof, RawMerkleProof>("merkleproof", id, p);
    o.json("merkleproof", id, p);
    o.postcard("merkleproof", id, p);
}

fn check_rowproof(o: &mut Out, id: &str, p: &RowProof) {
    o.proto::<RowProof, RawRowProof>("rowproof", id, p);
    o.json("rowproof", id, p);
    o.postcard("rowproof", id, p);
}

fn check_shareproof(o: &mut Out, id: &str, p: &ShareProof) {
    o.proto::<ShareProof, RawShareProof>("shareproof", id, p);
    o.json("shareproof", id, p);
}

fn check_befp(o: &mut Out, id: &str, p: &BadEncodingFraudProof, built_from: Option<&RawBefp>) {
    let raw = o.proto::<BadEncodingFraudProof, RawBefp>("befp", id, p);
    if let (Some(raw), Some(orig)) = (raw, built_from) {
        if &raw != orig {
            o.bad("befp", "raw", id, "reencode-differs", format!("the message of the decoded proof differs from the message it was decoded from: {orig:?} vs {raw:?}"));
        }
    }
    let wrapped = FraudProofEnum::BadEncoding(p.clone());
    o.json("fraudproof", id, &wrapped);
}

fn check_blob(o: &mut Out, id: &str, b: &Blob, app: AppVersion) {
    // the protobuf message has no index field and no commitment: the decoder recomputes the
    // commitment and leaves the index unset, so equality is demanded modulo the index
    let same = |a: &Blob, c: &Blob| {
        let mut a = a.clone();
        a.index = None;
        a == *c && c.index.is_none()
    };
    let ty = if b.index.is_some() { "blob-indexed" } else { "blob" };
    o.rt(ty, "raw", id, b, |b| Ok(RawBlob::from(b.clone())), |r| Blob::from_raw(r.clone(), app).map_err(es), same, |r| vals::short(format!("{r:?}")));
    o.rt(
        ty,
        "pb",
        id,
        b,
        |b| Ok(RawBlob::from(b.clone()).encode_to_vec()),
        |x| RawBlob::decode(&x[..]).map_err(es).and_then(|r| Blob::from_raw(r, app).map_err(es)),
        same,
        |x| hex::encode(x),
    );
    o.json(ty, id, b);
}

fn check_ranges(o: &mut Out, ty: &str, id: &str, r: &BlockRanges) {
    o.json(ty, id, r);
    o.postcard(ty, id, r);
    // the form the redb store persists: a vector of (start, end) pairs
    o.rt(
        ty,
        "pairs",
        id,
        r,
        |r| {
            let v: &[std::ops::RangeInclusive<u64>] = r.as_ref();
            Ok(v.iter().map(|x| (*x.start(), *x.end())).collect::<Vec<(u64, u64)>>())
        },
        |p| {
            let v: Vec<std::ops::RangeInclusive<u64>> = p.iter().map(|(a, b)| *a..=*b).collect();
            BlockRanges::try_from(&v[..]).map_err(es)
        },
        |a, b| a == b,
        |p| format!("{p:?}"),
    );
}

// ---------------------------------------------------------------------------------------
// units

fn run_unit(unit: &Unit, seed: u64, only: Option<(String, String, String)>, rep: &mut Report) {
    let mut o = Out { rep, unit, only };
    let o = &mut o;
    match unit {
        Unit::Namespaces => {
            for (id, ns) in vals::namespaces(seed) {
                check_namespace(o, &id, &ns);
            }
        }
        Unit::Header { spec } => {
            let eh = vals::build_header(seed, spec);
            check_header(o, &spec.id(), &eh);
        }
        Unit::GenHeaders => {
            let mut generator = ExtendedHeaderGenerator::new();
            let mut hs = vec![generator.next(), generator.next_empty(), generator.next()];
            hs.push(generator.next_with_dah(vals::empty_square_dah()));
            hs.extend(generator.next_many(3));
            let mut far = ExtendedHeaderGenerator::new_from_height(1 << 40);
            hs.push(far.next());
            hs.push(far.next_empty());
            for (i, eh) in hs.iter().enumerate() {
                let u = Unit::HeaderBytes { pb: hex::encode(eh.clone().encode_vec()) };
                let mut o2 = Out { rep: o.rep, unit: &u, only: None };
                check_header(&mut o2, &format!("generated/{i}"), eh);
            }
        }
        Unit::HeaderBytes { pb } => {
            let bytes = hex::decode(pb).unwrap_or_else(|e| machinery_error("C46", &format!("replay: bad hex: {e}")));
            match guard(|| ExtendedHeader::decode_vec(&bytes)) {
                Ok(Ok(eh)) => {
                    let id = o.only.as_ref().map(|x| x.2.clone()).unwrap_or_else(|| "generated/replay".into());
                    check_header(o, &id, &eh);
                }
                other => o.bad("header", "pb", "generated/replay", "decode-error", format!("recorded header bytes do not decode: {other:?}")),
            }
        }
        Unit::Dah { kind } => {
            let (id, dah) = match kind {
                DahKind::Square(sq) => (format!("dah/square/w{}/l{}", sq.w, sq.layout), vals::square(seed, *sq).dah),
                DahKind::EmptySquare => ("dah/empty-square".to_string(), vals::empty_square_dah()),
                DahKind::Synthetic(w) => (format!("dah/synthetic/w{w}"), vals::synthetic_dah(seed, *w)),
            };
            check_dah(o, &id, &dah);
        }
        Unit::Shares { sq } => {
            let fx = vals::square(seed, *sq);
            let w = fx.width;
            for (i, s) in fx.eds.data_square().iter().enumerate() {
                check_share(o, &format!("w{w}/l{}/r{}c{}", sq.layout, i / w, i % w), s);
            }
        }
        Unit::NsProofs { sq } => {
            let fx = vals::square(seed, *sq);
            for (id, p) in vals::namespace_proofs(&fx) {
                let id = format!("w{}/l{}/{id}", sq.w, sq.layout);
                check_nsproof(o, &id, &p);
                if sq.w <= 4 {
                    check_nsproof(o, &format!("{id}/flag-cleared"), &vals::with_flag_cleared(&p));
                }
            }
        }
        Unit::RowProofs { sq } => {
            let fx = vals::square(seed, *sq);
            for (id, p) in vals::row_proofs(&fx) {
                let id = format!("w{}/l{}/{id}", sq.w, sq.layout);
                check_rowproof(o, &id, &p);
                for (j, m) in p.proofs().iter().enumerate() {
                    check_merkle(o, &format!("{id}/proof{j}"), m);
                }
            }
        }
        Unit::MerkleProofs { total } => {
            for (id, p) in vals::merkle_proofs(seed, *total) {
                check_merkle(o, &id, &p);
            }
        }
        Unit::ShareProofs { sq } => {
            let fx = vals::square(seed, *sq);
            for (id, p) in vals::share_proofs(&fx) {
                check_shareproof(o, &format!("w{}/l{}/{id}", sq.w, sq.layout), &p);
            }
        }
        Unit::Befp { sq, spec } => {
            let fx = vals::square(seed, *sq);
            let raw = vals::raw_befp(&fx, seed, spec);
            let id = format!("w{}/l{}/axis{}/i{}/present{:x}/paxes{:x}/h{}", sq.w, sq.layout, spec.axis, spec.index, spec.present, spec.proof_axes, spec.height);
            match guard(|| BadEncodingFraudProof::try_from(raw.clone())) {
                Ok(Ok(p)) => check_befp(o, &id, &p, Some(&raw)),
                other => machinery_error("C46", &format!("fraud proof fixture {id} is not accepted by the decoder: {other:?}")),
            }
        }
        Unit::GenBefp => {
            for (i, w) in [4usize, 8].into_iter().enumerate() {
                let mut generator = ExtendedHeaderGenerator::new();
                let mut eds = generate_dummy_eds(w, AppVersion::V2);
                let (_eh, befp) = corrupt_eds(&mut generator, &mut eds);
                let u = Unit::BefpBytes { pb: hex::encode(befp.clone().encode_vec()) };
                let mut o2 = Out { rep: o.rep, unit: &u, only: None };
                check_befp(&mut o2, &format!("generated/{i}"), &befp, None);
            }
        }
        Unit::BefpBytes { pb } => {
            let bytes = hex::decode(pb).unwrap_or_else(|e| machinery_error("C46", &format!("replay: bad hex: {e}")));
            match guard(|| BadEncodingFraudProof::decode_vec(&bytes)) {
                Ok(Ok(p)) => {
                    let id = o.only.as_ref().map(|x| x.2.clone()).unwrap_or_else(|| "generated/replay".into());
                    check_befp(o, &id, &p, None);
                }
                other => o.bad("befp", "pb", "generated/replay", "decode-error", format!("recorded fraud proof bytes do not decode: {other:?}")),
            }
        }
        Unit::Blob { spec } => {
            let blob = vals::build_blob(seed, spec);
            let id = format!("len{}/signer{}/ns{}/fill{}/index{:?}/app{}", spec.len, spec.signer as u8, spec.ns, spec.fill, spec.index, spec.app);
            check_blob(o, &id, &blob, vals::app_version(spec.app));
            // the shares of the blob are data shares with sequence length / signer / padding
            if spec.index.is_none() && spec.len <= 2000 {
                match guard(|| blob.to_shares()) {
                    Ok(Ok(shares)) => {
                        for (j, s) in shares.iter().enumerate() {
                            check_share(o, &format!("blob/{id}/share{j}"), s);
                        }
                    }
                    other => machinery_error("C46", &format!("blob fixture {id}: to_shares failed: {other:?}")),
                }
            }
        }
        Unit::Ranges { n, off, lo, hi } => {
            for code in *lo..*hi {
                let Some(v) = vals::ranges_of_code(*n, *off, code) else { continue };
                let r = vals::block_ranges(&v);
                let ty = if v.is_empty() {
                    "blockranges-empty"
                } else if vals::is_merged(&v) {
                    "blockranges"
                } else {
                    "blockranges-adjacent"
                };
                check_ranges(o, ty, &format!("n{n}/off{off}/code{code}"), &r);
            }
        }
    }
}

fn squares(tier: Tier) -> Vec<SquareId> {
    let widths: &[usize] = tier.pick(&[2, 4, 8, 16], &[2, 4, 8, 16, 32, 64, 128, 256]);
    let mut out = vec![];
    for w in widths {
        for layout in 0..3 {
            out.push(SquareId { w: *w, layout });
        }
    }
    out
}

fn units(tier: Tier) -> Vec<Unit> {
    let deep = tier == Tier::Thorough;
    let mut u = vec![Unit::Namespaces];
    // block ranges: n heights, base-3 codes in chunks
    let n: u32 = tier.pick(10, 12);
    let total = 3u64.pow(n);
    for off in [0u64, (1 << 53) - 2, i64::MAX as u64 - 3, u64::MAX - n as u64] {
        let chunk = 6561;
        let mut lo = 0;
        while lo < total {
            u.push(Unit::Ranges { n, off, lo, hi: (lo + chunk).min(total) });
            lo += chunk;
        }
    }
    for total in 1..=tier.pick(9, 17) {
        u.push(Unit::MerkleProofs { total });
    }
    u.push(Unit::Dah { kind: DahKind::EmptySquare });
    for w in [2usize, 4, 64, 128, 256, 512, 1024] {
        u.push(Unit::Dah { kind: DahKind::Synthetic(w) });
    }
    for spec in vals::blob_specs(deep) {
        u.push(Unit::Blob { spec });
    }
    for spec in vals::header_specs(deep) {
        u.push(Unit::Header { spec });
    }
    u.push(Unit::GenHeaders);
    u.push(Unit::GenBefp);
    for sq in squares(tier) {
        u.push(Unit::Dah { kind: DahKind::Square(sq) });
        u.push(Unit::RowProofs { sq });
        if sq.w <= tier.pick(8, 32) {
            u.push(Unit::Shares { sq });
            u.push(Unit::NsProofs { sq });
            u.push(Unit::ShareProofs { sq });
        }
        if sq.w <= tier.pick(8, 64) {
            for spec in vals::befp_specs(sq.w) {
                u.push(Unit::Befp { sq, spec });
            }
        }
    }
    u
}

const REQUIRED: &[&str] = &[
    // extended headers, DAHs
    "header/pb:ok", "header/pb-ld:ok", "header/raw:ok", "header/json:ok", "header/json-value:ok", "header/json-reader:ok",
    "dah/pb:ok", "dah/pb-ld:ok", "dah/raw:ok", "dah/json:ok", "dah/json-value:ok", "dah/json-reader:ok",
    // blobs
    "blob/pb:ok", "blob/raw:ok", "blob/json:ok", "blob/json-value:ok", "blob/json-reader:ok",
    "blob-indexed/pb:ok", "blob-indexed/raw:ok", "blob-indexed/json:ok", "blob-indexed/json-value:ok", "blob-indexed/json-reader:ok",
    // shares
    "share/raw:ok", "share/pb:ok", "share/bytes:ok", "share/json:ok", "share/json-value:ok", "share/json-reader:ok",
    "share-parity/json:excepted*", "share-parity/raw:excepted*",
    // namespaces
    "namespace/bytes:ok", "namespace/version-id:ok", "namespace/json:ok", "namespace/json-value:ok", "namespace/json-reader:ok",
    // namespace proofs
    "nsproof-presence/pb:ok", "nsproof-presence/pb-ld:ok", "nsproof-presence/raw:ok", "nsproof-presence/raw-nmt:ok", "nsproof-presence/json:ok",
    "nsproof-presence/json-value:ok", "nsproof-presence/json-reader:ok",
    "nsproof-absence/pb:ok", "nsproof-absence/pb-ld:ok", "nsproof-absence/raw:ok", "nsproof-absence/raw-nmt:ok", "nsproof-absence/json:ok",
    "nsproof-absence/json-value:ok", "nsproof-absence/json-reader:ok",
    "nsproof-absence-outside-range/pb:ok", "nsproof-absence-outside-range/raw:ok", "nsproof-absence-outside-range/json:ok",
    // merkle / row / share proofs
    "merkleproof/pb:ok", "merkleproof/pb-ld:ok", "merkleproof/raw:ok", "merkleproof/json:ok", "merkleproof/json-value:ok", "merkleproof/json-reader:ok",
    "rowproof/pb:ok", "rowproof/pb-ld:ok", "rowproof/raw:ok", "rowproof/json:ok", "rowproof/json-value:ok", "rowproof/json-reader:ok",
    "shareproof/pb:ok", "shareproof/pb-ld:ok", "shareproof/raw:ok", "shareproof/json:ok", "shareproof/json-value:ok", "shareproof/json-reader:ok",
    // fraud proofs
    "befp/pb:ok", "befp/pb-ld:ok", "befp/raw:ok", "fraudproof/json:ok", "fraudproof/json-value:ok", "fraudproof/json-reader:ok",
    // block ranges
    "blockranges/json:ok", "blockranges/json-value:ok", "blockranges/json-reader:ok", "blockranges/pairs:ok",
    "blockranges-adjacent/json:ok", "blockranges-adjacent/pairs:ok", "blockranges-empty/json:ok", "blockranges-empty/pairs:ok",
];

fn main() {
    let ctx = Ctx::from_args("C46");
    let seed = ctx.seed;
    let rep = if let Some(c) = ctx.replay_case() {
        let unit: Unit = serde_json::from_value(c["unit"].clone()).unwrap_or_else(|e| machinery_error("C46", &format!("replay: bad unit: {e}")));
        let only = match (c["type"].as_str(), c["form"].as_str(), c["id"].as_str()) {
            (Some(t), Some(f), Some(i)) => Some((t.to_string(), f.to_string(), i.to_string())),
            _ => None,
        };
        let mut rep = Report::new();
        run_unit(&unit, seed, only, &mut rep);
        if rep.evaluations == 0 {
            machinery_error("C46", "replay: the recorded case was not found in its unit");
        }
        rep
    } else {
        let us = units(ctx.tier);
        let n_units = us.len();
        let mut rep = par_cases(us, |u, rep| run_unit(&u, seed, None, rep));
        rep.extra("units", json!(n_units));
        rep
    };
    finish(
        &ctx,
        rep,
        Spec {
            rule: "E1 over deterministic families of valid values, every value through every wire form of its type (one evaluation = one (type, form, value): encode, decode, compare, re-encode, compare). \
Families: namespaces (7 named constants, v0 zero/max, 80 single-bit and 20 single-byte v0 ids, all 256 v255 ids, 16 seeded); extended headers from the deterministic multi-validator chain builder (one dimension at a time over heights 1..i64::MAX, times with nanosecond corners, 1..7 validators with commit/nil/absent votes, rounds, DAH widths 2..1024 synthetic and real, app versions 1..7, chain ids, absent optional hashes, signed proposer priorities, app-hash lengths 0..48; thorough adds their products) plus ExtendedHeaderGenerator headers; DAHs of every structured square (extended widths 2..16 quick, 2..256 thorough, 3 namespace layouts; shares / namespace proofs / share proofs up to width 8 quick, 32 thorough; fraud proofs up to 8 / 64), of the empty square and synthetic ones up to width 1024; every share of those squares (original and parity quadrants) and of every blob; blobs of boundary lengths x share version 0/1 x index None/Some x 4 namespaces x 3 fills; every complete-namespace proof (presence / absence / absence outside the root range) of every row and column for every probe namespace and every leaf-range proof (all ranges up to width 8, single leaves and the full range above), with and without ignore_max_ns; row proofs of every row range (merkle proofs inside and standalone for 1..9/17 leaves); share proofs of every namespace run, every single share and every sub-range (self-checked with verify); bad-encoding fraud proofs decoded from messages assembled from the real trees (both axes, indexes, presence masks, proof-axis mixes) plus corrupt_eds ones; BlockRanges for every well-formed base-3 code (absent/start/continue) over 10 (quick) / 12 (thorough) heights at 4 offsets incl. one ending at u64::MAX (covers all 2^n merged sets and every split into adjacent ranges). \
distinct = (type, form, value id); non-trivial = all",
            assumptions: &[
                "values are valid values of their types: built by the library constructors or self-checked with validate()/verify(); Option<Hash> fields are None or Some(Sha256), never Some(Hash::None) (tendermint-rs encodes both as empty bytes)",
                "parity shares: the raw share message and the JSON string carry only the 512 bytes, so they are excepted as the statement says (recorded as excepted-refused / excepted-decoded-as-data-share)",
                "blob protobuf form has no index/commitment field: equality is demanded modulo the index, the commitment is recomputed with the app version the blob was created with",
                "BadEncodingFraudProof has private fields: values are obtained through TryFrom of a message assembled by the harness, and the encoding must equal that message",
                "generator-made headers / corrupt_eds fraud proofs use random keys and wall-clock time; a failing one is recorded by its protobuf bytes",
                "postcard stands for the non-self-describing serde formats (serde-wasm-bindgen of the IndexedDb store is not available natively)",
            ],
            required_classes: REQUIRED,
            exhaustive: true,
        },
    );
}
