//! C09 — An EDS fetched over shrex matches the header's DAH.   (engine E1)
//!
//! Code under test: `<ExtendedDataSquare as ResponseCodec>::decode_and_verify`
//! (node/src/p2p/shrex/codec.rs) through `lumina_node::verif::shwap::shrex_decode_eds`.
//!
//! Space: see `RULE`.  Oracle (written from the statement, byte level): the decoder may
//! accept iff the payload is byte-for-byte the original data square this file wrote, the
//! DAH handed to the decoder is the DAH of that square, and the app version admits the
//! square's share versions; an accepted value must be that square; nothing may panic.
#[path = "../shared/shwap_squares.rs"]
mod shwap_squares;

use celestia_types::{AppVersion, DataAvailabilityHeader};
use lumina_node::verif::shwap::{VCodecError, shrex_decode_eds};
use lv_core::*;
use serde::{Deserialize, Serialize};
use serde_json::json;
use shwap_squares::*;

const RULE: &str = "squares: ODS width w in {1,2,4,8} (quick) / {1,2,4,8,16,32} (thorough) x layout {plain, with-share-v1, empty-block (w=1 only)}; \
shares written by the harness (tx share, 3-share user blobs with ascending namespaces spanning rows, tail padding; payload bytes = Fill(VERIF_SEED)), extension by the real from_ods. \
Per square and per app version V1..V7: payload in {honest; keep first k shares, k=0..n-1 (k=0 is the empty payload); cut inside share i at byte offset {1,29,511}, every i; \
swap of shares (all pairs if n<=4, else every adjacent pair and first/last); XOR of byte {0,28,29,511} of every share with {0x01,0x80}; honest payload of another square of every width in the tier (other seed stream); \
honest payload followed by 1 share, by 3n shares, and by the first {1,29,511} bytes of a share} against the honest DAH, plus the honest payload against DAH in {one column root taken from the other square (every index), one row root taken from the other square (every index), row and column roots exchanged, DAH of the other square, last row+column root dropped}. \
distinct = (w, layout, app version, payload mutation, DAH variant); non-trivial = the payload is a non-empty whole number of shares forming a power-of-two square (the decoder has to extend it and compare roots).";

#[derive(Clone, Debug, Serialize, Deserialize, PartialEq)]
#[serde(tag = "kind", rename_all = "snake_case")]
enum PayloadMut {
    Honest,
    KeepShares { k: usize },
    CutAt { share: usize, off: usize },
    Swap { i: usize, j: usize },
    Flip { share: usize, off: usize, mask: u8 },
    OtherSquare { w: usize },
    Append { shares: usize },
    AppendBytes { n: usize },
}

#[derive(Clone, Debug, Serialize, Deserialize, PartialEq)]
#[serde(tag = "kind", rename_all = "snake_case")]
enum DahVar {
    Honest,
    ColRootFromOther { k: usize },
    RowRootFromOther { k: usize },
    Transposed,
    OtherSquare,
    LastRootsDropped,
}

#[derive(Clone, Debug, Serialize, Deserialize)]
struct Case {
    w: usize,
    layout: String,
    app: u64,
    payload: PayloadMut,
    dah: DahVar,
}

fn layout_of(s: &str) -> Layout {
    match s {
        "plain" => Layout::Plain,
        "with-share-v1" => Layout::WithV1,
        "empty-block" => Layout::Empty,
        other => machinery_error("C09", &format!("unknown layout {other:?}")),
    }
}

struct Fixture {
    sq: Sq,
    /// same width and layout, other payload bytes
    other: Sq,
}

fn fixture(seed: u64, w: usize, layout: Layout) -> Fixture {
    let mk = |variant| {
        let sq = build(seed, w, layout, variant).unwrap_or_else(|e| machinery_error("C09", &e));
        check_dah_independently(&sq).unwrap_or_else(|e| machinery_error("C09", &e));
        sq
    };
    // the empty block has no payload bytes to vary: its "other" square is the plain one
    let other = if layout == Layout::Empty {
        let sq = build(seed, w, Layout::Plain, 1).unwrap_or_else(|e| machinery_error("C09", &e));
        sq
    } else {
        mk(1)
    };
    Fixture { sq: mk(0), other }
}

fn make_payload(fx: &Fixture, m: &PayloadMut, others: &dyn Fn(usize) -> Vec<u8>) -> Vec<u8> {
    let honest = fx.sq.payload();
    let n = fx.sq.ods.len();
    match m {
        PayloadMut::Honest => honest,
        PayloadMut::KeepShares { k } => honest[..k * SHARE].to_vec(),
        PayloadMut::CutAt { share, off } => honest[..share * SHARE + off].to_vec(),
        PayloadMut::Swap { i, j } => {
            let mut shares = fx.sq.ods.clone();
            shares.swap(*i, *j);
            shares.concat()
        }
        PayloadMut::Flip { share, off, mask } => {
            let mut p = honest;
            p[share * SHARE + off] ^= mask;
            p
        }
        PayloadMut::OtherSquare { w } => {
            if *w == fx.sq.w {
                fx.other.payload()
            } else {
                others(*w)
            }
        }
        PayloadMut::AppendBytes { n } => {
            let mut p = honest;
            p.extend_from_slice(&fx.sq.ods[0][..*n]);
            p
        }
        PayloadMut::Append { shares } => {
            let mut p = honest;
            for i in 0..*shares {
                p.extend_from_slice(&fx.sq.ods[(n - 1 + i) % n]);
            }
            p
        }
    }
}

fn make_dah(fx: &Fixture, v: &DahVar) -> DataAvailabilityHeader {
    let mut rows = fx.sq.dah.row_roots().to_vec();
    let mut cols = fx.sq.dah.column_roots().to_vec();
    match v {
        DahVar::Honest => {}
        DahVar::ColRootFromOther { k } => cols[*k] = fx.other.dah.column_roots()[*k].clone(),
        DahVar::RowRootFromOther { k } => rows[*k] = fx.other.dah.row_roots()[*k].clone(),
        DahVar::Transposed => std::mem::swap(&mut rows, &mut cols),
        DahVar::OtherSquare => return fx.other.dah.clone(),
        DahVar::LastRootsDropped => {
            rows.pop();
            cols.pop();
        }
    }
    DataAvailabilityHeader::new_unchecked(rows, cols)
}

fn class_of_error(e: &VCodecError) -> String {
    let (kind, msg) = match e {
        VCodecError::RequestDecode(m) => ("request", m),
        VCodecError::ResponseDecode(m) => ("decode", m),
        VCodecError::ResponseVerification(m) => ("verification", m),
    };
    let short: String = msg
        .chars()
        .map(|c| if c.is_ascii_digit() { '#' } else { c })
        .take(48)
        .collect();
    format!("reject:{kind}:{short}")
}

fn eval(fx: &Fixture, case: &Case, others: &dyn Fn(usize) -> Vec<u8>, rep: &mut Report) {
    let app = AppVersion::from_u64(case.app).unwrap_or_else(|| machinery_error("C09", "bad app version"));
    let payload = make_payload(fx, &case.payload, others);
    let dah = make_dah(fx, &case.dah);
    let honest = fx.sq.payload();

    // ---- oracle
    let payload_is_square = payload == honest;
    let dah_is_squares = dah == fx.sq.dah;
    let want_accept = payload_is_square && dah_is_squares && fx.sq.admitted_by(app);

    let shares = payload.len() / SHARE;
    let nontrivial = !payload.is_empty()
        && payload.len() % SHARE == 0
        && shares.is_power_of_two()
        && shares.trailing_zeros() % 2 == 0;

    let key = fnv64(serde_json::to_string(case).unwrap().as_bytes());
    let cj = || serde_json::to_value(case).unwrap();
    let got = guard(|| shrex_decode_eds(&payload, 1, &dah, app));
    match got {
        Err(p) => {
            rep.case(key, "panic", nontrivial);
            rep.violation("decoder-panicked", format!("shrex EDS decoder panicked: {p}"), cj());
        }
        Ok(Ok(eds)) => {
            rep.case(key, "accept", nontrivial);
            if rep.wants_sample() && matches!(case.payload, PayloadMut::Honest) {
                rep.sample(|| json!({"case": cj(), "result": "accept", "payload_len": payload.len()}));
            }
            if !want_accept {
                let k = if !payload_is_square {
                    "foreign-payload-accepted"
                } else if !dah_is_squares {
                    "payload-accepted-against-other-dah"
                } else {
                    "payload-accepted-under-non-admitting-app-version"
                };
                rep.violation(
                    k,
                    format!(
                        "decoder accepted; payload==original square: {payload_is_square}, dah==square's dah: {dah_is_squares}, app {app:?} admits: {}",
                        fx.sq.admitted_by(app)
                    ),
                    cj(),
                );
            } else {
                // accepted value must be the square
                let mut same = eds == fx.sq.eds && eds.square_width() as usize == fx.sq.eds_width();
                if same {
                    'outer: for r in 0..fx.sq.eds_width() {
                        for c in 0..fx.sq.eds_width() {
                            match eds.share(r as u16, c as u16) {
                                Ok(s) if s.data()[..] == fx.sq.cells[r][c][..] => {}
                                _ => {
                                    same = false;
                                    break 'outer;
                                }
                            }
                        }
                    }
                }
                if !same {
                    rep.violation(
                        "accepted-value-is-not-the-square",
                        "decoder accepted the honest payload but returned a different square".into(),
                        cj(),
                    );
                }
            }
        }
        Ok(Err(e)) => {
            let class = class_of_error(&e);
            rep.case(key, &class, nontrivial);
            if rep.wants_sample() && key % 211 == 0 {
                rep.sample(|| json!({"case": cj(), "result": class, "payload_len": payload.len()}));
            }
            if want_accept {
                rep.violation(
                    "honest-payload-rejected",
                    format!("the original square, its own DAH and an admitting app version {app:?} were rejected: {e:?}"),
                    cj(),
                );
            }
        }
    }
}

fn cases_for(fx: &Fixture, widths: &[usize]) -> Vec<Case> {
    let n = fx.sq.ods.len();
    let mut pm: Vec<PayloadMut> = vec![PayloadMut::Honest];
    for k in 0..n {
        pm.push(PayloadMut::KeepShares { k });
    }
    for share in 0..n {
        for off in [1usize, 29, 511] {
            pm.push(PayloadMut::CutAt { share, off });
        }
    }
    if n <= 4 {
        for i in 0..n {
            for j in i + 1..n {
                pm.push(PayloadMut::Swap { i, j });
            }
        }
    } else {
        for i in 0..n - 1 {
            pm.push(PayloadMut::Swap { i, j: i + 1 });
        }
        pm.push(PayloadMut::Swap { i: 0, j: n - 1 });
    }
    for share in 0..n {
        for off in [0usize, 28, 29, 511] {
            for mask in [0x01u8, 0x80] {
                pm.push(PayloadMut::Flip { share, off, mask });
            }
        }
    }
    for &w in widths {
        pm.push(PayloadMut::OtherSquare { w });
    }
    pm.push(PayloadMut::Append { shares: 1 });
    pm.push(PayloadMut::Append { shares: 3 * n });
    for n in [1usize, 29, 511] {
        pm.push(PayloadMut::AppendBytes { n });
    }

    let ew = fx.sq.eds_width();
    let mut dv: Vec<DahVar> = vec![];
    for k in 0..ew {
        dv.push(DahVar::ColRootFromOther { k });
    }
    for k in 0..ew {
        dv.push(DahVar::RowRootFromOther { k });
    }
    dv.push(DahVar::Transposed);
    dv.push(DahVar::OtherSquare);
    dv.push(DahVar::LastRootsDropped);

    let mut out = vec![];
    for app in app_versions() {
        for p in &pm {
            out.push(Case {
                w: fx.sq.w,
                layout: fx.sq.layout.name().into(),
                app: app.as_u64(),
                payload: p.clone(),
                dah: DahVar::Honest,
            });
        }
        for d in &dv {
            out.push(Case {
                w: fx.sq.w,
                layout: fx.sq.layout.name().into(),
                app: app.as_u64(),
                payload: PayloadMut::Honest,
                dah: d.clone(),
            });
        }
    }
    out
}

fn main() {
    let ctx = Ctx::from_args("C09");
    let widths: Vec<usize> = ctx.tier.pick(vec![1, 2, 4, 8], vec![1, 2, 4, 8, 16, 32]);
    let seed = ctx.seed;
    // honest payloads of the "other" squares of every width (plain layout, variant 1)
    let other_payloads: Vec<(usize, Vec<u8>)> = [1usize, 2, 4, 8, 16, 32]
        .iter()
        .map(|&w| {
            let (ods, _) = build_ods(seed, w, Layout::Plain, 1);
            (w, ods.concat())
        })
        .collect();
    let others = |w: usize| -> Vec<u8> {
        other_payloads
            .iter()
            .find(|(ow, _)| *ow == w)
            .map(|(_, p)| p.clone())
            .unwrap_or_else(|| machinery_error("C09", "unknown other-square width"))
    };

    let rep = if let Some(c) = ctx.replay_case() {
        let case: Case = serde_json::from_value(c).unwrap_or_else(|e| machinery_error("C09", &format!("bad replay case: {e}")));
        let fx = fixture(seed, case.w, layout_of(&case.layout));
        let mut rep = Report::new();
        eval(&fx, &case, &others, &mut rep);
        rep
    } else {
        let mut fixtures = vec![];
        for &w in &widths {
            let mut layouts = vec![Layout::Plain, Layout::WithV1];
            if w == 1 {
                layouts.push(Layout::Empty);
            }
            for l in layouts {
                fixtures.push(fixture(seed, w, l));
            }
        }
        // simplest first: fixtures are ordered by width; cases inside by construction
        let all: Vec<(usize, Case)> = fixtures
            .iter()
            .enumerate()
            .flat_map(|(i, fx)| cases_for(fx, &widths).into_iter().map(move |c| (i, c)))
            .collect();
        let mut rep = par_cases(all, |(i, case), rep| eval(&fixtures[i], &case, &others, rep));
        rep.extra("squares", json!(fixtures.iter().map(|f| json!({"w": f.sq.w, "layout": f.sq.layout.name()})).collect::<Vec<_>>()));
        rep.extra("app_versions", json!(app_versions().iter().map(|a| a.as_u64()).collect::<Vec<_>>()));
        rep
    };
    finish(
        &ctx,
        rep,
        Spec {
            rule: RULE,
            assumptions: &[
                "the header's DAH is modelled by the DAH value handed to the decoder; besides the honest DAH only the listed DAH variants are tried",
                "'app version admits the square' = share version 1 needs app version >= 3; the size bound (128/512) is not reached by widths <= 32",
                "the fixture's row/column roots are re-derived with lv-core's independent NMT before the run (mismatch = machinery error)",
                "sha-256 collision resistance: a payload differing in any byte is treated as not reproducing the DAH",
            ],
            required_classes: &["accept", "reject*"],
            exhaustive: true,
        },
    );
}
