//! C22 — The persistent store survives crashes at any point.   (engine E4 `crash`)
//!
//! Every operation history (alphabet below, length <= 2 quick / <= 3 thorough, from an empty
//! backend and from a cleanly closed pre-populated database) is run once on the real
//! `RedbStore` over a `LoggingBackend`.  The run is a sequence of *steps*
//! `DbOpen, StoreNew, op_1 .. op_n, Close`; for each step the log index at which it returned
//! is recorded.  Then for every crash point (log prefix) and every subset of the records
//! issued after the last completed non-eventual `sync_data` of that prefix, the disk image is
//! materialised, reopened with the real `redb::Database` + `RedbStore::new`, and the total
//! observation of the recovered store is compared with the reference-model states.
//!
//! Crash points of a history's earlier steps are exactly the crash points of the last
//! operation of its prefix history (which is in the set); the check verifies that the log
//! shapes agree and enumerates only the windows of the last operation and of `Close`
//! (for the empty history: every window, i.e. database creation and `RedbStore::new`).
#[path = "../shared/redb_backend.rs"]
mod redb_backend;

use celestia_types::ExtendedHeader;
use celestia_types::test_utils::ExtendedHeaderGenerator;
use cid::Cid;
use lumina_node::store::{RedbStore, Store, StoreError, VerifiedExtendedHeaders};
use lv_core::*;
use rayon::prelude::*;
use redb_backend::*;
use serde::{Deserialize, Serialize};
use serde_json::{Value, json};
use std::collections::{BTreeMap, BTreeSet, HashMap};
use std::sync::Arc;
use std::sync::atomic::{AtomicBool, AtomicU64, Ordering};
use std::time::{Duration, Instant};

const HMAX: u64 = 7; // observation universe: heights 0..=7
const NHDR: usize = 6; // fixture chain A1..A6
const SUBSET_CAP: usize = 12;

// ---------------------------------------------------------------------------------------
// fixture

struct Fx {
    a: Vec<ExtendedHeader>, // a[h-1] = header at height h
    cids: Vec<Cid>,
}

fn mk_cid(tag: u8) -> Cid {
    let mh = multihash::Multihash::<64>::wrap(0x12, &[tag; 32]).unwrap();
    Cid::new_v1(0x55, mh)
}

impl Fx {
    fn fresh() -> Fx {
        let mut g = ExtendedHeaderGenerator::new();
        Fx {
            a: g.next_many(NHDR as u64),
            cids: vec![mk_cid(1), mk_cid(2)],
        }
    }
    fn from_json(v: &Value) -> Fx {
        Fx {
            a: serde_json::from_value(v.clone()).expect("headers in replay case"),
            cids: vec![mk_cid(1), mk_cid(2)],
        }
    }
    fn range(&self, a: u64, b: u64) -> Vec<ExtendedHeader> {
        self.a[(a - 1) as usize..=(b - 1) as usize].to_vec()
    }
    fn label(&self, h: &ExtendedHeader) -> String {
        match self.a.iter().position(|x| x == h) {
            Some(i) => format!("A{}", i + 1),
            None => format!("other@{}:{}", h.height(), h.hash()),
        }
    }
}

// ---------------------------------------------------------------------------------------
// operations and the reference model

#[derive(Clone, Copy, Debug, PartialEq, Eq, Hash, PartialOrd, Ord, Serialize, Deserialize)]
enum Op {
    Ins12,
    Ins3,
    Ins56,
    Ins4,
    /// re-insertion of height 1 after `remove_height 1` (adjacent to a stored 2): the inserted
    /// range intersects the pruned ranges
    Ins1,
    Rem1,
    /// removal of a height that can be sampled and carry metadata
    Rem2,
    Mark2,
    Meta2,
    /// unchecked batch [A4, A4]: always refused, inside the write transaction (after the first
    /// table mutation when 4..=4 is insertable, by the constraints otherwise)
    RejIns,
}
const ALPHABET: [Op; 10] = [
    Op::Ins12,
    Op::Ins3,
    Op::Ins56,
    Op::Ins4,
    Op::Ins1,
    Op::Rem1,
    Op::Rem2,
    Op::Mark2,
    Op::Meta2,
    Op::RejIns,
];

#[derive(Clone, Copy, Debug, PartialEq, Eq, Hash, PartialOrd, Ord, Serialize, Deserialize)]
enum Start {
    Empty,
    /// cleanly closed database holding 1..=2 and 5..=6, metadata {c1} at height 2, and height 3
    /// inserted and removed again (so 3 is pruned and `insert 3..=3` re-inserts a pruned height)
    Populated,
}

#[derive(Clone, Debug, PartialEq, Eq, Default)]
struct Model {
    stored: BTreeSet<u64>,
    sampled: BTreeSet<u64>,
    pruned: BTreeSet<u64>,
    meta: BTreeMap<u64, Vec<usize>>,
}

impl Model {
    /// Insertion constraints as in the statement of C18: disjoint from what is stored, and the
    /// store is empty, or the range is above the head, or it touches a stored neighbour.
    fn insertable(&self, a: u64, b: u64) -> bool {
        if (a..=b).any(|h| self.stored.contains(&h)) {
            return false;
        }
        let head = self.stored.iter().next_back().copied();
        match head {
            None => true,
            Some(m) => a > m || self.stored.contains(&(a - 1)) || self.stored.contains(&(b + 1)),
        }
    }
    fn insert(&mut self, a: u64, b: u64) -> bool {
        if !self.insertable(a, b) {
            return false;
        }
        for h in a..=b {
            self.stored.insert(h);
            self.sampled.remove(&h);
            self.pruned.remove(&h);
        }
        true
    }
    fn add_meta(&mut self, h: u64, cids: &[usize]) -> bool {
        if !self.stored.contains(&h) {
            return false;
        }
        let e = self.meta.entry(h).or_default();
        for c in cids {
            if !e.contains(c) {
                e.push(*c);
            }
        }
        true
    }
    fn remove(&mut self, h: u64) -> bool {
        if !self.stored.remove(&h) {
            return false;
        }
        self.sampled.remove(&h);
        self.pruned.insert(h);
        self.meta.remove(&h);
        true
    }
    /// Applies `op`; returns whether the statement says it succeeds.
    fn apply(&mut self, op: Op) -> bool {
        match op {
            Op::Ins12 => self.insert(1, 2),
            Op::Ins3 => self.insert(3, 3),
            Op::Ins56 => self.insert(5, 6),
            Op::Ins4 => self.insert(4, 4),
            Op::Ins1 => self.insert(1, 1),
            Op::Rem1 => self.remove(1),
            Op::Rem2 => self.remove(2),
            Op::Mark2 => {
                if !self.stored.contains(&2) {
                    return false;
                }
                self.sampled.insert(2);
                true
            }
            Op::Meta2 => self.add_meta(2, &[0, 1]),
            Op::RejIns => false,
        }
    }
    fn populated() -> Model {
        let mut m = Model::default();
        assert!(m.insert(1, 2));
        assert!(m.insert(5, 6));
        assert!(m.add_meta(2, &[0]));
        assert!(m.insert(3, 3));
        assert!(m.remove(3));
        m
    }
}

fn runs_of(s: &BTreeSet<u64>) -> Vec<(u64, u64)> {
    let mut out: Vec<(u64, u64)> = vec![];
    for &h in s {
        match out.last_mut() {
            Some(l) if l.1 + 1 == h => l.1 = h,
            _ => out.push((h, h)),
        }
    }
    out
}

/// The total observation of a store over the fixture universe.
#[derive(Clone, Debug, PartialEq, Eq, Serialize)]
struct Obs {
    stored: String,
    sampled: String,
    pruned: String,
    head_height: String,
    head: String,
    by_height: Vec<String>,
    has_at: Vec<bool>,
    meta: Vec<String>,
    by_hash: Vec<String>,
    has: Vec<bool>,
}

impl Model {
    fn obs(&self) -> Obs {
        let head = self.stored.iter().next_back().copied();
        Obs {
            stored: format!("{:?}", runs_of(&self.stored)),
            sampled: format!("{:?}", runs_of(&self.sampled)),
            pruned: format!("{:?}", runs_of(&self.pruned)),
            head_height: head.map_or("-".into(), |h| h.to_string()),
            head: head.map_or("-".into(), |h| format!("A{h}")),
            by_height: (0..=HMAX)
                .map(|h| if self.stored.contains(&h) { format!("A{h}") } else { "-".into() })
                .collect(),
            has_at: (0..=HMAX).map(|h| self.stored.contains(&h)).collect(),
            meta: (0..=HMAX)
                .map(|h| {
                    if !self.stored.contains(&h) {
                        "notfound".into()
                    } else {
                        match self.meta.get(&h) {
                            Some(c) => format!("cids:{c:?}"),
                            None => "none".into(),
                        }
                    }
                })
                .collect(),
            by_hash: (1..=NHDR as u64)
                .map(|h| if self.stored.contains(&h) { format!("A{h}") } else { "-".into() })
                .collect(),
            has: (1..=NHDR as u64).map(|h| self.stored.contains(&h)).collect(),
        }
    }
}

fn err_s<T>(r: Result<T, StoreError>, ok: impl FnOnce(T) -> String) -> String {
    match r {
        Ok(v) => ok(v),
        Err(StoreError::NotFound) => "-".into(),
        Err(e) => format!("err:{e}"),
    }
}

fn ranges_s(r: Result<lumina_node::block_ranges::BlockRanges, StoreError>) -> String {
    err_s(r, |b| {
        let v: Vec<(u64, u64)> = b.as_ref().iter().map(|r| (*r.start(), *r.end())).collect();
        format!("{v:?}")
    })
}

async fn observe(s: &RedbStore, fx: &Fx) -> Obs {
    let mut by_height = vec![];
    let mut has_at = vec![];
    let mut meta = vec![];
    for h in 0..=HMAX {
        by_height.push(err_s(s.get_by_height(h).await, |x| fx.label(&x)));
        has_at.push(s.has_at(h).await);
        meta.push(match s.get_sampling_metadata(h).await {
            Ok(Some(m)) => {
                let idx: Vec<String> = m
                    .cids
                    .iter()
                    .map(|c| fx.cids.iter().position(|x| x == c).map_or("?".into(), |i| i.to_string()))
                    .collect();
                format!("cids:[{}]", idx.join(", "))
            }
            Ok(None) => "none".into(),
            Err(StoreError::NotFound) => "notfound".into(),
            Err(e) => format!("err:{e}"),
        });
    }
    let mut by_hash = vec![];
    let mut has = vec![];
    for x in &fx.a {
        by_hash.push(err_s(s.get_by_hash(&x.hash()).await, |y| fx.label(&y)));
        has.push(s.has(&x.hash()).await);
    }
    Obs {
        stored: ranges_s(s.get_stored_header_ranges().await),
        sampled: ranges_s(s.get_sampled_ranges().await),
        pruned: ranges_s(s.get_pruned_ranges().await),
        head_height: err_s(s.head_height().await, |h| h.to_string()),
        head: err_s(s.get_head().await, |x| fx.label(&x)),
        by_height,
        has_at,
        meta,
        by_hash,
        has,
    }
}

async fn apply_real(s: &RedbStore, fx: &Fx, op: Op) -> Result<(), StoreError> {
    match op {
        Op::Ins12 => s.insert(fx.range(1, 2)).await,
        Op::Ins3 => s.insert(fx.range(3, 3)).await,
        Op::Ins56 => s.insert(fx.range(5, 6)).await,
        Op::Ins4 => s.insert(fx.range(4, 4)).await,
        Op::Ins1 => s.insert(fx.range(1, 1)).await,
        Op::Rem1 => s.remove_height(1).await,
        Op::Rem2 => s.remove_height(2).await,
        Op::Mark2 => s.mark_as_sampled(2).await,
        Op::Meta2 => s.update_sampling_metadata(2, vec![fx.cids[0], fx.cids[1]]).await,
        Op::RejIns => {
            let h = fx.a[3].clone();
            // SAFETY: deliberately not a verified range; the store must refuse it.
            let v = unsafe { VerifiedExtendedHeaders::new_unchecked(vec![h.clone(), h]) };
            s.insert(v).await
        }
    }
}

thread_local! {
    static RT: tokio::runtime::Runtime = tokio::runtime::Builder::new_current_thread()
        .max_blocking_threads(2)
        .build()
        .unwrap();
}

fn block_on<T>(f: impl std::future::Future<Output = T>) -> T {
    RT.with(|rt| rt.block_on(f))
}

fn open_db(b: LoggingBackend) -> Result<redb::Database, String> {
    redb::Database::builder().create_with_backend(b).map_err(|e| e.to_string())
}

// ---------------------------------------------------------------------------------------
// the live run of one history

#[derive(Clone, Debug, Serialize)]
struct StepInfo {
    name: String,
    /// log length when the step returned
    end: usize,
    ok: bool,
}

struct Run {
    start: Start,
    ops: Vec<Op>,
    base: Arc<Vec<u8>>,
    log: Vec<Rec>,
    steps: Vec<StepInfo>,
    /// models[j] = reference state after j steps (models[0] = state of the base image)
    #[allow(dead_code)]
    models: Vec<Model>,
    model_obs: Vec<Obs>,
    /// shape hash of log[..steps[i].end] for every step i
    shape_at: Vec<u64>,
    live_violations: Vec<(String, String)>,
    /// the last operation is an accepted insert whose range intersects the pruned ranges
    last_inserts_into_pruned: bool,
    /// the last operation is an accepted removal of a sampled height
    last_removes_sampled: bool,
}

/// Shape of a log: per sync window the *sorted* (kind, offset, len) triples — redb flushes its
/// write buffer in hash-map order, so the order of the writes inside a window varies from run
/// to run while the set does not.
fn shape_hash(log: &[Rec]) -> u64 {
    let mut bytes = Vec::with_capacity(log.len() * 17);
    let mut cur: Vec<(u8, u64, u64)> = vec![];
    let flush = |cur: &mut Vec<(u8, u64, u64)>, bytes: &mut Vec<u8>| {
        cur.sort();
        for (k, a, b) in cur.drain(..) {
            bytes.push(k);
            bytes.extend_from_slice(&a.to_le_bytes());
            bytes.extend_from_slice(&b.to_le_bytes());
        }
    };
    for r in log {
        if r.is_sync() {
            flush(&mut cur, &mut bytes);
            let (k, a, b) = r.shape();
            cur.push((k, a, b));
            flush(&mut cur, &mut bytes);
        } else {
            cur.push(r.shape());
        }
    }
    flush(&mut cur, &mut bytes);
    fnv64(&bytes)
}

/// Builds the cleanly closed pre-populated base image (not logged, not part of the crash space).
fn build_populated(fx: &Fx) -> Vec<u8> {
    let be = LoggingBackend::new();
    let db = open_db(be.clone()).expect("create base db");
    block_on(async {
        let s = RedbStore::new(Arc::new(db)).await.expect("base store");
        s.insert(fx.range(1, 2)).await.expect("base insert 1..=2");
        s.insert(fx.range(5, 6)).await.expect("base insert 5..=6");
        s.update_sampling_metadata(2, vec![fx.cids[0]]).await.expect("base meta");
        s.insert(fx.range(3, 3)).await.expect("base insert 3..=3");
        s.remove_height(3).await.expect("base remove 3");
        let o = observe(&s, fx).await;
        assert_eq!(o, Model::populated().obs(), "base image disagrees with the model");
        s.close().await.expect("close");
    });
    be.image()
}

fn run_history(start: Start, ops: &[Op], base: &Arc<Vec<u8>>, fx: &Fx) -> Run {
    let be = LoggingBackend::from_image(base.as_ref().clone(), true);
    let m0 = match start {
        Start::Empty => Model::default(),
        Start::Populated => Model::populated(),
    };
    let mut steps: Vec<StepInfo> = vec![];
    let mut models = vec![m0.clone()];
    let mut live: Vec<(String, String)> = vec![];
    let mut cur = m0;
    let mut ins_pruned = false;
    let mut rem_sampled = false;

    let r = guard(|| {
        let db = match open_db(be.clone()) {
            Ok(db) => db,
            Err(e) => {
                live.push(("live-open-failed".into(), format!("Database open failed on the live run: {e}")));
                return;
            }
        };
        steps.push(StepInfo { name: "DbOpen".into(), end: be.log_len(), ok: true });
        models.push(cur.clone());
        block_on(async {
            let s = match RedbStore::new(Arc::new(db)).await {
                Ok(s) => s,
                Err(e) => {
                    live.push(("live-open-failed".into(), format!("RedbStore::new failed on the live run: {e}")));
                    return;
                }
            };
            steps.push(StepInfo { name: "StoreNew".into(), end: be.log_len(), ok: true });
            models.push(cur.clone());
            for op in ops {
                let got = apply_real(&s, fx, *op).await;
                let before = cur.clone();
                let want = cur.apply(*op);
                ins_pruned = want && before.pruned.iter().any(|h| !before.stored.contains(h) && cur.stored.contains(h));
                rem_sampled = want && before.sampled.iter().any(|h| !cur.stored.contains(h));
                steps.push(StepInfo { name: format!("{op:?}"), end: be.log_len(), ok: got.is_ok() });
                models.push(cur.clone());
                if got.is_ok() != want {
                    live.push((
                        "live-result-differs-from-model".into(),
                        format!("{op:?}: model says ok={want}, store returned {got:?}"),
                    ));
                }
                let o = observe(&s, fx).await;
                if o != cur.obs() {
                    live.push((
                        "live-state-differs-from-model".into(),
                        format!("after {op:?}: store {o:?} model {:?}", cur.obs()),
                    ));
                }
            }
            let _ = s.close().await;
        });
        steps.push(StepInfo { name: "Close".into(), end: be.log_len(), ok: true });
        models.push(cur.clone());
    });
    if let Err(p) = r {
        live.push(("panic".into(), format!("live run panicked: {p}")));
    }
    let log = be.log();
    let shape_at = steps.iter().map(|s| shape_hash(&log[..s.end])).collect();
    let model_obs = models.iter().map(|m| m.obs()).collect();
    Run {
        start,
        ops: ops.to_vec(),
        base: base.clone(),
        log,
        steps,
        models,
        model_obs,
        shape_at,
        live_violations: live,
        last_inserts_into_pruned: ins_pruned,
        last_removes_sampled: rem_sampled,
    }
}

// ---------------------------------------------------------------------------------------
// crash images

/// number of steps that had returned when the log had `p` records
fn acked(run: &Run, p: usize) -> usize {
    run.steps.iter().filter(|s| s.end <= p).count()
}

fn step_of(run: &Run, p: usize) -> String {
    // the step during which record p-1 was issued (or that returned exactly at p)
    run.steps
        .iter()
        .find(|s| p <= s.end)
        .map_or("after-close".into(), |s| s.name.clone())
}

/// Exploration switch (not used by the tiers): also treat `set_len` as a record that can be lost.
fn set_len_droppable() -> bool {
    std::env::var("C22_SETLEN_DROPPABLE").is_ok()
}

fn off_len(r: &Rec) -> Value {
    let (k, a, b) = r.shape();
    json!([k, a, b])
}

fn window_desc(run: &Run, w: &Window, mask: u64) -> Vec<String> {
    let mut out = vec![];
    let mut item = 0usize;
    for idx in w.durable_end..w.end {
        if item < w.items.len() && w.items[item] == idx {
            out.push(format!("{}{}", if mask >> item & 1 == 1 { "kept " } else { "LOST " }, run.log[idx].describe()));
            item += 1;
        } else {
            out.push(format!("     {}", run.log[idx].describe()));
        }
    }
    out
}

fn case_json(run: &Run, p: usize, mask: u64, w: &Window, fx: &Fx) -> Value {
    let syncs_before = run.log[..w.durable_end].iter().filter(|r| matches!(r, Rec::Sync { eventual: false })).count();
    let kept: Vec<Value> = w.items.iter().enumerate().filter(|(i, _)| mask >> i & 1 == 1).map(|(_, idx)| off_len(&run.log[*idx])).collect();
    let lost: Vec<Value> = w.items.iter().enumerate().filter(|(i, _)| mask >> i & 1 == 0).map(|(_, idx)| off_len(&run.log[*idx])).collect();
    let fixed = (w.durable_end..w.end).filter(|i| !w.items.contains(i) && !run.log[*i].is_sync()).count();
    json!({
        "start": run.start,
        "ops": run.ops,
        // identification of the crash scenario that is stable under reordering of the
        // writes inside a sync window:
        "window_ordinal": syncs_before,
        "kept": kept,
        "lost": lost,
        "set_lens_applied": fixed,
        // as seen in the recording run:
        "crash_point": p,
        "window": window_desc(run, w, mask),
        "step": step_of(run, p),
        "steps": run.steps,
        "headers": fx.a,
    })
}

enum Reopen {
    Panic(String),
    Failed(String),
    Opened(Obs),
}

fn reopen(img: Vec<u8>, fx: &Fx) -> Reopen {
    let be = LoggingBackend::from_image(img, false);
    let res = guard(|| -> Result<Obs, String> {
        let db = open_db(be.clone()).map_err(|e| format!("Database open: {e}"))?;
        block_on(async {
            let s = RedbStore::new(Arc::new(db)).await.map_err(|e| format!("RedbStore::new: {e}"))?;
            let o = observe(&s, fx).await;
            let _ = s.close().await;
            Ok(o)
        })
    });
    match res {
        Err(p) => Reopen::Panic(p),
        Ok(Err(e)) => Reopen::Failed(e),
        Ok(Ok(o)) => Reopen::Opened(o),
    }
}

/// Judges one crash scenario (crash point `p`, survivor set `mask` of `w = window(p)`) given
/// what reopening its image gave.  Returns (class, violation).
fn judge(run: &Run, p: usize, mask: u64, w: &Window, out: &Reopen, fx: &Fx) -> (String, Option<(String, String, Value)>) {
    let n_ack = acked(run, p);
    let dropped = w.items.len() as u32 - mask.count_ones();
    let phase = step_of(run, p);
    let pc = match phase.as_str() {
        "DbOpen" => "db-create",
        "StoreNew" => "store-new",
        "Close" | "after-close" => "close",
        _ => "op",
    };
    let at = format!("crash during {phase} (log prefix {p}, {dropped} of {} unsynced write(s) lost)", w.items.len());
    match out {
        Reopen::Panic(m) => (
            "panic".into(),
            Some(("panic-on-reopen".into(), format!("{at}: reopening panicked: {m}"), case_json(run, p, mask, w, fx))),
        ),
        Reopen::Failed(e) => {
            // redb creates a database file in synced stages and writes the magic number last; a
            // crash inside `Database::create` on an empty backend (before any RedbStore exists)
            // leaves a file that redb itself refuses.  That window belongs to redb's file
            // creation, not to an operation on the store: reported as its own class.
            if pc == "db-create" && run.start == Start::Empty {
                return ("db-create:refused-by-redb".into(), None);
            }
            (
                format!("{pc}:reopen-failed"),
                Some(("reopen-failed".into(), format!("{at}: reopen failed: {e}"), case_json(run, p, mask, w, fx))),
            )
        }
        Reopen::Opened(obs) => {
            let matches: Vec<usize> = (0..run.model_obs.len()).filter(|j| run.model_obs[*j] == *obs).collect();
            if let Some(j) = matches.iter().find(|j| **j >= n_ack) {
                if *j == n_ack {
                    // exactly the acknowledged steps (the step in flight is invisible or a no-op)
                    (format!("{pc}:recovered-old"), None)
                } else {
                    (format!("{pc}:recovered-new"), None)
                }
            } else if let Some(j) = matches.last() {
                (
                    format!("{pc}:lost-acknowledged"),
                    Some((
                        "acknowledged-operation-lost".into(),
                        format!("{at}: {n_ack} step(s) had returned ({}), but the recovered store equals the model after only {j} step(s): stored {}",
                            run.steps[..n_ack].iter().map(|s| s.name.clone()).collect::<Vec<_>>().join(","), obs.stored),
                        case_json(run, p, mask, w, fx),
                    )),
                )
            } else {
                (
                    format!("{pc}:inconsistent"),
                    Some((
                        "recovered-state-matches-no-prefix".into(),
                        format!("{at}: recovered observation equals no model prefix: {}", serde_json::to_string(obs).unwrap()),
                        case_json(run, p, mask, w, fx),
                    )),
                )
            }
        }
    }
}

/// One unit of parallel work: a sync window of a run and a chunk of survivor masks over the
/// writes of the *whole* window.  A mask whose highest survivor is write k stands for every
/// crash point of the window after write k: those scenarios leave the same image (they differ
/// only in how many `set_len`s were applied and in what had been acknowledged), so the image is
/// reopened once per (mask, set_lens applied) and judged for every such crash point.
struct Job {
    run: usize,
    /// first and last crash point of the window to judge
    p_lo: usize,
    p_hi: usize,
    masks: Vec<u64>,
}

fn jobs_for(run_idx: usize, run: &Run, from_p: usize, rep: &mut Report) -> Vec<Job> {
    let mut out = vec![];
    let l = run.log.len();
    let mut d = 0usize;
    while d <= l {
        // window [d, e]: e = index of the next non-eventual sync (or the end of the log)
        let e = (d..l).find(|i| matches!(run.log[*i], Rec::Sync { eventual: false })).unwrap_or(l);
        if e >= from_p {
            let w = window(&run.log, e, set_len_droppable());
            let (mut masks, exhaustive) = w.masks(SUBSET_CAP);
            if !exhaustive {
                rep.cap_hit(&format!("unsynced window of more than {SUBSET_CAP} writes: prefixes/single drops/single survivors/pairs only"));
            }
            // fewest survivors first = earliest crash points first
            masks.sort_by_key(|m| (64 - m.leading_zeros(), *m));
            for chunk in masks.chunks(24) {
                out.push(Job { run: run_idx, p_lo: d.max(from_p), p_hi: e, masks: chunk.to_vec() });
            }
        }
        d = e + 1;
    }
    out
}

fn run_job(job: &Job, runs: &[Run], fx: &Fx, rep: &mut Report) {
    let run = &runs[job.run];
    let wins: Vec<Window> = (job.p_lo..=job.p_hi).map(|p| window(&run.log, p, set_len_droppable())).collect();
    let durable = durable_image(&run.base, &run.log, &wins[0]);
    for &mask in &job.masks {
        let need = (64 - mask.leading_zeros()) as usize; // items the prefix must contain
        // group the crash points by the image they leave (= by non-droppable records applied)
        let mut i = 0usize;
        while i < wins.len() {
            if wins[i].items.len() < need {
                i += 1;
                continue;
            }
            let fixed = |w: &Window| (w.end - w.durable_end) - w.items.len();
            let mut j = i;
            while j + 1 < wins.len() && fixed(&wins[j + 1]) == fixed(&wins[i]) {
                j += 1;
            }
            let w0 = &wins[i];
            let img = materialise(&durable, &run.log, w0, mask);
            let out = reopen(img, fx);
            let key = fnv64(format!("{:?}/{:?}/{}/{mask}/{}", run.start, run.ops, w0.durable_end, fixed(w0)).as_bytes());
            let mut class = String::new();
            for w in &wins[i..=j] {
                rep.transitions += 1;
                let (c, v) = judge(run, w.end, mask, w, &out, fx);
                class = c;
                if let Some((k, what, case)) = v {
                    rep.violation(&k, what, case);
                    break;
                }
            }
            rep.case(key, &class, mask != 0 || !w0.items.is_empty());
            if rep.wants_sample()
                && (class == "op:recovered-new" || (mask % 5 == 2 && (mask.count_ones() as usize) < wins[j].items.len()))
            {
                if let Reopen::Opened(obs) = &out {
                    let w = &wins[j];
                    rep.sample(|| {
                        json!({"start": run.start, "ops": run.ops, "crash_point": w.end, "step": step_of(run, w.end),
                               "window": window_desc(run, w, mask), "acknowledged_steps": acked(run, w.end),
                               "class": class, "recovered_stored": obs.stored, "recovered_head": obs.head})
                    });
                }
            }
            i = j + 1;
        }
    }
}

fn histories(max_len: usize) -> Vec<Vec<Op>> {
    let mut out: Vec<Vec<Op>> = vec![vec![]];
    let mut level: Vec<Vec<Op>> = vec![vec![]];
    for _ in 0..max_len {
        let mut next = vec![];
        for h in &level {
            for o in ALPHABET {
                let mut n = h.clone();
                n.push(o);
                next.push(n);
            }
        }
        out.extend(next.iter().cloned());
        level = next;
    }
    out
}

fn replay(ctx: &Ctx, c: &Value, rep: &mut Report) {
    let fx = Fx::from_json(&c["headers"]);
    let start: Start = serde_json::from_value(c["start"].clone()).unwrap();
    let ops: Vec<Op> = serde_json::from_value(c["ops"].clone()).unwrap();
    let base = Arc::new(match start {
        Start::Empty => vec![],
        Start::Populated => build_populated(&fx),
    });
    let run = run_history(start, &ops, &base, &fx);
    for (k, what) in &run.live_violations {
        rep.violation(k, what.clone(), json!({"start": start, "ops": ops, "headers": fx.a}));
    }
    if c.get("window_ordinal").is_none() {
        return; // a live-run violation: nothing more to replay
    }
    let ord = c["window_ordinal"].as_u64().unwrap() as usize;
    let triples = |v: &Value| -> Vec<(u8, u64, u64)> {
        v.as_array().map(|a| a.iter().map(|t| (t[0].as_u64().unwrap() as u8, t[1].as_u64().unwrap(), t[2].as_u64().unwrap())).collect()).unwrap_or_default()
    };
    let kept = triples(&c["kept"]);
    let lost = triples(&c["lost"]);
    let fixed_want = c["set_lens_applied"].as_u64().unwrap_or(0) as usize;
    // locate the window
    let l = run.log.len();
    let mut d = 0usize;
    for _ in 0..ord {
        match (d..l).find(|i| matches!(run.log[*i], Rec::Sync { eventual: false })) {
            Some(e) => d = e + 1,
            None => machinery_error(&ctx.id, "replay: the log of this run has fewer sync windows than the recorded one"),
        }
    }
    let e = (d..l).find(|i| matches!(run.log[*i], Rec::Sync { eventual: false })).unwrap_or(l);
    // smallest crash point of the window whose prefix holds all the named writes
    let mut chosen: Option<(usize, u64)> = None;
    for p in d..=e {
        let w = window(&run.log, p, set_len_droppable());
        let mut used = vec![false; w.items.len()];
        let mut find = |t: &(u8, u64, u64)| -> Option<usize> {
            let i = (0..w.items.len()).find(|i| !used[*i] && run.log[w.items[*i]].shape() == *t)?;
            used[i] = true;
            Some(i)
        };
        let k: Option<Vec<usize>> = kept.iter().map(&mut find).collect();
        let lo: Option<Vec<usize>> = lost.iter().map(&mut find).collect();
        let fixed = (w.end - w.durable_end) - w.items.len();
        if let (Some(k), Some(_)) = (k, lo) {
            if fixed >= fixed_want {
                chosen = Some((p, k.iter().fold(0u64, |m, i| m | 1 << i)));
                break;
            }
        }
    }
    let Some((p, mask)) = chosen else {
        machinery_error(&ctx.id, "replay: the recorded writes do not occur in the corresponding sync window of this run");
    };
    let w = window(&run.log, p, set_len_droppable());
    println!("NOTE property=C22 replaying crash point {p} of this run: {:?}", window_desc(&run, &w, mask));
    let durable = durable_image(&run.base, &run.log, &w);
    let out = reopen(materialise(&durable, &run.log, &w, mask), &fx);
    let (class, v) = judge(&run, p, mask, &w, &out, &fx);
    rep.case(1, &class, true);
    if let Some((k, what, case)) = v {
        rep.violation(&k, what, case);
    }
}

fn main() {
    tune_malloc();
    let ctx = Ctx::from_args("C22").with_level("fault_enumeration");
    let max_len = ctx.tier.pick(2usize, 3usize);
    let wall_cap = Duration::from_secs(
        std::env::var("C22_WALL_CAP")
            .ok()
            .and_then(|s| s.parse().ok())
            .unwrap_or(ctx.tier.pick(150, 13 * 60)),
    );
    let mut rep = Report::new();
    rep.sample_cap = 12;

    if let Some(c) = ctx.replay_case() {
        replay(&ctx, &c, &mut rep);
        finish_c22(&ctx, rep);
    }

    let fx = Fx::fresh();
    let t0 = Instant::now();
    let bases: BTreeMap<Start, Arc<Vec<u8>>> = [
        (Start::Empty, Arc::new(vec![])),
        (Start::Populated, Arc::new(build_populated(&fx))),
    ]
    .into_iter()
    .collect();

    // 1. live runs (parallel, cheap)
    let mut plan: Vec<(Start, Vec<Op>)> = vec![];
    for h in histories(max_len) {
        for s in [Start::Empty, Start::Populated] {
            plan.push((s, h.clone()));
        }
    }
    plan.sort_by_key(|(s, h)| (h.len(), *s, h.clone()));
    let runs: Vec<Run> = plan
        .par_iter()
        .map(|(s, h)| run_history(*s, h, &bases[s], &fx))
        .collect();
    let index: HashMap<(Start, Vec<Op>), usize> =
        runs.iter().enumerate().map(|(i, r)| ((r.start, r.ops.clone()), i)).collect();
    rep.extra("histories", json!(runs.len()));
    let n_ip = runs.iter().filter(|r| r.last_inserts_into_pruned).count();
    let n_rs = runs.iter().filter(|r| r.last_removes_sampled).count();
    rep.extra("histories_whose_last_op_inserts_into_pruned_ranges", json!(n_ip));
    rep.extra("histories_whose_last_op_removes_a_sampled_height", json!(n_rs));
    if n_ip == 0 || n_rs == 0 {
        machinery_error(&ctx.id, "vacuous alphabet: no history re-inserts a pruned height / removes a sampled height");
    }
    rep.extra("live_run_wall_s", json!(t0.elapsed().as_secs_f64()));

    let mut writes_per_window: BTreeMap<usize, u64> = BTreeMap::new();
    let mut eventual_syncs = 0u64;
    let mut log_records = 0u64;
    for r in &runs {
        for (k, what) in &r.live_violations {
            rep.violation(k, what.clone(), json!({"start": r.start, "ops": r.ops, "headers": fx.a}));
        }
        log_records += r.log.len() as u64;
        let mut n = 0usize;
        for rec in &r.log {
            match rec {
                Rec::Sync { eventual } => {
                    if *eventual {
                        eventual_syncs += 1;
                    } else {
                        *writes_per_window.entry(n).or_insert(0) += 1;
                        n = 0;
                    }
                }
                Rec::Write { .. } => n += 1,
                Rec::SetLen(_) => {}
            }
        }
    }
    rep.extra("writes_per_sync_window_histogram", json!(writes_per_window));
    rep.extra("eventual_syncs_seen", json!(eventual_syncs));
    rep.extra("log_records_total", json!(log_records));
    if std::env::var("C22_DUMP").is_ok() {
        for r in runs.iter().filter(|r| r.ops.len() <= 1) {
            println!("== {:?} {:?} base={} steps={:?}", r.start, r.ops, r.base.len(), r.steps);
            for (i, rec) in r.log.iter().enumerate() {
                println!("   {i:3} {}", rec.describe());
            }
        }
    }

    // 2. jobs, level by level (shorter histories first)
    let mut differing_prefixes = 0u64;
    let stop = AtomicBool::new(false);
    let skipped = AtomicU64::new(0);
    let mut completed_len: i64 = -1;
    let mut planned = 0u64;
    for len in 0..=max_len {
        let mut jobs: Vec<Job> = vec![];
        for (i, r) in runs.iter().enumerate().filter(|(_, r)| r.ops.len() == len) {
            if r.steps.len() != r.ops.len() + 3 {
                continue; // live run failed; already a violation
            }
            let from_p = if len == 0 {
                0
            } else {
                let parent = &runs[index[&(r.start, r.ops[..len - 1].to_vec())]];
                // steps DbOpen, StoreNew, op_1..op_{len-1} are shared with the parent history
                let shared = 2 + len - 1;
                let same = parent.steps.len() >= shared
                    && (0..shared).all(|k| parent.shape_at[k] == r.shape_at[k] && parent.steps[k].end == r.steps[k].end);
                if same {
                    r.steps[shared - 1].end + 1
                } else {
                    differing_prefixes += 1;
                    0
                }
            };
            jobs.extend(jobs_for(i, r, from_p, &mut rep));
        }
        planned += jobs.iter().map(|j| j.masks.len() as u64).sum::<u64>();
        let level_rep = jobs
            .par_iter()
            .fold(Report::new, |mut rr, job| {
                if stop.load(Ordering::Relaxed) {
                    skipped.fetch_add(job.masks.len() as u64, Ordering::Relaxed);
                    return rr;
                }
                if t0.elapsed() > wall_cap {
                    stop.store(true, Ordering::Relaxed);
                    skipped.fetch_add(job.masks.len() as u64, Ordering::Relaxed);
                    return rr;
                }
                rr.sample_cap = 6;
                run_job(job, &runs, &fx, &mut rr);
                rr
            })
            .reduce(Report::new, Report::merge);
        let cap = rep.sample_cap;
        let mut level_rep = level_rep;
        // a few samples per history length; prefer scenarios of real operations
        level_rep.samples.sort_by_key(|s| match s["class"].as_str() {
            Some("op:recovered-new") => 0,
            Some(c) if c.starts_with("op:") => 1,
            _ => 2,
        });
        level_rep.samples.truncate(3);
        rep.merge_in(level_rep);
        rep.sample_cap = cap;
        if stop.load(Ordering::Relaxed) {
            break;
        }
        completed_len = len as i64;
    }
    if stop.load(Ordering::Relaxed) {
        rep.cap_hit(&format!(
            "wall cap {}s: histories up to length {completed_len} completed, {} lost-write subsets of longer histories skipped",
            wall_cap.as_secs(),
            skipped.load(Ordering::Relaxed)
        ));
    }
    rep.traces = rep.evaluations;
    rep.extra("completed_history_length", json!(completed_len));
    rep.extra("lost_write_subsets_planned_in_started_levels", json!(planned));
    rep.extra("histories_whose_prefix_log_shape_differed_from_parent", json!(differing_prefixes));
    rep.extra(
        "counting",
        json!("evaluations = crash images reopened with the real code (one per distinct image); transitions = crash scenarios (crash point, lost-write subset) judged against the model — scenarios of one sync window that leave the same image share the reopen"),
    );
    rep.max_depth = max_len as u64;
    // a live history written out
    if let Some(r) = runs.iter().find(|r| r.ops.len() == 1 && r.start == Start::Empty) {
        rep.samples.insert(
            0,
            json!({"history": {"start": r.start, "ops": r.ops}, "steps": r.steps,
                   "log": r.log.iter().map(|x| x.describe()).collect::<Vec<_>>()}),
        );
        rep.samples.truncate(12);
    }
    finish_c22(&ctx, rep);
}

fn finish_c22(ctx: &Ctx, rep: Report) -> ! {
    finish(
        ctx,
        rep,
        Spec {
            rule: "histories = all sequences of length <= 2 (quick) / <= 3 (thorough) over {insert 1..=2, insert 3..=3, insert 5..=6, insert 4..=4, insert 1..=1 (re-insertion after remove_height 1), remove_height 1, remove_height 2, mark_as_sampled 2, update_sampling_metadata 2 [c1,c2], refused unchecked insert [A4,A4]} x start in {empty backend, cleanly closed db holding 1..=2,5..=6 + metadata at 2 and height 3 pruned (inserted and removed)} — so inserts into pruned ranges (populated: insert 3..=3; remove_height 1 then insert 1..=1) and removals of sampled heights (mark_as_sampled 2 then remove_height 2) occur within length 2; each run = steps DbOpen, StoreNew, ops, Close on the real RedbStore over a logging StorageBackend; crash space = every log prefix p x every subset of the whole writes issued after the last non-eventual sync_data in the prefix (eventual syncs act as barriers; set_len applies at once); scenarios of one sync window that leave the same image are reopened once and judged for each of their crash points; windows of steps shared with the prefix history are enumerated under that history only (log shapes compared per window, order-insensitively); evaluation = one crash image reopened with redb::Database + RedbStore::new and totally observed (ranges, head, get_by_height/has_at/get_sampling_metadata for h in 0..=7, get_by_hash/has for A1..A6), compared with the reference-model states after j steps for all j >= number of steps returned before p; distinct = (start, history, window, subset, set_lens applied); non-trivial = the window holds at least one unsynced write",
            assumptions: &[
                "whole-write atomicity: a single StorageBackend::write is persisted entirely or not at all (no torn write)",
                "records issued before a completed non-eventual sync_data are durable; later writes survive in any subset; set_len (file length) takes effect at once and durably — only whole writes are lost, as in the property's quantifier",
                "a crash inside redb's own file creation (Database::create on an empty backend, before RedbStore::new runs) may leave a file redb refuses (magic number not yet written); counted as class db-create:refused-by-redb, not as a store failure",
                "the libp2p identity is not part of the observation",
                "header bytes come from ExtendedHeaderGenerator (random keys); a replay file carries the headers and names lost/kept writes by offset",
            ],
            required_classes: &["op:recovered-old", "op:recovered-new", "store-new:recovered-old", "close:recovered-old"],
            exhaustive: true,
        },
    )
}
