//! C22 — The persistent store survives crashes at any point.   (engine E4 `crash`)
//!
//! Every operation history (alphabet below, length <= 2 quick / <= 3 thorough, from an empty
//! backend and from a cleanly closed pre-populated database) is run once on the real
//! `RedbStore` over a `LoggingBackend`.  The run is a sequence of *steps*
//! `DbOpen, StoreNew, op_1 .. op_n, Close`; for each step the log index at which it returned
//! is recorded.  Then for every crash point (log prefix) and every subset of the records
//! issued after the last completed non-eventual `sync_data` of that prefix, the disk image is
//! materialised, reopened with the real `redb::Database` + `RedbStore::new`, and the total
//! observation of the recovered store is compared with the reference-model states.
//!
//! Crash points of a history's earlier steps are exactly the crash points of the last
//! operation of its prefix history (which is in the set); the check verifies that the log
//! shapes agree and enumerates only the windows of the last operation and of `Close`
//! (for the empty history: every window, i.e. database creation and `RedbStore::new`).
#[path = "../shared/redb_backend.rs"]
mod redb_backend;

use celestia_types::ExtendedHeader;
use celestia_types::test_utils::ExtendedHeaderGenerator;
use cid::Cid;
use lumina_node::store::{RedbStore, Store, StoreError, VerifiedExtendedHeaders};
use lv_core::*;
use rayon::prelude::*;
use redb_backend::*;
use serde::{Deserialize, Serialize};
use serde_json::{Value, json};
use std::collections::{BTreeMap, BTreeSet, HashMap};
use std::sync::Arc;
use std::sync::atomic::{AtomicBool, AtomicU64, Ordering};
use std::time::{Duration, Instant};

const HMAX: u64 = 7; // observation universe: heights 0..=7
const NHDR: usize = 6; // fixture chain A1..A6
const SUBSET_CAP: usize = 12;

// ---------------------------------------------------------------------------------------
// fixture

struct Fx {
    a: Vec<ExtendedHeader>, // a[h-1] = header at height h
    cids: Vec<Cid>,
}

fn mk_cid(tag: u8) -> Cid {
    let mh = multihash::Multihash::<64>::wrap(0x12, &[tag; 32]).unwrap();
    Cid::new_v1(0x55, mh)
}

impl Fx {
    fn fresh() -> Fx {
        let mut g = ExtendedHeaderGenerator::new();
        Fx {
            a: g.next_many(NHDR as u64),
            cids: vec![mk_cid(1), mk_cid(2)],
        }
    }
    fn from_json(v: &Value) -> Fx {
        Fx {
            a: serde_json::from_value(v.clone()).expect("headers in replay case"),
            cids: vec![mk_cid(1), mk_cid(2)],
        }
    }
    fn range(&self, a: u64, b: u64) -> Vec<ExtendedHeader> {
        self.a[(a - 1) as usize..=(b - 1) as usize].to_vec()
    }
    fn label(&self, h: &ExtendedHeader) -> String {
        match self.a.iter().position(|x| x == h) {
            Some(i) => format!("A{}", i + 1),
            None => format!("other@{}:{}", h.height(), h.hash()),
        }
    }
}

// ---------------------------------------------------------------------------------------
// operations and the reference model

#[derive(Clone, Copy, Debug, PartialEq, Eq, Hash, PartialOrd, Ord, Serialize, Deserialize)]
enum Op {
    Ins12,
    Ins3,
    Ins56,
    Ins4,
    Rem1,
    Mark2,
    Meta2,
    /// unchecked batch [A4, A4]: always refused, inside the write transaction (after the first
    /// table mutation when 4..=4 is insertable, by the constraints otherwise)
    RejIns,
}
const ALPHABET: [Op; 8] = [
    Op::Ins12,
    Op::Ins3,
    Op::Ins56,
    Op::Ins4,
    Op::Rem1,
    Op::Mark2,
    Op::Meta2,
    Op::RejIns,
];

#[derive(Clone, Copy, Debug, PartialEq, Eq, Hash, PartialOrd, Ord, Serialize, Deserialize)]
enum Start {
    Empty,
    /// cleanly closed database holding 1..=2 and 5..=6, metadata {c1} at height 2
    Populated,
}

#[derive(Clone, Debug, PartialEq, Eq, Default)]
struct Model {
    stored: BTreeSet<u64>,
    sampled: BTreeSet<u64>,
    pruned: BTreeSet<u64>,
    meta: BTreeMap<u64, Vec<usize>>,
}

impl Model {
    /// Insertion constraints as in the statement of C18: disjoint from what is stored, and the
    /// store is empty, or the range is above the head, or it touches a stored neighbour.
    fn insertable(&self, a: u64, b: u64) -> bool {
        if (a..=b).any(|h| self.stored.contains(&h)) {
            return false;
        }
        let head = self.stored.iter().next_back().copied();
        match head {
            None => true,
            Some(m) => a > m || self.stored.contains(&(a - 1)) || self.stored.contains(&(b + 1)),
        }
    }
    fn insert(&mut self, a: u64, b: u64) -> bool {
        if !self.insertable(a, b) {
            return false;
        }
        for h in a..=b {
            self.stored.insert(h);
            self.sampled.remove(&h);
            self.pruned.remove(&h);
        }
        true
    }
    fn add_meta(&mut self, h: u64, cids: &[usize]) -> bool {
        if !self.stored.contains(&h) {
            return false;
        }
        let e = self.meta.entry(h).or_default();
        for c in cids {
            if !e.contains(c) {
                e.push(*c);
            }
        }
        true
    }
    /// Applies `op`; returns whether the statement says it succeeds.
    fn apply(&mut self, op: Op) -> bool {
        match op {
            Op::Ins12 => self.insert(1, 2),
            Op::Ins3 => self.insert(3, 3),
            Op::Ins56 => self.insert(5, 6),
            Op::Ins4 => self.insert(4, 4),
            Op::Rem1 => {
                if !self.stored.remove(&1) {
                    return false;
                }
                self.sampled.remove(&1);
                self.pruned.insert(1);
                self.meta.remove(&1);
                true
            }
            Op::Mark2 => {
                if !self.stored.contains(&2) {
                    return false;
                }
                self.sampled.insert(2);
                true
            }
            Op::Meta2 => self.add_meta(2, &[0, 1]),
            Op::RejIns => false,
        }
    }
    fn populated() -> Model {
        let mut m = Model::default();
        assert!(m.insert(1, 2));
        assert!(m.insert(5, 6));
        assert!(m.add_meta(2, &[0]));
        m
    }
}

fn runs_of(s: &BTreeSet<u64>) -> Vec<(u64, u64)> {
    let mut out: Vec<(u64, u64)> = vec![];
    for &h in s {
        match out.last_mut() {
            Some(l) if l.1 + 1 == h => l.1 = h,
            _ => out.push((h, h)),
        }
    }
    out
}

/// The total observation of a store over the fixture universe.
#[derive(Clone, Debug, PartialEq, Eq, Serialize)]
struct Obs {
    stored: String,
    sampled: String,
    pruned: String,
    head_height: String,
    head: String,
    by_height: Vec<String>,
    has_at: Vec<bool>,
    meta: Vec<String>,
    by_hash: Vec<String>,
    has: Vec<bool>,
}

impl Model {
    fn obs(&self) -> Obs {
        let head = self.stored.iter().next_back().copied();
        Obs {
            stored: format!("{:?}", runs_of(&self.stored)),
            sampled: format!("{:?}", runs_of(&self.sampled)),
            pruned: format!("{:?}", runs_of(&self.pruned)),
            head_height: head.map_or("-".into(), |h| h.to_string()),
            head: head.map_or("-".into(), |h| format!("A{h}")),
            by_height: (0..=HMAX)
                .map(|h| if self.stored.contains(&h) { format!("A{h}") } else { "-".into() })
                .collect(),
            has_at: (0..=HMAX).map(|h| self.stored.contains(&h)).collect(),
            meta: (0..=HMAX)
                .map(|h| {
                    if !self.stored.contains(&h) {
                        "notfound".into()
                    } else {
                        match self.meta.get(&h) {
                            Some(c) => format!("cids:{c:?}"),
                            None => "none".into(),
                        }
                    }
                })
                .collect(),
            by_hash: (1..=NHDR as u64)
                .map(|h| if self.stored.contains(&h) { format!("A{h}") } else { "-".into() })
                .collect(),
            has: (1..=NHDR as u64).map(|h| self.stored.contains(&h)).collect(),
        }
    }
}

fn err_s<T>(r: Result<T, StoreError>, ok: impl FnOnce(T) -> String) -> String {
    match r {
        Ok(v) => ok(v),
        Err(StoreError::NotFound) => "-".into(),
        Err(e) => format!("err:{e}"),
    }
}

fn ranges_s(r: Result<lumina_node::block_ranges::BlockRanges, StoreError>) -> String {
    err_s(r, |b| {
        let v: Vec<(u64, u64)> = b.as_ref().iter().map(|r| (*r.start(), *r.end())).collect();
        format!("{v:?}")
    })
}

async fn observe(s: &RedbStore, fx: &Fx) -> Obs {
    let mut by_height = vec![];
    let mut has_at = vec![];
    let mut meta = vec![];
    for h in 0..=HMAX {
        by_height.push(err_s(s.get_by_height(h).await, |x| fx.label(&x)));
        has_at.push(s.has_at(h).await);
        meta.push(match s.get_sampling_metadata(h).await {
            Ok(Some(m)) => {
                let idx: Vec<String> = m
                    .cids
                    .iter()
                    .map(|c| fx.cids.iter().position(|x| x == c).map_or("?".into(), |i| i.to_string()))
                    .collect();
                format!("cids:[{}]", idx.join(", "))
            }
            Ok(None) => "none".into(),
            Err(StoreError::NotFound) => "notfound".into(),
            Err(e) => format!("err:{e}"),
        });
    }
    let mut by_hash = vec![];
    let mut has = vec![];
    for x in &fx.a {
        by_hash.push(err_s(s.get_by_hash(&x.hash()).await, |y| fx.label(&y)));
        has.push(s.has(&x.hash()).await);
    }
    Obs {
        stored: ranges_s(s.get_stored_header_ranges().await),
        sampled: ranges_s(s.get_sampled_ranges().await),
        pruned: ranges_s(s.get_pruned_ranges().await),
        head_height: err_s(s.head_height().await, |h| h.to_string()),
        head: err_s(s.get_head().await, |x| fx.label(&x)),
        by_height,
        has_at,
        meta,
        by_hash,
        has,
    }
}

async fn apply_real(s: &RedbStore, fx: &Fx, op: Op) -> Result<(), StoreError> {
    match op {
        Op::Ins12 => s.insert(fx.range(1, 2)).await,
        Op::Ins3 => s.insert(fx.range(3, 3)).await,
        Op::Ins56 => s.insert(fx.range(5, 6)).await,
        Op::Ins4 => s.insert(fx.range(4, 4)).await,
        Op::Rem1 => s.remove_height(1).await,
        Op::Mark2 => s.mark_as_sampled(2).await,
        Op::Meta2 => s.update_sampling_metadata(2, vec![fx.cids[0], fx.cids[1]]).await,
        Op::RejIns => {
            let h = fx.a[3].clone();
            // SAFETY: deliberately not a verified range; the store must refuse it.
            let v = unsafe { VerifiedExtendedHeaders::new_unchecked(vec![h.clone(), h]) };
            s.insert(v).await
        }
    }
}

thread_local! {
    static RT: tokio::runtime::Runtime = tokio::runtime::Builder::new_current_thread()
        .max_blocking_threads(2)
        .build()
        .unwrap();
}

fn block_on<T>(f: impl std::future::Future<Output = T>) -> T {
    RT.with(|rt| rt.block_on(f))
}

fn open_db(b: LoggingBackend) -> Result<redb::Database, String> {
    redb::Database::builder().create_with_backend(b).map_err(|e| e.to_string())
}

// ---------------------------------------------------------------------------------------
// the live run of one history

#[derive(Clone, Debug, Serialize)]
struct StepInfo {
    name: String,
    /// log length when the step returned
    end: usize,
    ok: bool,
}

struct Run {
    start: Start,
    ops: Vec<Op>,
    base: Arc<Vec<u8>>,
    log: Vec<Rec>,
    steps: Vec<StepInfo>,
    /// models[j] = reference state after j steps (models[0] = state of the base image)
    models: Vec<Model>,
    model_obs: Vec<Obs>,
    /// shape hash of log[..steps[i].end] for every step i
    shape_at: Vec<u64>,
    live_violations: Vec<(String, String)>,
}

fn shape_hash(log: &[Rec]) -> u64 {
    let mut bytes = Vec::with_capacity(log.len() * 17);
    for r in log {
        let (k, a, b) = r.shape();
        bytes.push(k);
        bytes.extend_from_slice(&a.to_le_bytes());
        bytes.extend_from_slice(&b.to_le_bytes());
    }
    fnv64(&bytes)
}

/// Builds the cleanly closed pre-populated base image (not logged, not part of the crash space).
fn build_populated(fx: &Fx) -> Vec<u8> {
    let be = LoggingBackend::new();
    let db = open_db(be.clone()).expect("create base db");
    block_on(async {
        let s = RedbStore::new(Arc::new(db)).await.expect("base store");
        s.insert(fx.range(1, 2)).await.expect("base insert 1..=2");
        s.insert(fx.range(5, 6)).await.expect("base insert 5..=6");
        s.update_sampling_metadata(2, vec![fx.cids[0]]).await.expect("base meta");
        let o = observe(&s, fx).await;
        assert_eq!(o, Model::populated().obs(), "base image disagrees with the model");
        s.close().await.expect("close");
    });
    be.image()
}

fn run_history(start: Start, ops: &[Op], base: &Arc<Vec<u8>>, fx: &Fx) -> Run {
    let be = LoggingBackend::from_image(base.as_ref().clone(), true);
    let m0 = match start {
        Start::Empty => Model::default(),
        Start::Populated => Model::populated(),
    };
    let mut steps: Vec<StepInfo> = vec![];
    let mut models = vec![m0.clone()];
    let mut live: Vec<(String, String)> = vec![];
    let mut cur = m0;

    let r = guard(|| {
        let db = match open_db(be.clone()) {
            Ok(db) => db,
            Err(e) => {
                live.push(("live-open-failed".into(), format!("Database open failed on the live run: {e}")));
                return;
            }
        };
        steps.push(StepInfo { name: "DbOpen".into(), end: be.log_len(), ok: true });
        models.push(cur.clone());
        block_on(async {
            let s = match RedbStore::new(Arc::new(db)).await {
                Ok(s) => s,
                Err(e) => {
                    live.push(("live-open-failed".into(), format!("RedbStore::new failed on the live run: {e}")));
                    return;
                }
            };
            steps.push(StepInfo { name: "StoreNew".into(), end: be.log_len(), ok: true });
            models.push(cur.clone());
            for op in ops {
                let got = apply_real(&s, fx, *op).await;
                let want = cur.apply(*op);
                steps.push(StepInfo { name: format!("{op:?}"), end: be.log_len(), ok: got.is_ok() });
                models.push(cur.clone());
                if got.is_ok() != want {
                    live.push((
                        "live-result-differs-from-model".into(),
                        format!("{op:?}: model says ok={want}, store returned {got:?}"),
                    ));
                }
                let o = observe(&s, fx).await;
                if o != cur.obs() {
                    live.push((
                        "live-state-differs-from-model".into(),
                        format!("after {op:?}: store {o:?} model {:?}", cur.obs()),
                    ));
                }
            }
            let _ = s.close().await;
        });
        steps.push(StepInfo { name: "Close".into(), end: be.log_len(), ok: true });
        models.push(cur.clone());
    });
    if let Err(p) = r {
        live.push(("panic".into(), format!("live run panicked: {p}")));
    }
    let log = be.log();
    let shape_at = steps.iter().map(|s| shape_hash(&log[..s.end])).collect();
    let model_obs = models.iter().map(|m| m.obs()).collect();
    Run {
        start,
        ops: ops.to_vec(),
        base: base.clone(),
        log,
        steps,
        models,
        model_obs,
        shape_at,
        live_violations: live,
    }
}

// ---------------------------------------------------------------------------------------
// crash images

/// number of steps that had returned when the log had `p` records
fn acked(run: &Run, p: usize) -> usize {
    run.steps.iter().filter(|s| s.end <= p).count()
}

fn step_of(run: &Run, p: usize) -> String {
    // the step during which record p-1 was issued (or that returned exactly at p)
    run.steps
        .iter()
        .find(|s| p <= s.end)
        .map_or("after-close".into(), |s| s.name.clone())
}

fn case_json(run: &Run, p: usize, mask: u64, w: &Window, fx: &Fx) -> Value {
    json!({
        "start": run.start,
        "ops": run.ops,
        "crash_point": p,
        "mask": mask,
        "log_shape": format!("{:016x}", shape_hash(&run.log)),
        "window": w.items.iter().enumerate().map(|(i, idx)| {
            format!("{}{}", if mask >> i & 1 == 1 { "kept " } else { "LOST " }, run.log[*idx].describe())
        }).collect::<Vec<_>>(),
        "durable_end": w.durable_end,
        "step": step_of(run, p),
        "steps": run.steps,
        "headers": fx.a,
    })
}

/// Reopens one crash image and judges it.  Returns the outcome class.
fn eval_image(run: &Run, p: usize, mask: u64, w: &Window, durable: &[u8], fx: &Fx, rep: &mut Report) {
    let img = materialise(durable, &run.log, w, mask);
    let n_ack = acked(run, p);
    let dropped = w.items.len() as u32 - mask.count_ones();
    let key = fnv64(format!("{:?}/{:?}/{p}/{mask}", run.start, run.ops).as_bytes());
    let nontrivial = !w.items.is_empty();
    let phase = step_of(run, p);
    let phase_class = match phase.as_str() {
        "DbOpen" => "db-create",
        "StoreNew" => "store-new",
        "Close" | "after-close" => "close",
        _ => "op",
    };

    let be = LoggingBackend::from_image(img, false);
    let res = guard(|| -> Result<Obs, String> {
        let db = open_db(be.clone()).map_err(|e| format!("Database open: {e}"))?;
        block_on(async {
            let s = RedbStore::new(Arc::new(db)).await.map_err(|e| format!("RedbStore::new: {e}"))?;
            let o = observe(&s, fx).await;
            let _ = s.close().await;
            Ok(o)
        })
    });
    let obs = match res {
        Err(panic) => {
            rep.case(key, "panic", nontrivial);
            rep.violation(
                "panic-on-reopen",
                format!("reopening the crash image panicked: {panic}"),
                case_json(run, p, mask, w, fx),
            );
            return;
        }
        Ok(Err(e)) => {
            // redb creates a database file in two synced stages and writes the magic number
            // last; a crash inside `Database::create` (before any RedbStore exists) leaves a
            // file that redb itself refuses.  That window belongs to redb's file creation, not
            // to an operation on the store, and is reported as its own class.
            if phase_class == "db-create" && run.start == Start::Empty {
                rep.case(key, "db-create:refused-by-redb", nontrivial);
                return;
            }
            rep.case(key, &format!("{phase_class}:reopen-failed"), nontrivial);
            rep.violation(
                "reopen-failed",
                format!("crash during {phase} (log prefix {p}, {dropped} unsynced record(s) lost): reopen failed: {e}"),
                case_json(run, p, mask, w, fx),
            );
            return;
        }
        Ok(Ok(o)) => o,
    };
    // which model prefixes does the recovered state equal?
    let matches: Vec<usize> = (0..run.model_obs.len()).filter(|j| run.model_obs[*j] == obs).collect();
    if let Some(j) = matches.iter().find(|j| **j >= n_ack) {
        let class = if *j == n_ack {
            // exactly the acknowledged steps (the step in flight is invisible or a no-op)
            format!("{phase_class}:recovered-old")
        } else {
            format!("{phase_class}:recovered-new")
        };
        rep.case(key, &class, nontrivial);
        if rep.wants_sample() && (mask % 7 == 3 || p % 11 == 5) && dropped > 0 {
            rep.sample(|| {
                json!({"start": run.start, "ops": run.ops, "crash_point": p, "step": phase,
                       "window": w.items.iter().enumerate().map(|(i, idx)| format!("{}{}", if mask >> i & 1 == 1 {"kept "} else {"LOST "}, run.log[*idx].describe())).collect::<Vec<_>>(),
                       "acknowledged_steps": n_ack, "recovered_equals_model_prefix": j,
                       "recovered_stored": obs.stored})
            });
        }
    } else if let Some(j) = matches.last() {
        rep.case(key, &format!("{phase_class}:lost-acknowledged"), nontrivial);
        rep.violation(
            "acknowledged-operation-lost",
            format!(
                "crash during {phase} (log prefix {p}, {dropped} unsynced record(s) lost): {n_ack} step(s) had returned, but the recovered store equals the model after only {j} step(s): stored {}",
                obs.stored
            ),
            case_json(run, p, mask, w, fx),
        );
    } else {
        rep.case(key, &format!("{phase_class}:inconsistent"), nontrivial);
        rep.violation(
            "recovered-state-matches-no-prefix",
            format!(
                "crash during {phase} (log prefix {p}, {dropped} unsynced record(s) lost): recovered observation equals no model prefix: {}",
                serde_json::to_string(&obs).unwrap()
            ),
            case_json(run, p, mask, w, fx),
        );
    }
}

/// Exploration switch (not used by the tiers): also treat `set_len` as a record that can be lost.
fn set_len_droppable() -> bool {
    std::env::var("C22_SETLEN_DROPPABLE").is_ok()
}

/// One unit of parallel work: a crash point of a run and a chunk of survivor masks.
struct Job {
    run: usize,
    p: usize,
    w: Window,
    masks: Vec<u64>,
}

fn jobs_for(run_idx: usize, run: &Run, from_p: usize, rep: &mut Report) -> Vec<Job> {
    let mut out = vec![];
    for p in from_p..=run.log.len() {
        let w = window(&run.log, p, set_len_droppable());
        let (mut masks, exhaustive) = w.masks(SUBSET_CAP);
        if !exhaustive {
            rep.cap_hit(&format!("unsynced window of more than {SUBSET_CAP} records: prefixes/single drops/single survivors/pairs only"));
        }
        // fewest losses first
        masks.sort_by_key(|m| (w.items.len() as u32 - m.count_ones(), *m));
        for chunk in masks.chunks(32) {
            out.push(Job { run: run_idx, p, w: w.clone(), masks: chunk.to_vec() });
        }
    }
    out
}

fn run_job(job: &Job, runs: &[Run], fx: &Fx, rep: &mut Report) {
    let run = &runs[job.run];
    let durable = durable_image(&run.base, &run.log, &job.w);
    for m in &job.masks {
        eval_image(run, job.p, *m, &job.w, &durable, fx, rep);
    }
}

fn histories(max_len: usize) -> Vec<Vec<Op>> {
    let mut out: Vec<Vec<Op>> = vec![vec![]];
    let mut level: Vec<Vec<Op>> = vec![vec![]];
    for _ in 0..max_len {
        let mut next = vec![];
        for h in &level {
            for o in ALPHABET {
                let mut n = h.clone();
                n.push(o);
                next.push(n);
            }
        }
        out.extend(next.iter().cloned());
        level = next;
    }
    out
}

fn main() {
    let ctx = Ctx::from_args("C22").with_level("fault_enumeration");
    let max_len = ctx.tier.pick(2usize, 3usize);
    let wall_cap = Duration::from_secs(
        std::env::var("C22_WALL_CAP")
            .ok()
            .and_then(|s| s.parse().ok())
            .unwrap_or(ctx.tier.pick(50, 13 * 60)),
    );
    let mut rep = Report::new();
    rep.sample_cap = 8;

    if let Some(c) = ctx.replay_case() {
        let fx = Fx::from_json(&c["headers"]);
        let start: Start = serde_json::from_value(c["start"].clone()).unwrap();
        let ops: Vec<Op> = serde_json::from_value(c["ops"].clone()).unwrap();
        let p = c["crash_point"].as_u64().unwrap() as usize;
        let mask = c["mask"].as_u64().unwrap();
        let base = Arc::new(match start {
            Start::Empty => vec![],
            Start::Populated => build_populated(&fx),
        });
        let run = run_history(start, &ops, &base, &fx);
        for (k, what) in &run.live_violations {
            rep.violation(k, what.clone(), json!({"start": start, "ops": ops, "headers": fx.a}));
        }
        if p > run.log.len() {
            machinery_error(&ctx.id, &format!("replay: crash point {p} beyond the log ({} records)", run.log.len()));
        }
        let shape = format!("{:016x}", shape_hash(&run.log));
        if c["log_shape"].as_str().is_some_and(|s| s != shape) {
            println!("NOTE property=C22 log shape differs from the recorded one ({shape}); crash point indices may have shifted");
        }
        let w = window(&run.log, p, set_len_droppable());
        let durable = durable_image(&run.base, &run.log, &w);
        eval_image(&run, p, mask, &w, &durable, &fx, &mut rep);
        finish_c22(&ctx, rep, max_len);
    }

    let fx = Fx::fresh();
    let t0 = Instant::now();
    let bases: BTreeMap<Start, Arc<Vec<u8>>> = [
        (Start::Empty, Arc::new(vec![])),
        (Start::Populated, Arc::new(build_populated(&fx))),
    ]
    .into_iter()
    .collect();

    // 1. live runs (parallel, cheap)
    let mut plan: Vec<(Start, Vec<Op>)> = vec![];
    for h in histories(max_len) {
        for s in [Start::Empty, Start::Populated] {
            plan.push((s, h.clone()));
        }
    }
    plan.sort_by_key(|(s, h)| (h.len(), *s, h.clone()));
    let runs: Vec<Run> = plan
        .par_iter()
        .map(|(s, h)| run_history(*s, h, &bases[s], &fx))
        .collect();
    let index: HashMap<(Start, Vec<Op>), usize> =
        runs.iter().enumerate().map(|(i, r)| ((r.start, r.ops.clone()), i)).collect();
    rep.extra("histories", json!(runs.len()));
    rep.extra("live_run_wall_s", json!(t0.elapsed().as_secs_f64()));

    let mut writes_per_commit: BTreeMap<usize, u64> = BTreeMap::new();
    let mut eventual_syncs = 0u64;
    for r in &runs {
        for (k, what) in &r.live_violations {
            rep.violation(k, what.clone(), json!({"start": r.start, "ops": r.ops, "headers": fx.a, "crash_point": 0, "mask": 0}));
        }
        let mut n = 0usize;
        for rec in &r.log {
            match rec {
                Rec::Sync { eventual } => {
                    if *eventual {
                        eventual_syncs += 1;
                    }
                    *writes_per_commit.entry(n).or_insert(0) += 1;
                    n = 0;
                }
                _ => n += 1,
            }
        }
    }
    rep.extra("records_between_syncs_histogram", json!(writes_per_commit));
    rep.extra("eventual_syncs_seen", json!(eventual_syncs));
    if std::env::var("C22_DUMP").is_ok() {
        for r in runs.iter().filter(|r| r.ops.len() <= 1) {
            println!("== {:?} {:?} base={} steps={:?}", r.start, r.ops, r.base.len(), r.steps);
            for (i, rec) in r.log.iter().enumerate() {
                println!("   {i:3} {}", rec.describe());
            }
        }
    }

    // 2. jobs, level by level (shorter histories first)
    let mut nondeterministic_prefixes = 0u64;
    let stop = AtomicBool::new(false);
    let skipped = AtomicU64::new(0);
    let mut completed_len: i64 = -1;
    let mut planned = 0u64;
    for len in 0..=max_len {
        let mut jobs: Vec<Job> = vec![];
        for (i, r) in runs.iter().enumerate().filter(|(_, r)| r.ops.len() == len) {
            if r.steps.len() != r.ops.len() + 3 {
                continue; // live run failed; already a violation
            }
            let from_p = if len == 0 {
                0
            } else {
                let parent = &runs[index[&(r.start, r.ops[..len - 1].to_vec())]];
                // steps DbOpen, StoreNew, op_1..op_{len-1} are shared with the parent
                let shared = 2 + len - 1;
                let same = parent.steps.len() >= shared
                    && (0..shared).all(|k| parent.shape_at[k] == r.shape_at[k] && parent.steps[k].end == r.steps[k].end);
                if same {
                    r.steps[shared - 1].end + 1
                } else {
                    nondeterministic_prefixes += 1;
                    0
                }
            };
            jobs.extend(jobs_for(i, r, from_p.min(r.log.len() + 1), &mut rep));
        }
        planned += jobs.iter().map(|j| j.masks.len() as u64).sum::<u64>();
        let level_rep = jobs
            .par_iter()
            .fold(Report::new, |mut rr, job| {
                if stop.load(Ordering::Relaxed) {
                    skipped.fetch_add(job.masks.len() as u64, Ordering::Relaxed);
                    return rr;
                }
                if t0.elapsed() > wall_cap {
                    stop.store(true, Ordering::Relaxed);
                    skipped.fetch_add(job.masks.len() as u64, Ordering::Relaxed);
                    return rr;
                }
                rr.sample_cap = 2;
                run_job(job, &runs, &fx, &mut rr);
                rr
            })
            .reduce(Report::new, Report::merge);
        let cap = rep.sample_cap;
        rep.merge_in(level_rep);
        rep.sample_cap = cap;
        if stop.load(Ordering::Relaxed) {
            break;
        }
        completed_len = len as i64;
    }
    if stop.load(Ordering::Relaxed) {
        rep.cap_hit(&format!(
            "wall cap {}s: histories up to length {completed_len} completed, {} crash images of longer histories skipped",
            wall_cap.as_secs(),
            skipped.load(Ordering::Relaxed)
        ));
    }
    rep.extra("completed_history_length", json!(completed_len));
    rep.extra("crash_images_planned_in_started_levels", json!(planned));
    rep.extra("histories_whose_prefix_log_shape_differed_from_parent", json!(nondeterministic_prefixes));
    rep.max_depth = max_len as u64;
    // a live history written out
    if let Some(r) = runs.iter().find(|r| r.ops.len() == 1 && r.start == Start::Empty) {
        rep.samples.insert(
            0,
            json!({"history": {"start": r.start, "ops": r.ops}, "steps": r.steps,
                   "log": r.log.iter().map(|x| x.describe()).collect::<Vec<_>>()}),
        );
        rep.samples.truncate(8);
    }
    finish_c22(&ctx, rep, max_len);
}

fn finish_c22(ctx: &Ctx, rep: Report, _max_len: usize) -> ! {
    finish(
        ctx,
        rep,
        Spec {
            rule: "histories = all sequences of length <= 2 (quick) / <= 3 (thorough) over {insert 1..=2, insert 3..=3, insert 5..=6, insert 4..=4, remove_height 1, mark_as_sampled 2, update_sampling_metadata 2 [c1,c2], refused unchecked insert [A4,A4]} x start in {empty backend, cleanly closed db holding 1..=2,5..=6 + metadata}; each run = steps DbOpen, StoreNew, ops, Close on the real RedbStore over a logging StorageBackend; crash space = every log prefix p x every subset of the whole writes issued after the last non-eventual sync_data in the prefix (eventual syncs act as barriers; set_len applies at once); windows of steps shared with the prefix history are enumerated under that history only (log shapes compared), so each (pre-state, operation, crash point, lost-write subset) is reopened once; evaluation = one crash image reopened with redb::Database + RedbStore::new and totally observed (ranges, head, get_by_height/has_at/get_sampling_metadata for h in 0..=7, get_by_hash/has for A1..A6) and compared with the reference-model states after j steps for all j >= number of steps returned before p; distinct = (start, history, p, subset); non-trivial = the unsynced window of the crash point is non-empty",
            assumptions: &[
                "whole-write atomicity: a single StorageBackend::write is persisted entirely or not at all (no torn write)",
                "records issued before a completed non-eventual sync_data are durable; later writes survive in any subset; set_len (file length) takes effect at once and durably — only whole writes are lost, as in the property's quantifier",
                "a crash inside redb's own file creation (Database::create on an empty backend, before RedbStore::new runs) may leave a file redb refuses (magic number not yet written); counted as class db-create:refused-by-redb, not as a store failure",
                "the libp2p identity is not part of the observation",
                "header bytes come from ExtendedHeaderGenerator (random keys); a replay file carries the headers",
            ],
            required_classes: &["op:recovered-old", "op:recovered-new", "store-new:recovered-old", "close:recovered-old"],
            exhaustive: true,
        },
    )
}
