//! C42 — Task join handles resolve exactly when the task ends.   (engine E3, all event orders)
//!
//! System: the real `lumina_utils::executor::{spawn, spawn_cancellable, JoinHandle}` and
//! `lumina_utils::token::{Token, TokenTriggerDropGuard}` on a tokio current-thread runtime with
//! the clock paused.  Task bodies wait on a harness gate (oneshot) and return or panic when
//! it opens.  Environment events, per task: the gate opens (return), the gate opens (panic),
//! the cancellation token is cancelled, a first / second joiner starts, the handle is
//! dropped; for the raw-token subsystem (the mechanism under `spawn`): `trigger()`, the
//! drop guard is disarmed, the drop guard is dropped, a first / second waiter starts.
//! *Every* order of the enabled events is executed (sequences up to the stated length; the
//! oracle is evaluated after every event, so every shorter sequence is covered as a prefix).
//! After each event the system is settled (`sleep(1 ms)` on the paused clock returns only
//! when every other task is blocked).
//!
//! Oracle (reference model written from the statement): a joiner is pending while its
//! task's body has neither returned, panicked nor been cancelled, and has resolved in the
//! settled state after any of those; the body of a cancellable task is dropped once its
//! token is cancelled (and never completes afterwards); a token fires iff it was triggered
//! or an armed drop guard was dropped.
use lumina_utils::executor::{JoinHandle, spawn, spawn_cancellable};
use lumina_utils::token::{Token, TokenTriggerDropGuard};
use lv_core::*;
use rayon::prelude::*;
use serde::{Deserialize, Serialize};
use serde_json::json;
use std::collections::HashSet;
use std::sync::atomic::{AtomicBool, Ordering};
use std::sync::{Arc, Mutex};
use std::time::{Duration, Instant};
use tokio::sync::oneshot;

// tokio_util's CancellationToken is what `spawn_cancellable` takes; lumina-utils re-exports nothing,
// so the harness names it through the same crate version.
use tokio_util::sync::CancellationToken;

#[derive(Clone, Copy, Debug, Serialize, Deserialize, PartialEq, Eq, PartialOrd, Ord, Hash)]
enum Kind {
    /// `spawn(body)`
    Plain,
    /// `spawn_cancellable(token, body)`
    Cancellable,
    /// `spawn_cancellable(token, body)` with the token cancelled before the spawn
    PreCancelled,
    /// a raw `Token` with one `TokenTriggerDropGuard` (no task)
    TokenGuard,
}

#[derive(Clone, Copy, Debug, Serialize, Deserialize, PartialEq, Eq, Hash)]
enum Ev {
    Open(usize),
    Panic(usize),
    Cancel(usize),
    Join1(usize),
    Join2(usize),
    DropHandle(usize),
    Trigger(usize),
    Disarm(usize),
    DropGuard(usize),
}

#[derive(Clone, Copy, Debug, PartialEq, Eq, Hash)]
enum Gate {
    Unused,
    Opened,
    Panicked,
}

/// Reference model of one task, from the statement.
#[derive(Clone, Debug, PartialEq, Eq, Hash)]
struct MTask {
    kind: Kind,
    gate: Gate,
    cancelled: bool,
    /// how the task ended: None while running
    ended: Option<&'static str>,
    /// the body returned normally
    body_finished: bool,
    j1: bool,
    j2: bool,
    handle_dropped: bool,
    // TokenGuard
    guard_alive: bool,
    disarmed: bool,
}

impl MTask {
    fn new(kind: Kind) -> MTask {
        MTask {
            kind,
            gate: Gate::Unused,
            cancelled: kind == Kind::PreCancelled,
            ended: if kind == Kind::PreCancelled { Some("precancelled") } else { None },
            body_finished: false,
            j1: false,
            j2: false,
            handle_dropped: false,
            guard_alive: kind == Kind::TokenGuard,
            disarmed: false,
        }
    }

    fn enabled(&self, t: usize) -> Vec<Ev> {
        let mut v = vec![];
        match self.kind {
            Kind::TokenGuard => {
                if self.ended != Some("triggered") {
                    v.push(Ev::Trigger(t));
                }
                if self.guard_alive && !self.disarmed {
                    v.push(Ev::Disarm(t));
                }
                if self.guard_alive {
                    v.push(Ev::DropGuard(t));
                }
            }
            _ => {
                if self.gate == Gate::Unused {
                    v.push(Ev::Open(t));
                    v.push(Ev::Panic(t));
                }
                if self.kind == Kind::Cancellable && !self.cancelled {
                    v.push(Ev::Cancel(t));
                }
                if !self.handle_dropped {
                    v.push(Ev::DropHandle(t));
                }
            }
        }
        if !self.handle_dropped {
            if !self.j1 {
                v.push(Ev::Join1(t));
            } else if !self.j2 {
                v.push(Ev::Join2(t));
            }
        }
        v
    }

    fn apply(&mut self, ev: Ev) {
        match ev {
            Ev::Open(_) => {
                self.gate = Gate::Opened;
                if self.ended.is_none() {
                    self.ended = Some("returned");
                    self.body_finished = true;
                }
            }
            Ev::Panic(_) => {
                self.gate = Gate::Panicked;
                if self.ended.is_none() {
                    self.ended = Some("panicked");
                }
            }
            Ev::Cancel(_) => {
                self.cancelled = true;
                if self.ended.is_none() {
                    self.ended = Some("cancelled");
                }
            }
            Ev::Join1(_) => self.j1 = true,
            Ev::Join2(_) => self.j2 = true,
            Ev::DropHandle(_) => self.handle_dropped = true,
            // (after a firing guard drop an explicit trigger changes nothing observable)
            Ev::Trigger(_) => self.ended = Some("triggered"),
            Ev::Disarm(_) => self.disarmed = true,
            Ev::DropGuard(_) => {
                self.guard_alive = false;
                if !self.disarmed && self.ended.is_none() {
                    self.ended = Some("guard-dropped");
                }
            }
        }
    }
}

fn task_of(ev: Ev) -> usize {
    match ev {
        Ev::Open(t) | Ev::Panic(t) | Ev::Cancel(t) | Ev::Join1(t) | Ev::Join2(t) | Ev::DropHandle(t) | Ev::Trigger(t) | Ev::Disarm(t) | Ev::DropGuard(t) => t,
    }
}

// ---------------------------------------------------------------------------------------
// the real system

/// Lives inside the task body.  When it is destroyed (the body returned, unwound, or was
/// dropped on cancellation) it records that, and also whether the task's join handle could
/// already be joined at that instant: `join()` must resolve only after the task has ended,
/// i.e. not while the task's state is still being torn down (observable from another
/// thread on a multi-thread runtime; detected here deterministically on one thread).
struct Sentinel {
    dropped: Arc<AtomicBool>,
    handle_slot: Arc<std::sync::OnceLock<std::sync::Weak<JoinHandle>>>,
    join_early: Arc<AtomicBool>,
}
impl Drop for Sentinel {
    fn drop(&mut self) {
        if let Some(h) = self.handle_slot.get().and_then(|w| w.upgrade()) {
            if futures::FutureExt::now_or_never(h.join()).is_some() {
                self.join_early.store(true, Ordering::SeqCst);
            }
        }
        self.dropped.store(true, Ordering::SeqCst);
    }
}

enum GateMsg {
    Return,
    Panic,
}

struct Joiner {
    task: tokio::task::JoinHandle<()>,
    done: Arc<AtomicBool>,
}

struct RTask {
    gate_tx: Option<oneshot::Sender<GateMsg>>,
    cancel: Option<CancellationToken>,
    handle: Option<Arc<JoinHandle>>,
    token: Option<Token>,
    guard: Option<TokenTriggerDropGuard>,
    joiners: Vec<Joiner>,
    body_finished: Arc<AtomicBool>,
    body_dropped: Arc<AtomicBool>,
    /// the join handle was already joinable while the task's state was being destroyed
    join_early: Arc<AtomicBool>,
}

fn start_task(kind: Kind) -> RTask {
    let body_finished = Arc::new(AtomicBool::new(false));
    let body_dropped = Arc::new(AtomicBool::new(false));
    let join_early = Arc::new(AtomicBool::new(false));
    let handle_slot: Arc<std::sync::OnceLock<std::sync::Weak<JoinHandle>>> = Arc::new(std::sync::OnceLock::new());
    let mut rt = RTask {
        gate_tx: None,
        cancel: None,
        handle: None,
        token: None,
        guard: None,
        joiners: vec![],
        body_finished: body_finished.clone(),
        body_dropped: body_dropped.clone(),
        join_early: join_early.clone(),
    };
    if kind == Kind::TokenGuard {
        let token = Token::new();
        rt.guard = Some(token.trigger_drop_guard());
        rt.token = Some(token);
        return rt;
    }
    let (tx, rx) = oneshot::channel::<GateMsg>();
    rt.gate_tx = Some(tx);
    // captured (not created inside the block) so that it is dropped with the future even if the
    // future is never polled
    let sentinel = Sentinel {
        dropped: body_dropped,
        handle_slot: handle_slot.clone(),
        join_early,
    };
    let body = async move {
        let _sentinel = sentinel;
        match rx.await {
            Ok(GateMsg::Return) => {
                body_finished.store(true, Ordering::SeqCst);
            }
            Ok(GateMsg::Panic) => panic!("harness: the task body panics"),
            // the harness drops the gate only when the execution is over: let the task end
            Err(_) => {}
        }
    };
    let handle = match kind {
        Kind::Plain => spawn(body),
        Kind::Cancellable | Kind::PreCancelled => {
            let tok = CancellationToken::new();
            if kind == Kind::PreCancelled {
                tok.cancel();
            }
            let h = spawn_cancellable(tok.clone(), body);
            rt.cancel = Some(tok);
            h
        }
        Kind::TokenGuard => unreachable!(),
    };
    let handle = Arc::new(handle);
    let _ = handle_slot.set(Arc::downgrade(&handle));
    rt.handle = Some(handle);
    rt
}

fn start_joiner(rt: &mut RTask) {
    let done = Arc::new(AtomicBool::new(false));
    let d = done.clone();
    let task = if let Some(h) = &rt.handle {
        let h = h.clone();
        tokio::spawn(async move {
            h.join().await;
            d.store(true, Ordering::SeqCst);
        })
    } else {
        let t = rt.token.clone().expect("token");
        tokio::spawn(async move {
            t.triggered().await;
            d.store(true, Ordering::SeqCst);
        })
    };
    rt.joiners.push(Joiner { task, done });
}

async fn apply_real(rt: &mut RTask, ev: Ev) {
    match ev {
        Ev::Open(_) => {
            if let Some(tx) = rt.gate_tx.take() {
                let _ = tx.send(GateMsg::Return);
            }
        }
        Ev::Panic(_) => {
            if let Some(tx) = rt.gate_tx.take() {
                let _ = tx.send(GateMsg::Panic);
            }
        }
        Ev::Cancel(_) => rt.cancel.as_ref().expect("cancellable").cancel(),
        Ev::Join1(_) | Ev::Join2(_) => start_joiner(rt),
        Ev::DropHandle(_) => {
            // the joiners borrow the handle; dropping it means their join futures go first
            for j in rt.joiners.drain(..) {
                j.task.abort();
                let _ = j.task.await;
            }
            let h = rt.handle.take().expect("handle");
            assert_eq!(Arc::strong_count(&h), 1, "harness: joiners still hold the handle");
            drop(h);
        }
        Ev::Trigger(_) => rt.token.as_ref().expect("token").trigger(),
        Ev::Disarm(_) => rt.guard.as_mut().expect("guard").disarm(),
        Ev::DropGuard(_) => drop(rt.guard.take().expect("guard")),
    }
}

#[derive(Clone, Copy, PartialEq, Eq, Debug)]
enum Rt {
    Current,
    Multi,
}

/// Observation of one task in the settled state.
#[derive(Debug, Clone, PartialEq, Eq, Hash)]
struct Obs {
    joiners_done: Vec<bool>,
    body_finished: bool,
    body_dropped: bool,
    token_fired: Option<bool>,
}

fn observe(rt: &RTask) -> Obs {
    Obs {
        joiners_done: rt.joiners.iter().map(|j| j.done.load(Ordering::SeqCst)).collect(),
        body_finished: rt.body_finished.load(Ordering::SeqCst),
        body_dropped: rt.body_dropped.load(Ordering::SeqCst),
        token_fired: rt.token.as_ref().map(|t| t.is_triggered()),
    }
}

fn expected(m: &MTask) -> Obs {
    let n = if m.handle_dropped { 0 } else { m.j1 as usize + m.j2 as usize };
    let ended = m.ended.is_some();
    Obs {
        joiners_done: vec![ended; n],
        body_finished: m.body_finished,
        body_dropped: m.kind != Kind::TokenGuard && ended,
        token_fired: if m.kind == Kind::TokenGuard { Some(ended) } else { None },
    }
}

struct Outcome {
    violations: Vec<(String, String)>,
    /// per-evaluation outcome classes
    classes: Vec<String>,
    model_states: Vec<u64>,
    events: u64,
    nontrivial: bool,
}

async fn settle(mode: Rt, want: &[MTask], real: &[RTask]) {
    match mode {
        Rt::Current => tokio::time::sleep(Duration::from_millis(1)).await,
        Rt::Multi => {
            // real time: wait (bounded) until everything that has to become true is true
            let t0 = Instant::now();
            loop {
                tokio::task::yield_now().await;
                let ok = want.iter().zip(real).all(|(m, r)| {
                    let (e, o) = (expected(m), observe(r));
                    e.joiners_done.iter().zip(&o.joiners_done).all(|(e, o)| !*e || *o)
                        && (!e.body_dropped || o.body_dropped)
                        && (!e.body_finished || o.body_finished)
                });
                if ok || t0.elapsed() > Duration::from_millis(500) {
                    break;
                }
                tokio::time::sleep(Duration::from_micros(50)).await;
            }
        }
    }
}

fn check(step: &str, models: &[MTask], real: &[RTask], out: &mut Outcome) {
    for (t, (m, r)) in models.iter().zip(real).enumerate() {
        let (e, o) = (expected(m), observe(r));
        let kind = format!("{:?}", m.kind).to_lowercase();
        for (j, (ed, od)) in e.joiners_done.iter().zip(&o.joiners_done).enumerate() {
            match (ed, od) {
                (false, true) => out.violations.push(viol(
                    if m.kind == Kind::TokenGuard { "token-fired-without-trigger" } else { "join-resolved-before-task-ended" },
                    format!("after {step}: joiner {j} of task {t} ({kind}) has resolved but the task has neither returned, panicked nor been cancelled"),
                )),
                (true, false) => out.violations.push(viol(
                    if m.kind == Kind::TokenGuard { "token-not-fired" } else { "join-pending-after-task-ended" },
                    format!("after {step}: joiner {j} of task {t} ({kind}) is still pending in the settled state although the task has {}", m.ended.unwrap_or("?")),
                )),
                (true, true) => out.classes.push(format!("join:ready-after-{}", m.ended.unwrap_or("?"))),
                (false, false) => out.classes.push("join:pending-while-running".into()),
            }
        }
        if e.joiners_done.len() != o.joiners_done.len() {
            out.violations.push(viol("harness-joiner-count", format!("after {step}: task {t}: {e:?} vs {o:?}")));
        }
        if m.kind != Kind::TokenGuard {
            if r.join_early.load(Ordering::SeqCst) {
                out.violations.push(viol(
                    "join-resolvable-before-task-state-dropped",
                    format!("after {step}: the join handle of task {t} ({kind}) was already joinable while the task's own state was still being destroyed (task has {:?})", m.ended),
                ));
            }
            if m.cancelled && m.kind != Kind::Plain && !o.body_dropped {
                out.violations.push(viol(
                    "cancelled-task-body-not-dropped",
                    format!("after {step}: the token of task {t} ({kind}) is cancelled but its body future is still alive"),
                ));
            } else if e.body_dropped != o.body_dropped {
                out.violations.push(viol(
                    "task-body-lifetime",
                    format!("after {step}: task {t} ({kind}): body dropped = {}, expected {} (task has {:?})", o.body_dropped, e.body_dropped, m.ended),
                ));
            }
            if m.cancelled && o.body_dropped && matches!(m.ended, Some("cancelled") | Some("precancelled")) {
                out.classes.push("body:dropped-on-cancel".into());
            }
            if o.body_finished && !e.body_finished {
                out.violations.push(viol(
                    "cancelled-task-body-still-ran",
                    format!("after {step}: the body of task {t} ({kind}) ran to completion although the task had {:?} before its gate opened", m.ended),
                ));
            }
            if !o.body_finished && e.body_finished {
                out.violations.push(viol("task-body-did-not-run", format!("after {step}: the body of task {t} ({kind}) did not complete after its gate opened")));
            }
        } else {
            match (e.token_fired, o.token_fired) {
                (Some(false), Some(true)) => out.violations.push(viol(
                    "token-fired-without-trigger",
                    format!("after {step}: token {t} is triggered although it was not triggered and no armed guard was dropped (disarmed={})", m.disarmed),
                )),
                (Some(true), Some(false)) => out.violations.push(viol("token-not-fired", format!("after {step}: token {t} is not triggered after {:?}", m.ended))),
                (Some(true), Some(true)) => out.classes.push(format!("token:fired-by-{}", m.ended.unwrap_or("?"))),
                _ => {
                    if !m.guard_alive && m.disarmed {
                        out.classes.push("token:silent-after-disarmed-guard-dropped".into());
                    }
                }
            }
        }
    }
}

fn model_key(models: &[MTask]) -> u64 {
    fnv64(format!("{models:?}").as_bytes())
}

/// Runs one event sequence against fresh tasks on a fresh runtime.
fn multi_runtime() -> &'static tokio::runtime::Runtime {
    static RT: std::sync::OnceLock<tokio::runtime::Runtime> = std::sync::OnceLock::new();
    RT.get_or_init(|| {
        tokio::runtime::Builder::new_multi_thread()
            .worker_threads(2)
            .enable_time()
            .on_thread_start(quiet_panics_on_this_thread)
            .build()
            .unwrap()
    })
}

fn run_seq(kinds: &[Kind], seq: &[Ev], mode: Rt) -> Outcome {
    let own;
    let rt: &tokio::runtime::Runtime = match mode {
        Rt::Current => {
            own = tokio::runtime::Builder::new_current_thread().enable_time().start_paused(true).build().unwrap();
            &own
        }
        // the smoke pass shares one 2-worker runtime (the driver itself runs on the calling thread,
        // the tasks and joiners on the workers)
        Rt::Multi => multi_runtime(),
    };
    let mut out = Outcome { violations: vec![], classes: vec![], model_states: vec![], events: 0, nontrivial: false };
    rt.block_on(async {
        let mut models: Vec<MTask> = kinds.iter().map(|k| MTask::new(*k)).collect();
        let mut real: Vec<RTask> = kinds.iter().map(|k| start_task(*k)).collect();
        settle(mode, &models, &real).await;
        check("start", &models, &real, &mut out);
        out.model_states.push(model_key(&models));
        for (i, ev) in seq.iter().enumerate() {
            let t = task_of(*ev);
            models[t].apply(*ev);
            apply_real(&mut real[t], *ev).await;
            settle(mode, &models, &real).await;
            check(&format!("event {i} {ev:?}"), &models, &real, &mut out);
            out.model_states.push(model_key(&models));
            out.events += 1;
        }
        out.nontrivial = models.iter().any(|m| m.j1 && m.ended.is_some());
        // tidy up so that dropping the runtime has nothing to cancel mid-poll
        for r in &mut real {
            for j in r.joiners.drain(..) {
                j.task.abort();
            }
        }
    });
    out
}

// ---------------------------------------------------------------------------------------
// enumeration of all event orders

fn extend(models: &[MTask], seq: &mut Vec<Ev>, max_len: usize, leaf: &mut dyn FnMut(&[Ev])) {
    let enabled: Vec<Ev> = models.iter().enumerate().flat_map(|(t, m)| m.enabled(t)).collect();
    if seq.len() == max_len || enabled.is_empty() {
        leaf(seq);
        return;
    }
    for ev in enabled {
        let mut next = models.to_vec();
        next[task_of(ev)].apply(ev);
        seq.push(ev);
        extend(&next, seq, max_len, leaf);
        seq.pop();
    }
}

/// All maximal sequences (length `max_len`, or shorter when nothing is enabled any more)
/// that start with `prefix`.
fn sequences_from(kinds: &[Kind], prefix: &[Ev], max_len: usize, leaf: &mut dyn FnMut(&[Ev])) {
    let mut models: Vec<MTask> = kinds.iter().map(|k| MTask::new(*k)).collect();
    for ev in prefix {
        models[task_of(*ev)].apply(*ev);
    }
    let mut seq = prefix.to_vec();
    extend(&models, &mut seq, max_len, leaf);
}

fn kind_sets(triples: bool) -> Vec<Vec<Kind>> {
    let all = [Kind::Plain, Kind::Cancellable, Kind::PreCancelled, Kind::TokenGuard];
    let mut v: Vec<Vec<Kind>> = all.iter().map(|k| vec![*k]).collect();
    for (i, a) in all.iter().enumerate() {
        for b in &all[i..] {
            v.push(vec![*a, *b]);
        }
    }
    if triples {
        for (i, a) in all.iter().enumerate() {
            for (j, b) in all.iter().enumerate().skip(i) {
                for c in &all[j..] {
                    v.push(vec![*a, *b, *c]);
                }
            }
        }
    }
    v
}

fn eval(kinds: &[Kind], seq: &[Ev], mode: Rt, rep: &mut Report, states: &mut HashSet<u64>) {
    let case = json!({"kinds": kinds, "events": seq, "runtime": if mode == Rt::Current { "current-thread" } else { "multi-thread" }});
    match guard(|| run_seq(kinds, seq, mode)) {
        Err(p) => {
            rep.case_nokey("harness-panic");
            rep.violation("panic", format!("the executor utilities or the harness panicked: {p}"), case);
        }
        Ok(out) => {
            rep.case_nokey(&format!("executed:{}-task", kinds.len()));
            rep.max_depth = rep.max_depth.max(seq.len() as u64);
            rep.transitions += out.events;
            for c in out.classes {
                *rep.classes.entry(c).or_insert(0) += 1;
            }
            states.extend(out.model_states);
            if out.nontrivial {
                *rep.classes.entry("nontrivial".into()).or_insert(0) += 1;
            }
            if !out.violations.is_empty() {
                // replay before reporting
                let again = guard(|| run_seq(kinds, seq, mode));
                let same = again.as_ref().map(|a| a.violations.iter().map(|v| &v.0).collect::<Vec<_>>() == out.violations.iter().map(|v| &v.0).collect::<Vec<_>>()).unwrap_or(false);
                if !same && mode == Rt::Current {
                    rep.violation("non-deterministic-replay", format!("violations {:?} did not reproduce", out.violations), case.clone());
                }
                for (k, w) in out.violations {
                    rep.violation(&k, w, case.clone());
                }
            }
            if rep.wants_sample() && seq.len() >= 3 && fnv64(format!("{seq:?}").as_bytes()) % 5003 == 7 {
                rep.sample(|| case);
            }
        }
    }
}

fn main() {
    let ctx = Ctx::from_args("C42");
    quiet_panics_on_this_thread();
    let spec = Spec {
        rule: "task sets: every single kind of {plain spawn, spawn_cancellable, spawn_cancellable with a pre-cancelled token, raw Token + drop guard} and every unordered pair of kinds; events per task: gate opens (return) | gate opens (panic) [once], cancel [cancellable], first joiner, second joiner [after the first], drop handle (aborts that task's joiners first) / per token: trigger, disarm guard, drop guard, first/second waiter. EVERY order of enabled events is executed up to length L (1 task: all maximal sequences; 2 tasks: L=7 quick, thorough: all maximal sequences = every order of every event, up to 10 events; thorough also every multiset of 3 kinds with L=4), oracle after every event, so all shorter orders are covered as prefixes. One evaluation = one maximal sequence on a fresh current-thread runtime (paused clock); a transition = one event applied to the real objects + one oracle evaluation; states = distinct reference-model states visited; distinct by construction (the DFS over enabled events never repeats a sequence); non-trivial = executions with at least one joiner and an ended task. A sub-set is re-run on a 2-worker multi-thread runtime as a smoke pass (reported separately, not counted).",
        assumptions: &[
            "tasks of a current-thread runtime interleave only at awaits; every await of the task bodies and joiners waits on a harness-owned gate or on the handle under test, so event orders are the schedules",
            "settled state = tokio's paused clock auto-advancing a 1 ms sleep, which happens only when every other task is blocked",
            "dropping a handle while joiners exist is modelled as cancelling those joiners first (the borrow checker forces that order)",
        ],
        required_classes: &[
            "join:pending-while-running",
            "join:ready-after-returned",
            "join:ready-after-panicked",
            "join:ready-after-cancelled",
            "join:ready-after-precancelled",
            "join:ready-after-triggered",
            "join:ready-after-guard-dropped",
            "body:dropped-on-cancel",
            "token:fired-by-triggered",
            "token:fired-by-guard-dropped",
            "token:silent-after-disarmed-guard-dropped",
            "nontrivial",
        ],
        exhaustive: true,
    };

    if let Some(c) = ctx.replay_case() {
        let kinds: Vec<Kind> = serde_json::from_value(c["kinds"].clone()).unwrap();
        let seq: Vec<Ev> = serde_json::from_value(c["events"].clone()).unwrap();
        let mode = if c["runtime"] == "multi-thread" { Rt::Multi } else { Rt::Current };
        let mut rep = Report::new();
        let mut st = HashSet::new();
        eval(&kinds, &seq, mode, &mut rep, &mut st);
        finish(&ctx, rep, spec);
    }

    let two_len: usize = ctx.tier.pick(7, 16);
    let wall_cap = Duration::from_secs(ctx.tier.pick(50, 780));
    let t0 = Instant::now();
    let states = Mutex::new(HashSet::<u64>::new());
    let mut rep = Report::new();
    let mut per_set = vec![];
    let mut smoke_items: Vec<(Vec<Kind>, Vec<Ev>)> = vec![];
    for kinds in kind_sets(!ctx.quick()) {
        let max_len = match kinds.len() {
            1 => 16,
            2 => two_len,
            _ => 4,
        };
        // work items: all prefixes of length <= 2, expanded below by each worker
        let mut prefixes: Vec<Vec<Ev>> = vec![];
        sequences_from(&kinds, &[], 2.min(max_len), &mut |s| prefixes.push(s.to_vec()));
        let capped = AtomicBool::new(false);
        let r = prefixes
            .par_iter()
            .fold(Report::new, |mut r, p| {
                quiet_panics_on_this_thread_once();
                let mut st = HashSet::new();
                sequences_from(&kinds, p, max_len, &mut |s| {
                    if t0.elapsed() > wall_cap {
                        capped.store(true, Ordering::Relaxed);
                        return;
                    }
                    eval(&kinds, s, Rt::Current, &mut r, &mut st);
                });
                states.lock().unwrap().extend(st);
                r
            })
            .reduce(Report::new, Report::merge);
        if capped.load(Ordering::Relaxed) {
            rep.cap_hit(&format!("wall cap during {kinds:?}"));
        }
        per_set.push(json!({"kinds": kinds, "max_len": max_len, "sequences": r.evaluations, "events": r.transitions}));
        // smoke set: the 1-task sequences and the 2-task sequences of length <= 4
        let smoke_len = if kinds.len() == 1 { 16 } else { 4 };
        sequences_from(&kinds, &[], smoke_len, &mut |s| smoke_items.push((kinds.clone(), s.to_vec())));
        rep.merge_in(r);
        if rep.violation_count > 0 {
            break; // simplest-first
        }
    }
    let n_states = states.lock().unwrap().len() as u64;
    rep.states = n_states;
    rep.traces = rep.evaluations;
    rep.extra("distinct_by_construction", json!(rep.evaluations));
    rep.extra("distinct_nontrivial_by_construction", json!(rep.classes.get("nontrivial").copied().unwrap_or(0)));
    rep.extra("per_task_set", json!(per_set));

    // smoke pass on a 2-worker multi-thread runtime (not counted as coverage)
    if rep.violation_count == 0 {
        let smoke_cap = Duration::from_secs(ctx.tier.pick(8, 60));
        let s0 = Instant::now();
        let mut smoke = Report::new();
        let mut st = HashSet::new();
        let mut ran = 0u64;
        for (kinds, seq) in &smoke_items {
            if s0.elapsed() > smoke_cap {
                break;
            }
            eval(kinds, seq, Rt::Multi, &mut smoke, &mut st);
            ran += 1;
        }
        rep.extra(
            "multi_thread_smoke",
            json!({"sequences_available": smoke_items.len(), "sequences_run": ran, "violations": smoke.violation_count, "wall_s": s0.elapsed().as_secs_f64()}),
        );
        for v in smoke.violations {
            rep.violation(&v.key, format!("[multi-thread smoke] {}", v.what), v.case);
        }
    }
    finish(&ctx, rep, spec);
}

fn quiet_panics_on_this_thread_once() {
    thread_local! { static DONE: std::cell::Cell<bool> = const { std::cell::Cell::new(false) }; }
    DONE.with(|d| {
        if !d.get() {
            d.set(true);
            quiet_panics_on_this_thread();
        }
    });
}
