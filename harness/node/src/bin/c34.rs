//! C34 — Data sampling respects concurrency limits and recency order.   (engine E3)
//!
//! Same system as C33 (`shared/daser_sys.rs`): real `Daser` + `InMemoryStore` behind a logging
//! `Store` wrapper + mocked `P2p`.  Oracle: an independent model of the eligible set.  At each
//! start of a block (the moment the Daser records the block's sampling metadata, which is
//! cross-checked against the `SamplingStarted` node events): blocks in progress < limit, or
//! < limit + allowance if the block is the newest stored one; the block is the highest height
//! that the Daser was told is stored (last `get_stored_header_ranges` answer), still is stored,
//! and is not sampled / in progress / promised to the pruner / timed out since the last
//! reconnection; it is inside the sampling window; it is not prunable while the reported
//! backlog is >= 512.  Daser half of C35: `WantToPrune(h)` is refused while h is in progress
//! and a granted height is never started afterwards.
#[path = "../shared/daser_sys.rs"]
mod daser_sys;

use daser_sys::*;
use lv_core::*;
use std::sync::Mutex;
use std::time::Duration;

const PROPS: &[&str] = &["C34", "C35"];

fn full_menu(prune: Vec<u64>, report_highest: Vec<u64>, all_positions: bool) -> Menu {
    Menu {
        all_positions,
        timeouts: true,
        insert_head: true,
        backfill: true,
        reconnect: true,
        prune,
        report_highest,
        clock: true,
        pairs: true,
        balanced_default: false,
    }
}

#[allow(clippy::too_many_arguments)]
fn cfg(name: String, widths: &[u16], old: usize, initial: &[(u64, u64)], pre_sampled: &[u64], limit: usize, allowance: usize, menu: Menu, preset: Option<(u64, u64)>) -> Cfg {
    Cfg {
        name,
        widths: widths.to_vec(),
        old,
        initial: initial.to_vec(),
        pre_sampled: pre_sampled.to_vec(),
        limit,
        allowance,
        horizon: 80,
        menu,
        preset_highest: preset.map(|p| p.0),
        preset_backlog: preset.map(|p| p.1).unwrap_or(0),
    }
}

/// (configuration, deviation bound); simplest first.
fn cfgs(quick: bool) -> Vec<(Cfg, usize)> {
    let limits: [(usize, usize); 4] = [(1, 0), (1, 1), (2, 1), (3, 5)];
    let mut v = vec![];
    let a_cfg = |l: usize, a: usize, all: bool| cfg(format!("A-old2-1to4-l{l}+{a}"), &[2; 6], 2, &[(1, 4)], &[], l, a, full_menu(vec![2, 3, 4], vec![4], all), None);
    let b_cfg = |l: usize, a: usize, all: bool| cfg(format!("B-gap-l{l}+{a}"), &[2; 6], 1, &[(1, 2), (4, 5)], &[4], l, a, full_menu(vec![2, 5], vec![5], all), None);
    let c_cfg = |l: usize, a: usize, all: bool| {
        cfg(format!("C-ratelimited-l{l}+{a}"), &[2; 6], 0, &[(1, 5)], &[], l, a, full_menu(vec![3], vec![4, 6], all), Some((4, 512)))
    };
    for (l, a) in limits {
        // A: heights 1,2 older than the window; 1..=4 stored, 5 and 6 arrive later
        v.push((a_cfg(l, a, true), 2));
    }
    // A with the default path keeping the blocks in progress level (two blocks can then finish
    // in the same poll of the Daser task with a single pair delivery)
    for (l, a) in [(2usize, 1usize), (3, 5)] {
        let mut c = a_cfg(l, a, false);
        c.name += "-balanced";
        c.menu.balanced_default = true;
        v.push((c, 2));
    }
    for (l, a) in limits {
        // B: a gap (3 missing, backfilled later), 4 already sampled, 6 arrives later
        v.push((b_cfg(l, a, true), 2));
        // C: the pruner already reports "everything up to 4 is prunable, backlog 512"
        v.push((c_cfg(l, a, true), 2));
    }
    if !quick {
        // E: a longer chain with two stored ranges and mixed widths
        for (l, a) in [(2usize, 1usize), (3, 5)] {
            v.push((
                cfg(format!("E-long-l{l}+{a}"), &[2, 2, 4, 2, 2, 4, 2, 2], 2, &[(1, 3), (5, 6)], &[5], l, a, full_menu(vec![3, 6], vec![6], false), None),
                2,
            ));
        }
        // D: three deviations on the smallest interesting system
        for (l, a) in [(1usize, 1usize), (2, 1)] {
            v.push((cfg(format!("D-deep-l{l}+{a}"), &[2; 4], 1, &[(1, 3)], &[], l, a, full_menu(vec![2], vec![3], false), None), 3));
        }
        // three deviations on the quick systems (oldest/newest answer positions)
        let mut c = c_cfg(1, 1, false);
        c.name += "-deep";
        v.push((c, 3));
        let mut b = b_cfg(1, 1, false);
        b.name += "-deep";
        v.push((b, 3));
        let mut a = a_cfg(2, 1, false);
        a.name += "-deep";
        v.push((a, 3));
    }
    v
}

fn main() {
    let ctx = Ctx::from_args("C34");
    start_watchdog(&ctx.id);
    let mut rep = Report::new();
    let stats: Stats = Mutex::new(Default::default());
    if let Some(case) = ctx.replay_case() {
        if let Err(e) = replay(&case, PROPS, &mut rep) {
            machinery_error(&ctx.id, &e);
        }
    } else {
        let budget = ctx.tier.pick(100.0, 840.0);
        for (cfg, bound) in cfgs(ctx.quick()) {
            let t = std::time::Instant::now();
            let left = (budget - ctx.elapsed_s()).max(1.0);
            let ex = Explore { bound, wall_cap: Duration::from_secs_f64(left), max_execs: 20_000_000 };
            if let Err(e) = explore_cfg(&cfg, &ex, PROPS, &stats, &mut rep) {
                // a violation found on the way is the more useful verdict
                if rep.violation_count == 0 {
                    machinery_error(&ctx.id, &e);
                }
                eprintln!("machinery problem after a violation: {e}");
                break;
            }
            let (ok, to) = {
                let s = stats.lock().unwrap();
                (s.get("block-all-shares-ok").copied().unwrap_or(0), s.get("block-timed-out").copied().unwrap_or(0))
            };
            eprintln!(
                "cfg {} done in {:.1}s (evaluations so far {}, blocks ok/timed-out so far {ok}/{to})",
                cfg.name,
                t.elapsed().as_secs_f64(),
                rep.evaluations
            );
        }
        merge_stats(&stats, &mut rep);
    }
    finish(
        &ctx,
        rep,
        Spec {
            rule: "E3: real Daser over InMemoryStore + mocked P2p; (limit, allowance) in {(1,0),(1,1),(2,1),(3,5)} x stores {A: heights 1..=4 stored, 1-2 older than the window, heads 5,6 arriving; B: 1-2 and 4-5 stored (3 backfilled later), 4 pre-sampled, head 6 arriving; C: 1..=5 stored with preset pruner reports highest=4, backlog=512}; events: answer any outstanding request of any block in progress with a valid sample / RequestTimedOut, deliver two answers back-to-back without letting the Daser run in between (oldest outstanding requests of two different blocks, all ordered block pairs x {ok,timeout}^2, one choice), insert next head, backfill below the newest range, disconnect/reconnect, WantToPrune(h) and removal of granted heights, UpdateHighestPrunableHeight(v), UpdateNumberOfPrunableBlocks in {0,511,512}, advance clock 61 s / 5 h; every event sequence with <= 2 deviations (A also for (2,1),(3,5) with a default path that answers the block with the most outstanding requests first; thorough adds E: 8 heights of widths 2/4 in two stored ranges, limits (2,1),(3,5), answers at oldest/newest position only, <= 2 deviations, and <= 3 deviations on D: 3 stored of 4 heights for (1,1),(2,1), and on C(1,1), B(1,1), A(2,1) with answers at oldest/newest position only) from the default (answer the oldest request successfully, then insert the next head) is executed; the oracle runs after every event. distinct = distinct choice sequences; states = distinct observation traces",
            assumptions: &[
                "wall clock Time::now() is not seamed: header times are 1 h (inside) / 6 h (outside) old against a 4 h sampling window, so the window edge itself is not exercised",
                "'known stored height' is read as: contained in the last answer the Daser got from Store::get_stored_header_ranges and still stored (headers backfilled below the head do not wake wait_new_head)",
                "the start of a block is the Daser's update_sampling_metadata call (exactly ordered by the logging store); SamplingStarted events are emitted later, when the block's future is first polled",
                "the pruner follows its protocol: it removes a height only after WantToPrune(h) was granted",
            ],
            required_classes: &[
                "completed",
                "seen:start:under-limit",
                "seen:start:newest-under-limit",
                "seen:start:newest-on-allowance",
                "seen:block-timed-out",
                "seen:block-marked-sampled",
                "seen:prune-refused",
                "seen:prune-granted",
            ],
            exhaustive: true,
        },
    );
}
