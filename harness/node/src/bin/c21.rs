//! C21 — Stored headers always form fork-free hash-linked segments.   (engine E2)
//!
//! Thin main: the search, the reference model and the three oracles live in
//! `../shared/store_model.rs` (one explicit-state search serving C19, C20 and C21); this
//! binary reports the violations of the C21 oracle and writes its own evidence.
#[path = "../shared/store_model.rs"]
mod store_model;

fn main() {
    store_model::run("C21", store_model::Which::C21);
}
