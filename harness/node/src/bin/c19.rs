// scratch measurement (replaced later)
use lumina_node::store::{RedbStore, Store};
use std::io;
use std::sync::{Arc, Mutex};
use std::time::Instant;

#[derive(Clone, Debug, Default)]
struct Img(Arc<Mutex<Vec<u8>>>);
fn oob() -> io::Error {
    io::Error::new(io::ErrorKind::InvalidInput, "oob")
}
impl redb::StorageBackend for Img {
    fn len(&self) -> Result<u64, io::Error> {
        Ok(self.0.lock().unwrap().len() as u64)
    }
    fn read(&self, offset: u64, len: usize) -> Result<Vec<u8>, io::Error> {
        let g = self.0.lock().unwrap();
        let o = offset as usize;
        if o + len <= g.len() { Ok(g[o..o + len].to_vec()) } else { Err(oob()) }
    }
    fn set_len(&self, len: u64) -> Result<(), io::Error> {
        self.0.lock().unwrap().resize(len as usize, 0);
        Ok(())
    }
    fn sync_data(&self, _: bool) -> Result<(), io::Error> {
        Ok(())
    }
    fn write(&self, offset: u64, data: &[u8]) -> Result<(), io::Error> {
        let mut g = self.0.lock().unwrap();
        let o = offset as usize;
        if o + data.len() <= g.len() { g[o..o + data.len()].copy_from_slice(data); Ok(()) } else { Err(oob()) }
    }
}

fn main() {
    let rt = tokio::runtime::Builder::new_current_thread().enable_all().build().unwrap();
    let mut g = celestia_types::test_utils::ExtendedHeaderGenerator::new();
    let hs = g.next_many(6);
    rt.block_on(async {
        for round in 0..3 {
            let t = Instant::now();
            let img = Img::default();
            let db = redb::Database::builder().create_with_backend(img.clone()).unwrap();
            let t_create = t.elapsed();
            let s = RedbStore::new(Arc::new(db)).await.unwrap();
            let t_new = t.elapsed();
            s.insert(hs[0..3].to_vec()).await.unwrap();
            let t_ins = t.elapsed();
            for _ in 0..50 {
                let _ = s.get_by_height(2).await;
            }
            let t_q = t.elapsed();
            s.mark_as_sampled(2).await.unwrap();
            let t_mark = t.elapsed();
            drop(s);
            let t_drop = t.elapsed();
            let image = img.0.lock().unwrap().clone();
            let nz = image.chunks(4096).filter(|c| c.iter().any(|b| *b != 0)).count();
            println!("round {round}: create {t_create:?} new {t_new:?} ins {t_ins:?} 50q {t_q:?} mark {t_mark:?} drop {t_drop:?} image {} nonzero pages {nz}", image.len());
            // reopen from copy
            let t = Instant::now();
            let img2 = Img(Arc::new(Mutex::new(image.clone())));
            let db = redb::Database::builder().create_with_backend(img2.clone()).unwrap();
            let t_open = t.elapsed();
            let s = RedbStore::new(Arc::new(db)).await.unwrap();
            let t_new = t.elapsed();
            let r = s.get_stored_header_ranges().await.unwrap();
            s.insert(hs[3..4].to_vec()).await.unwrap();
            println!("   reopen: open {t_open:?} new {t_new:?} total {:?} ranges {r}", t.elapsed());
            // dirty copy (while open)
            let dirty = img2.0.lock().unwrap().clone();
            let t = Instant::now();
            let db = redb::Database::builder().create_with_backend(Img(Arc::new(Mutex::new(dirty)))).unwrap();
            let t_open = t.elapsed();
            let s2 = RedbStore::new(Arc::new(db)).await.unwrap();
            println!("   dirty reopen: open {t_open:?} total {:?} ranges {}", t.elapsed(), s2.get_stored_header_ranges().await.unwrap());
        }
    });
}
